// oas_sig harness (unit of C18, cited by C02): the OASIS validation signature.  Real code: zlib's crc32, gdstk's
// checksum32, the END record of Library::write_oas with OASIS_CONFIG_INCLUDE_CRC32 / _CHECKSUM32, and oas_validate.
// Model: coq/OasisSig.v (extracted: ocaml/extracted/oas_sig.ml, driver ocaml/oas_sig_driver.ml).
//   kind crc / sum : payload "<init> <cuts> <hex>": the checksum of the byte string computed chunk by chunk (cuts = comma
//                    list of chunk lengths, "-" = one call) starting from <init>; lengths around 0, 1, 5, 255, 32 KiB,
//                    64 KiB, 96 KiB (+-1); I = 8 hex digits.
//   kind val       : payload "<class> x<hex>": the bytes are written to a file, oas_validate runs on it in a forked child
//                    (twice with different initial values behind the two out-pointers, once with NULL pointers);
//                    I = "ret=<0|1> sig=<8 hex|-> err=<name|-> null=<0|1>" ("-" = the pointer target was not written).
//                    classes: full0/full1/full2 complete file written by write_oas (scheme 0 / CRC32 / CHECKSUM32),
//                    cut1/cut2 proper prefix of a signed file, mut1/mut2 one byte of a signed file replaced,
//                    raw hand-built bytes, emb1/emb2 prefix of a signed file that ends in an embedded signature.
//   kind cuts      : payload "<s0|s1|s2> x<hex>": oas_validate on EVERY prefix 0 .. size; I = run-length encoded results.
//   kind end       : payload "<scheme> <endpos> <cn> <ts> <pn> <ps> x<hex>": a file written by write_oas (any flags, any
//                    deflate level); endpos and the four table offsets come from an independent record scan
//                    (oas_scan.hpp); I = hex of the file from endpos on (the END record).
//   kind wsig      : payload "<layout seed> <variant> | <crc> <sum> <library text>" (library text as harness/c04w.cpp):
//                    a random library of the subset OasisWrite.v covers saved with write_oas(file, 0, 0, flags), flags from
//                    variant (bit 0 CELL_OFFSET, bit 1 CRC32, bit 2 CHECKSUM32); I = hex of the whole file.
//   P lines (implementation only): no crash / hang, no descriptor left open by a call, a complete signed file validates
//   with the signature stored in its last four bytes, a proper prefix of a signed file never reports a matching signature.
#include <fcntl.h>
#include <zlib.h>
#include <algorithm>
#include <gdstk/gdstk.hpp>
#include "oas_layout.hpp"
#include "oas_scan.hpp"

using namespace gdstk;
using namespace oasl;

static_assert(OASIS_CONFIG_INCLUDE_CRC32 == 0x0040, "flag value modelled in OasisSig.v");
static_assert(OASIS_CONFIG_INCLUDE_CHECKSUM32 == 0x0080, "flag value modelled in OasisSig.v");

static std::string g_outdir;

static void spit(const std::string& path, const uint8_t* p, size_t n) {
    FILE* f = fopen(path.c_str(), "wb");
    if (!f) return;
    if (n) fwrite(p, 1, n, f);
    fclose(f);
}
static std::vector<uint8_t> slurp(const std::string& path) {
    std::vector<uint8_t> v;
    FILE* f = fopen(path.c_str(), "rb");
    if (!f) return v;
    uint8_t buf[65536];
    size_t r;
    while ((r = fread(buf, 1, sizeof buf, f)) > 0) v.insert(v.end(), buf, buf + r);
    fclose(f);
    return v;
}
static int count_fds() {
    int n = 0;
    DIR* d = opendir("/proc/self/fd");
    if (!d) return -1;
    while (readdir(d)) n++;
    closedir(d);
    return n;
}
static std::string hex8(uint32_t v) {
    char b[16];
    snprintf(b, sizeof b, "%08x", v);
    return b;
}
static std::string err_name(ErrorCode e) {
    switch (e) {
        case ErrorCode::InvalidFile: return "InvalidFile";
        case ErrorCode::ChecksumError: return "ChecksumError";
        case ErrorCode::InputFileOpenError: return "InputFileOpenError";
        default: return "err" + std::to_string((int)e);
    }
}
static std::string payload_hex(const std::string& payload) {
    size_t sp = payload.rfind(' ');
    std::string hex = sp == std::string::npos ? payload : payload.substr(sp + 1);
    if (!hex.empty() && hex[0] == 'x') hex = hex.substr(1);
    if (hex == "-") hex.clear();
    return hex;
}
static std::string first_word(const std::string& payload) {
    size_t sp = payload.find(' ');
    return sp == std::string::npos ? payload : payload.substr(0, sp);
}

// independent reference implementations for the P lines (bit at a time CRC, plain sum)
static uint32_t ref_crc(const uint8_t* p, size_t n) {
    uint32_t c = 0xffffffffu;
    for (size_t i = 0; i < n; i++) {
        c ^= p[i];
        for (int k = 0; k < 8; k++) c = (c & 1) ? (c >> 1) ^ 0xedb88320u : c >> 1;
    }
    return ~c;
}
static uint32_t ref_sum(const uint8_t* p, size_t n) {
    uint64_t s = 0;
    for (size_t i = 0; i < n; i++) s += p[i];
    return (uint32_t)s;
}

// ---------------------------------------------------------------- one oas_validate observation
static const uint32_t SENT_A = 0xA5A5A5A5u, SENT_B = 0x5A5A5A5Au;
// three calls; also reports the descriptor count before and after (appended as " fd=<before>,<after>")
static std::string validate_text(const std::string& path) {
    int fd0 = count_fds();
    uint32_t s1 = SENT_A, s2 = SENT_B;
    ErrorCode e1 = (ErrorCode)0x7777, e2 = (ErrorCode)0x7778;
    bool r1 = oas_validate(path.c_str(), &s1, &e1);
    bool r2 = oas_validate(path.c_str(), &s2, &e2);
    bool r3 = oas_validate(path.c_str(), NULL, NULL);
    int fd1 = count_fds();
    std::string sig, err;
    if (s1 == SENT_A && s2 == SENT_B) sig = "-";
    else if (s1 == s2) sig = hex8(s1);
    else sig = "unstable:" + hex8(s1) + "/" + hex8(s2);
    if (e1 == (ErrorCode)0x7777 && e2 == (ErrorCode)0x7778) err = "-";
    else if (e1 == e2) err = err_name(e1);
    else err = "unstable";
    std::string t = std::string("ret=") + (r1 ? "1" : "0") + " sig=" + sig + " err=" + err + " null=" + (r3 ? "1" : "0");
    if (r1 != r2) t += " ret2=" + std::string(r2 ? "1" : "0");
    t += " fd=" + std::to_string(fd0) + "," + std::to_string(fd1);
    return t;
}
// splits " fd=a,b" off; returns true when a descriptor was left open
static bool strip_fd(std::string& t) {
    size_t p = t.rfind(" fd=");
    if (p == std::string::npos) return false;
    int a = 0, b = 0;
    sscanf(t.c_str() + p, " fd=%d,%d", &a, &b);
    t.erase(p);
    return a != b;
}
static bool is_match(const std::string& t) { return t.compare(0, 6, "ret=1 ") == 0 && t.find(" err=- ") != std::string::npos; }

static void silence() {
    int dn = open("/dev/null", O_WRONLY);
    if (dn >= 0) dup2(dn, 2);
    set_error_logger(NULL);
}

// results for the cuts lo .. hi of bytes (each the text of validate_text); crash / hang resumes behind the cut
static std::vector<std::string> sweep(const std::vector<uint8_t>& bytes, const std::vector<size_t>& cutlist, bool& leak) {
    std::vector<std::string> res(cutlist.size());
    size_t next = 0;
    std::string path = g_outdir + "/cut.oas";
    leak = false;
    while (next < cutlist.size()) {
        int fd[2];
        if (pipe(fd) != 0) exit(4);
        fflush(NULL);
        pid_t pid = fork();
        if (pid == 0) {
            ::close(fd[0]);
            silence();
            FILE* o = fdopen(fd[1], "w");
            for (size_t i = next; i < cutlist.size(); i++) {
                alarm(30);
                spit(path, bytes.data(), cutlist[i]);
                std::string st = validate_text(path);
                fprintf(o, "%zu\t%s\n", i, st.c_str());
                fflush(o);
            }
            VERIF_COV_DUMP();
            _exit(0);
        }
        ::close(fd[1]);
        FILE* in = fdopen(fd[0], "r");
        char* line = NULL;
        size_t cap = 0;
        size_t done = next;
        while (getline(&line, &cap, in) > 0) {
            std::string s(line);
            while (!s.empty() && s.back() == '\n') s.pop_back();
            size_t t = s.find('\t');
            if (t == std::string::npos) continue;
            size_t i = (size_t)strtoull(s.c_str(), NULL, 10);
            if (i < cutlist.size()) {
                std::string v = s.substr(t + 1);
                if (strip_fd(v)) leak = true;
                res[i] = v;
                done = i + 1;
            }
        }
        free(line);
        fclose(in);
        int st = 0;
        waitpid(pid, &st, 0);
        if (done < cutlist.size()) {
            res[done] = (WIFSIGNALED(st) && WTERMSIG(st) == SIGALRM) ? "hang" : "crash";
            done++;
        }
        next = done;
    }
    return res;
}
static std::string rle(const std::vector<std::string>& v) {
    std::string s;
    size_t i = 0;
    while (i < v.size()) {
        size_t j = i;
        while (j < v.size() && v[j] == v[i]) j++;
        if (!s.empty()) s += ";";
        s += v[i] + "*" + std::to_string(j - i);
        i = j;
    }
    return s;
}

// ---------------------------------------------------------------- cases
static void run_crc(Out& out, const std::string& kind, const std::string& payload) {
    char init_s[64] = "", cuts_s[4096] = "";
    if (sscanf(payload.c_str(), "%63s %4095s", init_s, cuts_s) != 2) return;
    std::vector<uint8_t> b = unhex(payload_hex(payload));
    std::vector<size_t> cuts;
    if (strcmp(cuts_s, "-") != 0) {
        const char* p = cuts_s;
        while (*p) {
            cuts.push_back((size_t)strtoull(p, (char**)&p, 10));
            if (*p == ',') p++;
        }
    }
    uint32_t c = (uint32_t)strtoul(init_s, NULL, 16);
    uint32_t c0 = c;
    // zlib's crc32 returns 0 for a NULL buffer whatever the running value (the "initial value" idiom crc32(0, NULL, 0),
    // modelled as crc32_init); the model is about calls with a buffer, so an empty string still gets a real pointer
    static const uint8_t nothing[1] = {0};
    const uint8_t* base = b.empty() ? nothing : b.data();
    std::string id = out.add(kind, payload);
    size_t off = 0;
    for (size_t k = 0; k <= cuts.size(); k++) {
        size_t n = k < cuts.size() ? std::min(cuts[k], b.size() - off) : b.size() - off;
        if (kind == "crc") c = (uint32_t)crc32(c, base + off, (uInt)n);
        else c = checksum32(c, base + off, n);
        off += n;
    }
    out.I(id, hex8(c));
    out.count(kind + ":len<" + (b.size() < 256 ? "256" : b.size() < 32768 ? "32K" : b.size() < 65536 ? "64K" : "more"));
    // property level, implementation only: one call over the whole string gives the same value (chunking), and from the
    // standard start value the result is the bit-at-a-time CRC / the plain byte sum
    uint32_t whole = kind == "crc" ? (uint32_t)crc32(c0, base, (uInt)b.size()) : checksum32(c0, base, b.size());
    std::string verdict = "ok";
    if (crc32(0, NULL, 0) != 0) verdict = "FAIL crc:init crc32(0, NULL, 0) is not 0";
    else if (whole != c) verdict = "FAIL " + kind + ":chunking chunked " + hex8(c) + " whole " + hex8(whole);
    else if (c0 == 0 && c != (kind == "crc" ? ref_crc(b.data(), b.size()) : ref_sum(b.data(), b.size())))
        verdict = "FAIL " + kind + ":reference differs from the reference computation";
    out.P(id, verdict);
}

static void run_val(Out& out, const std::string& payload) {
    std::vector<uint8_t> b = unhex(payload_hex(payload));
    std::string cls = first_word(payload);
    std::string id = out.add("val", payload);
    std::string path = g_outdir + "/v.oas";
    spit(path, b.data(), b.size());
    std::string res = in_child([&](FILE* o) {
        silence();
        fputs(validate_text(path).c_str(), o);
    }, 60);
    bool leak = strip_fd(res);
    out.I(id, res);
    out.count("val:" + cls);
    out.count(std::string("val:len<") + (b.size() < 19 ? "19" : b.size() < 32768 + 4 ? "32K" : b.size() < 65536 + 4 ? "64K" : "more"));
    std::string verdict = "ok";
    if (res.compare(0, 5, "CRASH") == 0 || res == "HANG") verdict = "FAIL oas_validate:crash oas_validate " + res + " on a file of " + std::to_string(b.size()) + " bytes";
    else if (leak) verdict = "FAIL oas_validate:fd-leak descriptor left open";
    else if (cls == "full1" || cls == "full2") {
        // complete signed file: validates, and the signature handed back is the one stored in the last four bytes
        uint32_t stored = b.size() >= 4 ? (uint32_t)b[b.size() - 4] | (uint32_t)b[b.size() - 3] << 8 | (uint32_t)b[b.size() - 2] << 16 | (uint32_t)b[b.size() - 1] << 24 : 0;
        uint32_t ref = b.size() >= 4 ? (cls == "full1" ? ref_crc(b.data(), b.size() - 4) : ref_sum(b.data(), b.size() - 4)) : 0;
        if (!is_match(res)) verdict = "FAIL oas_validate:complete-file complete signed file does not validate: " + res;
        else if (res.find("sig=" + hex8(stored)) == std::string::npos) verdict = "FAIL oas_validate:complete-file returned signature is not the stored one: " + res;
        else if (stored != ref) verdict = "FAIL write_oas:signature stored signature " + hex8(stored) + " is not the " + (cls == "full1" ? "CRC32" : "CHECKSUM32") + " of the preceding bytes " + hex8(ref);
    } else if (cls == "full0") {
        if (res != "ret=1 sig=00000000 err=ChecksumError null=1") verdict = "FAIL oas_validate:unsigned-file unsigned file: " + res;
    } else if (cls == "cut1" || cls == "cut2") {
        if (is_match(res)) verdict = "FAIL oas_validate:truncated-valid matching signature reported for a proper prefix (" + std::to_string(b.size()) + " bytes) of a signed file";
    } else if (cls == "mut1" || cls == "mut2") {
        if (is_match(res)) verdict = "FAIL oas_validate:mutated-valid matching signature reported for a signed file with one byte replaced";
    } else if (cls == "emb1" || cls == "emb2") {
        if (is_match(res)) verdict = "FAIL oas_validate:embedded-signature a proper prefix (" + std::to_string(b.size()) + " bytes) of a signed file written by write_oas reports a matching signature: the file holds a property value made of a scheme byte and the signature of the bytes before it";
    }
    out.P(id, verdict);
}

static void run_cuts(Out& out, const std::string& payload) {
    std::vector<uint8_t> b = unhex(payload_hex(payload));
    std::string cls = first_word(payload);
    std::string id = out.add("cuts", payload);
    std::vector<size_t> cl;
    for (size_t n = 0; n <= b.size(); n++) cl.push_back(n);
    bool leak = false;
    std::vector<std::string> st = sweep(b, cl, leak);
    out.I(id, rle(st));
    out.count("cuts:files:" + cls);
    out.count("cuts:cuts", (long)st.size());
    std::string verdict = "ok";
    bool is_signed = cls == "s1" || cls == "s2";
    for (size_t n = 0; n < st.size() && verdict == "ok"; n++) {
        if (st[n] == "crash" || st[n] == "hang") verdict = "FAIL oas_validate:crash oas_validate " + st[n] + " on the first " + std::to_string(n) + " bytes";
        else if (is_signed && n < b.size() && is_match(st[n])) verdict = "FAIL oas_validate:truncated-valid matching signature reported for the first " + std::to_string(n) + " of " + std::to_string(b.size()) + " bytes";
        else if (is_match(st[n])) out.count("cuts:match");
        else if (st[n].find("err=ChecksumError") != std::string::npos) out.count("cuts:no-checksum");
        else if (st[n].find("err=InvalidFile") != std::string::npos) out.count("cuts:invalid");
        else out.count("cuts:mismatch");
    }
    if (verdict == "ok" && leak) verdict = "FAIL oas_validate:fd-leak descriptor left open";
    if (verdict == "ok" && is_signed && !is_match(st.back())) verdict = "FAIL oas_validate:complete-file complete signed file does not validate: " + st.back();
    out.P(id, verdict);
}

static void run_end(Out& out, const std::string& payload) {
    unsigned scheme = 0;
    unsigned long long endpos = 0;
    if (sscanf(payload.c_str(), "%u %llu", &scheme, &endpos) != 2) return;
    std::vector<uint8_t> b = unhex(payload_hex(payload));
    if (endpos > b.size()) return;
    std::string id = out.add("end", payload);
    out.I(id, hex_bytes(b.data() + endpos, b.size() - (size_t)endpos));
    out.count("end:scheme" + std::to_string(scheme));
    std::string verdict = "ok";
    if (b.size() - endpos != 256) verdict = "FAIL write_oas:end-length END record has " + std::to_string(b.size() - endpos) + " bytes";
    out.P(id, verdict);
}

// ---------------------------------------------------------------- libraries
static unsigned scheme_of_flags(unsigned flags) {
    return (flags & OASIS_CONFIG_INCLUDE_CRC32) ? 1 : (flags & OASIS_CONFIG_INCLUDE_CHECKSUM32) ? 2 : 0;
}

// a small random library (generator of oas_layout.hpp) saved by the real writer; `blob` > 0 adds a library property
// with a string value of that many bytes (pads the file beyond the 32 KiB / 64 KiB buffer boundaries)
static std::vector<uint8_t> gdstk_file(uint64_t ls, unsigned flags, unsigned level, size_t blob, int many_polys = 0) {
    std::string res = in_child([&](FILE* o) {
        silence();
        Rng lg(ls);
        Gen gen(lg, false);
        ALib L = gen.layout();
        if (blob) {
            AProp p;
            p.name = "BLOB";
            APV v;
            v.t = 3;
            v.s.resize(blob);
            for (size_t i = 0; i < blob; i++) v.s[i] = (char)(lg.chance(20) ? lg.below(3) : lg.below(256));
            p.v = {v};
            L.props.push_back(p);
        }
        for (int k = 0; k < many_polys && !L.cells.empty(); k++) {
            APoly p;
            p.layer = (uint32_t)lg.below(8);
            p.type = (uint32_t)lg.below(4);
            int64_t x = lg.range(-100000, 100000), y = lg.range(-100000, 100000), w = lg.range(1, 500), h = lg.range(1, 500);
            p.pts = {{x, y}, {x + w, y}, {x + w, y + h}, {x + lg.range(0, w), y + h + lg.range(1, 50)}, {x, y + h}};
            p.shape = "bulk";
            L.cells[0].polys.push_back(p);
        }
        Built b;
        build_library(L, b);
        std::string f = g_outdir + "/w.oas";
        unlink(f.c_str());
        b.lib.write_oas(f.c_str(), 0.0, (uint8_t)level, (uint16_t)flags);
        std::vector<uint8_t> file = slurp(f);
        fputs(hex_bytes(file.data(), file.size()).c_str(), o);
    }, 60);
    if (res.compare(0, 5, "CRASH") == 0 || res == "HANG" || res == "PIPEFAIL") return {};
    return unhex(res);
}

// a library with one property whose five-byte string value is a scheme byte and the signature of all file bytes up to
// and including that byte: the file cut right behind the value validates (truncation_refuted_writer in OasisSigProofs.v)
static std::vector<uint8_t> embedded_file(unsigned scheme, std::string value, size_t* value_end) {
    std::string res = in_child([&](FILE* o) {
        silence();
        Library lib = {};
        lib.init("LIB", 1e-6, 1e-9);
        set_property(lib.properties, "P", (const uint8_t*)value.data(), value.size(), true);
        std::string f = g_outdir + "/e.oas";
        unlink(f.c_str());
        lib.write_oas(f.c_str(), 0.0, 0, (uint16_t)(scheme == 1 ? OASIS_CONFIG_INCLUDE_CRC32 : OASIS_CONFIG_INCLUDE_CHECKSUM32));
        std::vector<uint8_t> file = slurp(f);
        fputs(hex_bytes(file.data(), file.size()).c_str(), o);
    }, 30);
    if (res.compare(0, 5, "CRASH") == 0 || res == "HANG") return {};
    std::vector<uint8_t> f = unhex(res);
    // the value follows the PROPSTRING record byte (9) and its length (5)
    *value_end = 0;
    for (size_t i = 0; i + 7 <= f.size(); i++)
        if (f[i] == 9 && f[i + 1] == 5 && memcmp(f.data() + i + 2, value.data(), 5) == 0) { *value_end = i + 7; break; }
    return f;
}

// ---------------------------------------------------------------- wsig: the library text of harness/c04w.cpp
static std::string hexstr(const std::string& s) {
    if (s.empty()) return "-";
    return hex_bytes((const uint8_t*)s.data(), s.size());
}
struct Ser {
    std::string s;
    void w(const std::string& t) {
        if (!s.empty()) s += ' ';
        s += t;
    }
    void u(uint64_t v) { w(hex_u64(v)); }
    void i(int64_t v) { w(hex_i64(v)); }
    void props(const AProps& ps) {
        u(ps.size());
        for (auto& p : ps) {
            w(hexstr(p.name));
            u(p.v.size());
            for (auto& v : p.v) {
                switch (v.t) {
                    case 0: w("U"); u(v.u); break;
                    case 1: w("I"); i(v.i); break;
                    case 2: w("R"); w(hex_dbl(v.r)); break;
                    default: w("S"); w(hexstr(v.s));
                }
            }
        }
    }
    void rep(const ARep& r) {
        switch (r.kind) {
            case 1: w("R"); u(r.cols); u(r.rows); i(r.sx); i(r.sy); break;
            case 2: w("G"); u(r.cols); u(r.rows); i(r.v1x); i(r.v1y); i(r.v2x); i(r.v2y); break;
            case 3: w("E"); u(r.offs.size()); for (auto& o : r.offs) { i(o.first); i(o.second); } break;
            case 4: w("X"); u(r.coords.size()); for (auto c : r.coords) i(c); break;
            case 5: w("Y"); u(r.coords.size()); for (auto c : r.coords) i(c); break;
            default: w("N");
        }
    }
    void pts(const std::vector<P2>& p) {
        u(p.size());
        for (auto& q : p) { i(q.first); i(q.second); }
    }
};
static std::string serialise(const ALib& L, bool crc, bool sum, bool cell_offset) {
    Ser o;
    o.u(crc ? 1 : 0);
    o.u(sum ? 1 : 0);
    o.u(cell_offset ? 1 : 0);
    o.w(hex_dbl(1e-6 / L.precision));
    o.props(L.props);
    o.u(L.cells.size());
    for (auto& c : L.cells) {
        o.w(hexstr(c.name));
        o.u(c.polys.size());
        for (auto& p : c.polys) { o.u(p.layer); o.u(p.type); o.pts(p.pts); o.rep(p.rep); o.props(p.props); }
        o.u(c.paths.size());
        for (auto& p : c.paths) {
            o.u(p.els.size());
            for (auto& e : p.els) {
                o.u(e.layer); o.u(e.type); o.u((uint64_t)(e.width / 2));
                if (e.end == 0) o.w("F");
                else if (e.end == 2) o.w("H");
                else { o.w("E"); o.i(e.e0); o.i(e.e1); }
            }
            o.pts(p.pts); o.rep(p.rep); o.props(p.props);
        }
        o.u(c.refs.size());
        for (auto& r : c.refs) {
            o.w(hexstr(r.target)); o.i(r.x); o.i(r.y);
            o.w(hex_dbl(r.mag));
            double rot = r.radians();
            o.w(hex_dbl(rot));
            int64_t m = 0;
            if (is_multiple_of_pi_over_2(rot, m)) o.i(m); else o.w("-");
            o.u(r.refl ? 1 : 0);
            o.rep(r.rep); o.props(r.props);
        }
        o.u(c.labels.size());
        for (auto& t : c.labels) { o.w(hexstr(t.text)); o.u(t.layer); o.u(t.type); o.i(t.x); o.i(t.y); o.rep(t.rep); o.props(t.props); }
        o.props(c.props);
    }
    return o.s;
}
template <class T>
static auto clear_outline(T& p, int) -> decltype(p.outline, void()) { p.outline = false; }
template <class T>
static void clear_outline(T&, long) {}
// the subset of the writer model (as harness/c04w.cpp restricts it, without its extra input classes)
static void restrict_layout(ALib& L, Rng& g) {
    for (auto& c : L.cells) {
        for (auto& p : c.polys) {
            if (p.circle) {
                p.circle = false;
                p.pts = {{p.cx, p.cy}, {p.cx + p.cr, p.cy}, {p.cx, p.cy + p.cr}};
                p.shape = "triangle";
            }
        }
        for (auto& p : c.paths) {
            p.robust = false;
            clear_outline(p, 0);
            for (auto& e : p.els) e.width &= ~(int64_t)1;
        }
    }
    if (g.chance(4)) L.cells.clear();
}
static void run_wsig(Out& out, uint64_t ls, unsigned variant) {
    Rng lg(ls);
    Gen gen(lg, false);
    ALib L = gen.layout();
    restrict_layout(L, lg);
    bool cell_offset = variant & 1, crc = variant & 2, sum = variant & 4;
    char head[64];
    snprintf(head, sizeof head, "%llu %u | ", (unsigned long long)ls, variant);
    std::string id = out.add("wsig", head + serialise(L, crc, sum, cell_offset));
    out.count(std::string("wsig:") + (crc ? "crc" : "") + (sum ? "sum" : "") + (!crc && !sum ? "none" : ""));
    std::string res = in_child([&](FILE* o) {
        silence();
        Built b;
        build_library(L, b);
        for (uint64_t ci = 0; ci < b.lib.cell_array.count; ci++) {
            Cell* c = b.lib.cell_array[ci];
            for (uint64_t k = 0; k < c->flexpath_array.count; k++) c->flexpath_array[k]->simple_path = true;
            if (c->robustpath_array.count > 0) { fputs("UNSUPPORTED-robustpath", o); return; }
        }
        std::string f = g_outdir + "/ws.oas";
        unlink(f.c_str());
        unsigned flags = (cell_offset ? OASIS_CONFIG_PROPERTY_CELL_OFFSET : 0) | (crc ? OASIS_CONFIG_INCLUDE_CRC32 : 0) | (sum ? OASIS_CONFIG_INCLUDE_CHECKSUM32 : 0);
        b.lib.write_oas(f.c_str(), 0.0, 0, (uint16_t)flags);
        std::vector<uint8_t> file = slurp(f);
        fputs(hex_bytes(file.data(), file.size()).c_str(), o);
    }, 30);
    out.I(id, res);
}

// ---------------------------------------------------------------- dispatch
static bool kind_wanted(const std::string& kind) {
    static int init = 0;
    static std::vector<std::string> want;
    if (!init) {
        init = 1;
        if (const char* k = getenv("VERIF_KINDS")) {
            std::string s(k);
            size_t p = 0;
            while (p <= s.size()) {
                size_t e = s.find(',', p);
                if (e == std::string::npos) e = s.size();
                if (e > p) want.push_back(s.substr(p, e - p));
                p = e + 1;
            }
        }
    }
    return want.empty() || std::find(want.begin(), want.end(), kind) != want.end();
}
static void run_case(Out& out, const std::string& kind, const std::string& payload) {
    if (!kind_wanted(kind)) return;
    if (kind == "crc" || kind == "sum") run_crc(out, kind, payload);
    else if (kind == "val") run_val(out, payload);
    else if (kind == "cuts") run_cuts(out, payload);
    else if (kind == "end") run_end(out, payload);
    else if (kind == "wsig") {
        unsigned long long ls = 0;
        unsigned variant = 0;
        if (sscanf(payload.c_str(), "%llu %u", &ls, &variant) == 2) run_wsig(out, ls, variant);
    }
}
static std::string xhex(const std::vector<uint8_t>& b) { return b.empty() ? std::string("x-") : "x" + hex_bytes(b.data(), b.size()); }
static void emit_val(Out& out, const std::string& cls, const std::vector<uint8_t>& b) { run_case(out, "val", cls + " " + xhex(b)); }

static void put_le32(std::vector<uint8_t>& b, uint32_t v) {
    for (int k = 0; k < 4; k++) b.push_back((uint8_t)(v >> (8 * k)));
}

// END offsets from the record scan: file offset of the first record of each name table, 0 when there is none
static void emit_end(Out& out, const std::vector<uint8_t>& file, unsigned scheme) {
    oscan::Scan sc = oscan::scan_file(file);
    if (!sc.ok) { out.count("end:scan-failed"); return; }
    uint64_t off[4] = {0, 0, 0, 0};
    bool seen[4] = {false, false, false, false};
    size_t endpos = 0;
    for (auto& r : sc.records) {
        if (r.file_offset == (size_t)-1) continue;
        int t = (r.id == 3 || r.id == 4) ? 0 : (r.id == 5 || r.id == 6) ? 1 : (r.id == 7 || r.id == 8) ? 2 : (r.id == 9 || r.id == 10) ? 3 : -1;
        if (t >= 0 && !seen[t]) { seen[t] = true; off[t] = r.file_offset; }
        if (r.id == 2) endpos = r.file_offset;
    }
    if (endpos == 0) { out.count("end:no-end"); return; }
    char head[200];
    snprintf(head, sizeof head, "%u %zu %llx %llx %llx %llx ", scheme, endpos, (unsigned long long)off[0], (unsigned long long)off[1],
             (unsigned long long)off[2], (unsigned long long)off[3]);
    run_case(out, "end", head + xhex(file));
}

int main(int argc, char** argv) {
    if (argc < 4) {
        fprintf(stderr, "usage: oas_sig seed tier outdir [corpus] [replay]\n");
        return 2;
    }
    uint64_t seed = strtoull(argv[1], NULL, 10);
    bool thorough = strcmp(argv[2], "thorough") == 0;
    g_outdir = argv[3];
    set_error_logger(NULL);
    Out out;
    out.open(argv[3]);
    if (argc > 5) {
        std::string k, p;
        if (load_replay(argv[5], k, p)) run_case(out, k, p);
        out.close();
        return 0;
    }
    for (auto& c : load_corpus(argc > 4 ? argv[4] : NULL))
        if (c.first == "crc" || c.first == "sum" || c.first == "val" || c.first == "cuts" || c.first == "end" || c.first == "wsig")
            run_case(out, c.first, c.second);
    Rng g(seed * 0x100000001B3ULL + 12345);

    // ---- (a) the two checksums
    {
        static const size_t lens[] = {0, 1, 2, 5, 255, 256, 257, 4095, 32767, 32768, 32769, 65535, 65536, 65537, 98303, 98304, 98305};
        long extra = thorough ? 600 : 40;
        std::vector<size_t> all(lens, lens + sizeof lens / sizeof lens[0]);
        for (long i = 0; i < extra; i++) all.push_back((size_t)(g.chance(85) ? g.below(3000) : g.below(140000)));
        for (const char* kind : {"crc", "sum"}) {
            for (size_t idx = 0; idx < all.size(); idx++) {
                size_t n = all[idx];
                int reps = idx < sizeof lens / sizeof lens[0] ? (thorough ? 4 : n < 40000 ? 2 : 1) : 1;
                for (int rp = 0; rp < reps; rp++) {
                    std::vector<uint8_t> b(n);
                    int fill = (int)g.below(6);
                    for (auto& x : b) x = fill == 0 ? 0xff : fill == 1 ? 0 : (uint8_t)g.below(256);
                    uint32_t init = g.chance(50) ? 0 : g.chance(30) ? 0xffffffffu : (uint32_t)g.next();
                    std::string cuts;
                    int nc = (int)g.below(5);
                    if (rp == 0 && reps > 1) nc = 0;
                    size_t left = n;
                    for (int k = 0; k < nc; k++) {
                        size_t c = g.chance(15) ? 0 : g.chance(30) && left >= 32768 ? 32768 : (size_t)g.below(left + 1);
                        left -= c;
                        cuts += (cuts.empty() ? "" : ",") + std::to_string(c);
                    }
                    if (cuts.empty()) cuts = "-";
                    run_case(out, kind, hex_u64(init) + " " + cuts + " " + (b.empty() ? std::string("-") : hex_bytes(b.data(), b.size())));
                }
            }
        }
    }

    // ---- (b) hand-built files: lengths 0 .. 40, header right / wrong, every scheme byte, right and wrong signatures
    static const uint8_t header[14] = {'%', 'S', 'E', 'M', 'I', '-', 'O', 'A', 'S', 'I', 'S', '\r', '\n', 1};
    {
        for (size_t n = 0; n <= 24; n++) {
            std::vector<uint8_t> b;
            for (size_t i = 0; i < n; i++) b.push_back(i < 14 ? header[i] : (uint8_t)g.below(256));
            emit_val(out, "raw", b);                                   // a prefix of the header, then random bytes
            if (n > 0) {
                std::vector<uint8_t> c = b;
                c[g.below(std::min(n, (size_t)14))] ^= (uint8_t)(1u << g.below(8));
                emit_val(out, "raw", c);                               // one bit of the header wrong
            }
        }
        long nraw = thorough ? 3000 : 300;
        for (long i = 0; i < nraw; i++) {
            size_t body = (size_t)g.below(40);                          // bytes between the header and the scheme byte
            std::vector<uint8_t> b(header, header + 14);
            if (g.chance(10)) b.resize((size_t)g.below(14));          // short header
            for (size_t k = 0; k < body; k++) b.push_back((uint8_t)(g.chance(30) ? g.below(3) : g.below(256)));
            unsigned scheme = (unsigned)(g.chance(40) ? 1 : g.chance(60) ? 2 : g.chance(50) ? 0 : g.below(256));
            b.push_back((uint8_t)scheme);
            uint32_t sig = scheme == 1 ? ref_crc(b.data(), b.size()) : scheme == 2 ? ref_sum(b.data(), b.size()) : (uint32_t)g.next();
            int how = (int)g.below(10);
            if (how == 0) sig ^= 1u << g.below(32);                    // one bit off
            else if (how == 1) sig = __builtin_bswap32(sig);           // big endian
            else if (how == 2) sig = scheme == 1 ? ref_sum(b.data(), b.size()) : ref_crc(b.data(), b.size());  // the other scheme
            else if (how == 3 && b.size() > 1) sig = scheme == 1 ? ref_crc(b.data(), b.size() - 1) : ref_sum(b.data(), b.size() - 1);  // without the scheme byte
            put_le32(b, sig);
            if (g.chance(5)) b.resize(b.size() - 1 - g.below(4));      // signature cut short
            emit_val(out, "raw", b);
        }
        // exact sizes around the buffer: size = file length - 4 in {k * 32768 - 1, k * 32768, k * 32768 + 1}
        int reps = thorough ? 3 : 1;
        for (int rp = 0; rp < reps; rp++)
            for (size_t k = 1; k <= 3; k++)
                for (int d = -1; d <= 1; d++)
                    for (unsigned scheme = 1; scheme <= 2; scheme++) {
                        size_t size = k * 32768 + d;
                        std::vector<uint8_t> b(header, header + 14);
                        while (b.size() + 1 < size) b.push_back((uint8_t)g.below(256));
                        b.push_back((uint8_t)scheme);
                        uint32_t sig = scheme == 1 ? ref_crc(b.data(), b.size()) : ref_sum(b.data(), b.size());
                        if (g.chance(25)) sig += 1;
                        else if (g.chance(15)) b[14 + g.below(size - 15)] ^= 0x10;  // damage anywhere, first and last block included
                        put_le32(b, sig);
                        emit_val(out, "raw", b);
                    }
    }

    // ---- (c) files written by write_oas
    {
        long nlib = thorough ? 400 : 40;
        long ncuts = thorough ? 60 : 8;
        for (long i = 0; i < nlib; i++) {
            unsigned sel = (unsigned)(i % 4);   // CRC32, CHECKSUM32, both (CRC32 wins), none
            unsigned flags = (sel == 0 ? OASIS_CONFIG_INCLUDE_CRC32 : sel == 1 ? OASIS_CONFIG_INCLUDE_CHECKSUM32 : sel == 2 ? (OASIS_CONFIG_INCLUDE_CRC32 | OASIS_CONFIG_INCLUDE_CHECKSUM32) : 0);
            if (g.chance(50)) flags |= (unsigned)g.below(64);           // standard properties, detection
            unsigned level = g.chance(60) ? 0 : (unsigned)g.range(1, 9);
            std::vector<uint8_t> f = gdstk_file(g.next() >> 1, flags, level, 0);
            if (f.empty()) { out.count("lib:write-failed"); continue; }
            unsigned scheme = scheme_of_flags(flags);
            std::string fc = "full" + std::to_string(scheme), cc = "cut" + std::to_string(scheme), mc = "mut" + std::to_string(scheme);
            emit_val(out, fc, f);
            emit_end(out, f, scheme);
            if (i < ncuts || f.size() < 420) run_case(out, "cuts", "s" + std::to_string(scheme) + " " + xhex(f));
            if (scheme != 0) {
                // a few cuts: in the records, in END's padding, in the signature
                size_t cutsel[] = {(size_t)g.below(f.size()), f.size() - 1, f.size() - 4, f.size() - 5, f.size() - 6, f.size() - 1 - (size_t)g.below(250)};
                for (size_t c : cutsel) emit_val(out, cc, std::vector<uint8_t>(f.begin(), f.begin() + c));
                // one byte replaced: anywhere, in the padding, the scheme byte, the signature
                for (int m = 0; m < 4; m++) {
                    std::vector<uint8_t> h = f;
                    size_t at = m == 0 ? (size_t)g.below(f.size() - 5) : m == 1 ? f.size() - 6 - (size_t)g.below(150) : m == 2 ? f.size() - 5 : f.size() - 1 - (size_t)g.below(4);
                    uint8_t nv = m == 2 ? (uint8_t)(g.chance(50) ? 3 - h[at] : g.below(256)) : (uint8_t)(h[at] ^ (1u << g.below(8)));
                    if (nv == h[at]) nv ^= 0x40;
                    h[at] = nv;
                    emit_val(out, mc, h);
                }
            }
        }
        // files beyond 32 KiB and 64 KiB: a long property string, or many polygons; plain and deflated
        long nbig = thorough ? 24 : 6;
        for (long i = 0; i < nbig; i++) {
            unsigned scheme = 1 + (unsigned)(i % 2);
            unsigned flags = scheme == 1 ? OASIS_CONFIG_INCLUDE_CRC32 : OASIS_CONFIG_INCLUDE_CHECKSUM32;
            size_t target = (i / 2) % 3 == 0 ? 33000 : (i / 2) % 3 == 1 ? 66000 : 100000;
            bool by_polys = (i % 6) >= 4 || g.chance(25);
            unsigned level = g.chance(70) ? 0 : 6;
            std::vector<uint8_t> f = by_polys ? gdstk_file(g.next() >> 1, flags, level, 0, (int)(target / 22))
                                              : gdstk_file(g.next() >> 1, flags, level, target + (size_t)g.below(200), 0);
            if (f.empty()) { out.count("lib:write-failed"); continue; }
            out.count(f.size() > 65540 ? "big:over64K" : f.size() > 32772 ? "big:over32K" : "big:below32K");
            emit_val(out, "full" + std::to_string(scheme), f);
            emit_end(out, f, scheme);
            std::string cc = "cut" + std::to_string(scheme);
            size_t cutsel[] = {32768, 32768 + 4, 32768 + 5, f.size() - 1, f.size() - 100, (size_t)g.below(f.size())};
            for (size_t c : cutsel)
                if (c < f.size()) emit_val(out, cc, std::vector<uint8_t>(f.begin(), f.begin() + c));
            std::vector<uint8_t> h = f;
            h[g.chance(50) ? (size_t)g.below(32768) : (size_t)g.below(f.size() - 5)] ^= 0x04;
            emit_val(out, "mut" + std::to_string(scheme), h);
        }
        // the constructed counterexample to "a proper prefix never validates": a property value that is a scheme byte and
        // the signature of the file up to it (first pass with a placeholder finds the position; the bytes before the value
        // do not depend on the value)
        for (unsigned scheme = 1; scheme <= 2; scheme++) {
            size_t ve = 0;
            std::string v0(5, '\0');
            v0[0] = (char)scheme;
            v0[1] = 'x';
            std::vector<uint8_t> f0 = embedded_file(scheme, v0, &ve);
            if (f0.empty() || ve < 7) { out.count("emb:setup-failed"); continue; }
            uint32_t sig = scheme == 1 ? ref_crc(f0.data(), ve - 4) : ref_sum(f0.data(), ve - 4);
            std::string v(5, '\0');
            v[0] = (char)scheme;
            for (int k = 0; k < 4; k++) v[1 + k] = (char)(sig >> (8 * k));
            size_t ve2 = 0;
            std::vector<uint8_t> f = embedded_file(scheme, v, &ve2);
            if (f.empty() || ve2 != ve) { out.count("emb:setup-failed"); continue; }
            emit_val(out, "full" + std::to_string(scheme), f);
            emit_val(out, "emb" + std::to_string(scheme), std::vector<uint8_t>(f.begin(), f.begin() + ve));
        }
    }

    // ---- (d) the writer model with a signature request, byte for byte
    {
        long nw = thorough ? 2400 : 120;
        for (long i = 0; i < nw; i++) {
            unsigned variant = (unsigned)(i % 8);
            run_case(out, "wsig", std::to_string(g.next() >> 1) + " " + std::to_string(variant));
        }
    }
    out.close();
    return 0;
}
