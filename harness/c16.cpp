// C16 harness: random histories of library edits (rename / replace / remap / copy / add / remove)
// on real gdstk Library, Cell, RawCell objects; after every operation the whole object graph and
// every query result is dumped as canonical text.  The model driver (ocaml/c16_driver.ml) replays
// the same operation list on the extracted Gallina model and prints the same text.
//
// Identities: every Cell / RawCell gets the index of its creation (pointer -> id tables below);
// nothing is freed before the end of a history, so pointer equality is id equality.
// Names: the model name n (an integer) is the C string "N<hex n>".
//
// Property-level oracles (P lines), all computed from the real objects only: `oracle` (histories inside the proved
// contract), `deviations` (the recorded refuted clauses R1-R8, one stable key each) and, on the initial library and after
// every operation, `top_level_deviations` / `dependency_deviations`: top_level and the six dependency queries of every
// member against sets recomputed from the pointer graph by the harness' own traversal (keys top_level:wrong-set,
// dependencies:wrong-set unless the difference is exactly one of the recorded causes).
#include <algorithm>
#include <set>
#include <sys/resource.h>
#include <gdstk/gdstk.hpp>
#include "common.hpp"

using namespace gdstk;

static std::string g_outdir;

struct World {
    std::vector<Cell*> cells;
    std::map<const Cell*, int> cid;
    std::vector<RawCell*> raws;
    std::map<const RawCell*, int> rid;
    Library* lib = NULL;
    std::vector<Library*> libs;
};

static std::string nm(uint64_t n) { return "N" + hex_u64(n); }
static std::string nm_hex(const char* s) { return std::string(s && s[0] == 'N' ? s + 1 : "?"); }
static std::string hx(uint64_t v) { return hex_u64(v); }

static std::vector<std::string> split(const std::string& s, char sep) {
    std::vector<std::string> v;
    std::string cur;
    for (char c : s) {
        if (c == sep) {
            v.push_back(cur);
            cur.clear();
        } else
            cur += c;
    }
    v.push_back(cur);
    return v;
}
static std::vector<std::string> list_of(const std::string& s) {
    if (s == "-" || s.empty()) return {};
    return split(s, ',');
}
static std::vector<std::string> words(const std::string& s) {
    std::vector<std::string> v;
    for (auto& w : split(s, ' '))
        if (!w.empty()) v.push_back(w);
    return v;
}
static std::string join(const std::vector<std::string>& v) {
    std::string s;
    for (size_t i = 0; i < v.size(); i++) {
        if (i) s += ",";
        s += v[i];
    }
    return s;
}
static Tag parse_tag(const std::string& s) {
    auto p = split(s, ':');
    return make_tag((uint32_t)strtoul(p[0].c_str(), NULL, 16), (uint32_t)strtoul(p[1].c_str(), NULL, 16));
}
static std::string stag(Tag t) { return hx(get_layer(t)) + ":" + hx(get_type(t)); }
static uint64_t unhexn(const std::string& s) { return strtoull(s.c_str(), NULL, 16); }

// ---------------------------------------------------------------------------------------------
// object construction

static Polygon* mk_polygon(Tag t) {
    Polygon* p = (Polygon*)allocate_clear(sizeof(Polygon));
    p->tag = t;
    p->point_array.append(Vec2{0, 0});
    p->point_array.append(Vec2{1, 0});
    p->point_array.append(Vec2{0, 1});
    return p;
}

// the list of shape tags is split as: first ceil(k/2) polygons, of the rest r the first
// ceil(r/2) are the elements of one FlexPath, the others the elements of one RobustPath
// (Cell::get_shape_tags / remap_tags visit them in this order)
static void add_shapes(Cell* c, const std::vector<Tag>& tags) {
    size_t k = tags.size(), np = (k + 1) / 2, r = k - np, nf = (r + 1) / 2, nb = r - nf;
    for (size_t i = 0; i < np; i++) c->polygon_array.append(mk_polygon(tags[i]));
    if (nf) {
        FlexPath* fp = (FlexPath*)allocate_clear(sizeof(FlexPath));
        std::vector<double> w(nf, 1.0), o(nf, 0.0);
        fp->init(Vec2{0, 0}, nf, w.data(), o.data(), 0.01, tags.data() + np);
        c->flexpath_array.append(fp);
    }
    if (nb) {
        RobustPath* rp = (RobustPath*)allocate_clear(sizeof(RobustPath));
        std::vector<double> w(nb, 1.0), o(nb, 0.0);
        rp->init(Vec2{0, 0}, nb, w.data(), o.data(), 0.01, 1000, tags.data() + np + nf);
        c->robustpath_array.append(rp);
    }
}

static int reg_cell(World& w, Cell* c) {
    int id = (int)w.cells.size();
    w.cells.push_back(c);
    w.cid[c] = id;
    return id;
}
static int reg_raw(World& w, RawCell* r) {
    int id = (int)w.raws.size();
    w.raws.push_back(r);
    w.rid[r] = id;
    return id;
}

static Reference* mk_ref(World& w, const std::string& t) {
    Reference* r = (Reference*)allocate_clear(sizeof(Reference));
    uint64_t v = unhexn(t.substr(1));
    if (t[0] == 'c')
        r->init(w.cells[v]);
    else if (t[0] == 'r')
        r->init(w.raws[v]);
    else
        r->init(nm(v).c_str());
    return r;
}

static void free_world(World& w) {
    for (Library* l : w.libs) {
        l->clear();
        free_allocation(l);
    }
    for (Cell* c : w.cells) {
        c->free_all();
        free_allocation(c);
    }
    for (RawCell* r : w.raws) {
        r->clear();
        free_allocation(r);
    }
}

// ---------------------------------------------------------------------------------------------
// executing one operation given as text (same grammar as the model driver)

static void exec_op(World& w, const std::string& text) {
    std::vector<std::string> t = words(text);
    const std::string& k = t[0];
    Library* lib = w.lib;
    if (k == "nc") {
        Cell* c = (Cell*)allocate_clear(sizeof(Cell));
        c->name = copy_string(nm(unhexn(t[1])).c_str(), NULL);
        for (auto& r : list_of(t[2])) c->reference_array.append(mk_ref(w, r));
        std::vector<Tag> pt;
        for (auto& s : list_of(t[3])) pt.push_back(parse_tag(s));
        add_shapes(c, pt);
        for (auto& s : list_of(t[4])) {
            Label* l = (Label*)allocate_clear(sizeof(Label));
            l->init("x");
            l->tag = parse_tag(s);
            l->magnification = 1;
            c->label_array.append(l);
        }
        reg_cell(w, c);
    } else if (k == "nr") {
        RawCell* r = (RawCell*)allocate_clear(sizeof(RawCell));
        r->name = copy_string(nm(unhexn(t[1])).c_str(), NULL);
        for (auto& d : list_of(t[2])) r->dependencies.append(w.raws[unhexn(d)]);
        reg_raw(w, r);
    } else if (k == "cp") {
        Cell* c = (Cell*)allocate_clear(sizeof(Cell));
        std::string nn = t[2] == "-" ? "" : nm(unhexn(t[2]));
        c->copy_from(*w.cells[unhexn(t[1])], t[2] == "-" ? NULL : nn.c_str(), true);
        reg_cell(w, c);
    } else if (k == "ac") {
        lib->cell_array.append(w.cells[unhexn(t[1])]);
    } else if (k == "ar") {
        lib->rawcell_array.append(w.raws[unhexn(t[1])]);
    } else if (k == "rmc") {
        lib->cell_array.remove_item(w.cells[unhexn(t[1])]);
    } else if (k == "rmr") {
        lib->rawcell_array.remove_item(w.raws[unhexn(t[1])]);
    } else if (k == "rnp") {
        lib->rename_cell(w.cells[unhexn(t[1])], nm(unhexn(t[2])).c_str());
    } else if (k == "rnn") {
        lib->rename_cell(nm(unhexn(t[1])).c_str(), nm(unhexn(t[2])).c_str());
    } else if (k == "cc") {
        lib->replace_cell(w.cells[unhexn(t[1])], w.cells[unhexn(t[2])]);
    } else if (k == "rc") {
        lib->replace_cell(w.raws[unhexn(t[1])], w.cells[unhexn(t[2])]);
    } else if (k == "cr") {
        lib->replace_cell(w.cells[unhexn(t[1])], w.raws[unhexn(t[2])]);
    } else if (k == "rr") {
        lib->replace_cell(w.raws[unhexn(t[1])], w.raws[unhexn(t[2])]);
    } else if (k == "rm") {
        TagMap m = {};
        for (auto& it : list_of(t[1])) {
            auto kv = split(it, '>');
            m.set(parse_tag(kv[0]), parse_tag(kv[1]));
        }
        lib->remap_tags(m);
        m.clear();
    } else if (k == "cl") {
        Library* l2 = (Library*)allocate_clear(sizeof(Library));
        bool deep = t[1] == "1";
        l2->copy_from(*lib, deep);
        if (deep)
            for (uint64_t i = 0; i < l2->cell_array.count; i++)
                if (!w.cid.count(l2->cell_array[i])) reg_cell(w, l2->cell_array[i]);
        w.libs.push_back(l2);
        w.lib = l2;
    } else {
        fprintf(stderr, "bad op %s\n", text.c_str());
        exit(4);
    }
}

// ---------------------------------------------------------------------------------------------
// reading the real state

static std::vector<int> carr(World& w) {
    std::vector<int> v;
    for (uint64_t i = 0; i < w.lib->cell_array.count; i++) v.push_back(w.cid[w.lib->cell_array[i]]);
    return v;
}
static std::vector<int> rarr(World& w) {
    std::vector<int> v;
    for (uint64_t i = 0; i < w.lib->rawcell_array.count; i++) v.push_back(w.rid[w.lib->rawcell_array[i]]);
    return v;
}
static bool has(const std::vector<int>& v, int x) { return std::find(v.begin(), v.end(), x) != v.end(); }

static std::string ref_str(World& w, const Reference* r) {
    switch (r->type) {
        case ReferenceType::Cell: return w.cid.count(r->cell) ? "c" + hx(w.cid[r->cell]) : std::string("c?");
        case ReferenceType::RawCell: return w.rid.count(r->rawcell) ? "r" + hx(w.rid[r->rawcell]) : std::string("r?");
        case ReferenceType::Name: return "n" + nm_hex(r->name);
    }
    return "?";
}
static std::vector<Tag> shape_tags_of(const Cell* c) {
    std::vector<Tag> v;
    for (uint64_t i = 0; i < c->polygon_array.count; i++) v.push_back(c->polygon_array[i]->tag);
    for (uint64_t i = 0; i < c->flexpath_array.count; i++)
        for (uint64_t j = 0; j < c->flexpath_array[i]->num_elements; j++) v.push_back(c->flexpath_array[i]->elements[j].tag);
    for (uint64_t i = 0; i < c->robustpath_array.count; i++)
        for (uint64_t j = 0; j < c->robustpath_array[i]->num_elements; j++) v.push_back(c->robustpath_array[i]->elements[j].tag);
    return v;
}
static std::vector<Tag> label_tags_of(const Cell* c) {
    std::vector<Tag> v;
    for (uint64_t i = 0; i < c->label_array.count; i++) v.push_back(c->label_array[i]->tag);
    return v;
}

// is a cycle of Cell-type references reachable from c? (harness' own depth first search)
static bool cyc_dfs(const Cell* c, std::set<const Cell*>& stack, std::set<const Cell*>& done) {
    if (stack.count(c)) return true;
    if (done.count(c)) return false;
    stack.insert(c);
    for (uint64_t i = 0; i < c->reference_array.count; i++) {
        const Reference* r = c->reference_array[i];
        if (r->type == ReferenceType::Cell && cyc_dfs(r->cell, stack, done)) return true;
    }
    stack.erase(c);
    done.insert(c);
    return false;
}
static bool reaches_cycle(const Cell* c) {
    std::set<const Cell*> st, dn;
    return cyc_dfs(c, st, dn);
}

template <class T, class M>
static std::string ids_sorted(Map<T*>& m, M& table) {
    std::vector<int> v;
    for (MapItem<T*>* it = m.next(NULL); it; it = m.next(it)) v.push_back(table[it->value]);
    std::sort(v.begin(), v.end());
    std::vector<std::string> s;
    for (int x : v) s.push_back(hx(x));
    return join(s);
}

static std::string q_cell_deps(World& w, Cell* c, bool rec, bool raw) {
    auto run = [&]() -> std::string {
        std::string s;
        if (raw) {
            Map<RawCell*> m = {};
            c->get_raw_dependencies(rec, m);
            s = ids_sorted(m, w.rid);
            m.clear();
        } else {
            Map<Cell*> m = {};
            c->get_dependencies(rec, m);
            s = ids_sorted(m, w.cid);
            m.clear();
        }
        return s;
    };
    if (rec && reaches_cycle(c)) {
        std::string r = in_child([&](FILE* o) {
            struct rlimit rl = {256 * 1024, 256 * 1024};  // unbounded recursion ends quickly
            setrlimit(RLIMIT_STACK, &rl);
            fprintf(o, "ok %s", run().c_str());
        }, 10);
        if (r.compare(0, 2, "ok") == 0) return r.size() > 3 ? r.substr(3) : "";
        return "X";
    }
    return run();
}

struct Sections {
    std::string a, s, wr, q, tg;
};

static Sections dump(World& w) {
    Sections d;
    Library* lib = w.lib;
    std::vector<std::string> v;
    for (uint64_t i = 0; i < lib->cell_array.count; i++)
        v.push_back(hx(w.cid[lib->cell_array[i]]) + "=" + nm_hex(lib->cell_array[i]->name));
    d.a = "C[" + join(v) + "]";
    v.clear();
    for (uint64_t i = 0; i < lib->rawcell_array.count; i++)
        v.push_back(hx(w.rid[lib->rawcell_array[i]]) + "=" + nm_hex(lib->rawcell_array[i]->name));
    d.a += "R[" + join(v) + "]";

    d.s = "S{";
    for (size_t i = 0; i < w.cells.size(); i++) {
        Cell* c = w.cells[i];
        d.s += hx(i) + ":" + nm_hex(c->name) + ":";
        v.clear();
        for (uint64_t j = 0; j < c->reference_array.count; j++) v.push_back(ref_str(w, c->reference_array[j]));
        d.s += join(v) + ":";
        v.clear();
        for (Tag t : shape_tags_of(c)) v.push_back(stag(t));
        d.s += join(v) + ":";
        v.clear();
        for (Tag t : label_tags_of(c)) v.push_back(stag(t));
        d.s += join(v) + ";";
    }
    d.s += "}";
    d.wr = "W{";
    for (size_t i = 0; i < w.raws.size(); i++) {
        RawCell* r = w.raws[i];
        v.clear();
        for (uint64_t j = 0; j < r->dependencies.count; j++) v.push_back(hx(w.rid[r->dependencies[j]]));
        d.wr += hx(i) + ":" + nm_hex(r->name) + ":" + join(v) + ";";
    }
    d.wr += "}";

    Array<Cell*> tc = {};
    Array<RawCell*> tr = {};
    lib->top_level(tc, tr);
    v.clear();
    for (uint64_t i = 0; i < tc.count; i++) v.push_back(hx(w.cid[tc[i]]));
    d.q = "T[" + join(v) + "]";
    v.clear();
    for (uint64_t i = 0; i < tr.count; i++) v.push_back(hx(w.rid[tr[i]]));
    d.q += "U[" + join(v) + "]";
    tc.clear();
    tr.clear();
    for (uint64_t i = 0; i < lib->cell_array.count; i++) {
        Cell* c = lib->cell_array[i];
        d.q += "D" + hx(w.cid[c]) + "=" + q_cell_deps(w, c, false, false) + "/" + q_cell_deps(w, c, true, false) + "/" +
               q_cell_deps(w, c, false, true) + "/" + q_cell_deps(w, c, true, true) + ";";
    }
    for (uint64_t i = 0; i < lib->rawcell_array.count; i++) {
        RawCell* r = lib->rawcell_array[i];
        Map<RawCell*> m = {};
        r->get_dependencies(false, m);
        d.q += "Q" + hx(w.rid[r]) + "=" + ids_sorted(m, w.rid) + "/";
        m.clear();
        r->get_dependencies(true, m);
        d.q += ids_sorted(m, w.rid) + ";";
        m.clear();
    }
    auto tagset = [&](bool shape) {
        Set<Tag> s = {};
        if (shape)
            lib->get_shape_tags(s);
        else
            lib->get_label_tags(s);
        std::vector<std::pair<uint32_t, uint32_t>> ts;
        for (SetItem<Tag>* it = s.next(NULL); it; it = s.next(it)) ts.push_back({get_layer(it->value), get_type(it->value)});
        s.clear();
        std::sort(ts.begin(), ts.end());
        std::vector<std::string> o;
        for (auto& p : ts) o.push_back(hx(p.first) + ":" + hx(p.second));
        return join(o);
    };
    d.tg = "ST[" + tagset(true) + "]LT[" + tagset(false) + "]";
    return d;
}
static std::string flat(const Sections& d) { return d.a + "~" + d.s + "~" + d.wr + "~" + d.q + "~" + d.tg; }

// ---------------------------------------------------------------------------------------------
// property-level oracle, computed from the real objects only

struct Obj {
    int kind;  // 0 none, 1 cell, 2 raw
    int id;
    bool operator==(const Obj& o) const { return kind == o.kind && (kind == 0 || id == o.id); }
    bool operator!=(const Obj& o) const { return !(*this == o); }
};

static Obj resolve(World& w, const Reference* r) {
    if (r->type == ReferenceType::Cell) return {1, w.cid[r->cell]};
    if (r->type == ReferenceType::RawCell) return {2, w.rid[r->rawcell]};
    for (uint64_t i = 0; i < w.lib->cell_array.count; i++)
        if (strcmp(w.lib->cell_array[i]->name, r->name) == 0) return {1, w.cid[w.lib->cell_array[i]]};
    for (uint64_t i = 0; i < w.lib->rawcell_array.count; i++)
        if (strcmp(w.lib->rawcell_array[i]->name, r->name) == 0) return {2, w.rid[w.lib->rawcell_array[i]]};
    return {0, 0};
}

struct Snap {
    std::vector<int> ca, ra;
    std::vector<std::string> cnames, rnames;
    std::vector<std::vector<Obj>> res;       // per cell (store), per reference
    std::vector<std::vector<int>> rtype;     // reference types
    std::vector<std::vector<std::string>> rtext;  // reference as text (kind + target)
    std::vector<std::vector<Tag>> pt, lt;
};
static Snap snap(World& w) {
    Snap s;
    s.ca = carr(w);
    s.ra = rarr(w);
    for (Cell* c : w.cells) {
        s.cnames.push_back(c->name);
        std::vector<Obj> r;
        std::vector<int> ty;
        std::vector<std::string> tx;
        for (uint64_t j = 0; j < c->reference_array.count; j++) {
            r.push_back(resolve(w, c->reference_array[j]));
            ty.push_back((int)c->reference_array[j]->type);
            tx.push_back(ref_str(w, c->reference_array[j]));
        }
        s.res.push_back(r);
        s.rtype.push_back(ty);
        s.rtext.push_back(tx);
        s.pt.push_back(shape_tags_of(c));
        s.lt.push_back(label_tags_of(c));
    }
    for (RawCell* r : w.raws) s.rnames.push_back(r->name);
    return s;
}

// top level computed naively: members that no member points to
static std::string naive_top(World& w) {
    std::set<int> refd_c, refd_r;
    for (int i : carr(w)) {
        Cell* c = w.cells[i];
        for (uint64_t j = 0; j < c->reference_array.count; j++) {
            Reference* r = c->reference_array[j];
            if (r->type == ReferenceType::Cell) refd_c.insert(w.cid[r->cell]);
            if (r->type == ReferenceType::RawCell) refd_r.insert(w.rid[r->rawcell]);
        }
    }
    for (int i : rarr(w))
        for (uint64_t j = 0; j < w.raws[i]->dependencies.count; j++) refd_r.insert(w.rid[w.raws[i]->dependencies[j]]);
    std::vector<std::string> a, b;
    for (int i : carr(w))
        if (!refd_c.count(i)) a.push_back(hx(i));
    for (int i : rarr(w))
        if (!refd_r.count(i)) b.push_back(hx(i));
    return "T[" + join(a) + "]U[" + join(b) + "]";
}

// transitive closure of Cell-type references, naive
static void closure(World& w, const Cell* c, std::set<int>& out) {
    for (uint64_t j = 0; j < c->reference_array.count; j++) {
        const Reference* r = c->reference_array[j];
        if (r->type == ReferenceType::Cell && !out.count(w.cid[r->cell])) {
            out.insert(w.cid[r->cell]);
            closure(w, r->cell, out);
        }
    }
}

// Checks after one operation of a history whose operations all satisfy the documented
// preconditions (see `op_pre` in coq/GraphProofs.v).  Returns "" or a failure text.
static std::string oracle(World& w, const Snap& b, const std::string& op, const Sections& d) {
    std::vector<std::string> t = words(op);
    const std::string& k = t[0];
    Snap a = snap(w);
    std::vector<int> ca = a.ca, ra = a.ra;
    // no reference of a member designates a removed / non member object
    for (int i : ca)
        for (size_t j = 0; j < a.res[i].size(); j++) {
            Obj o = a.res[i][j];
            if (a.rtype[i][j] == (int)ReferenceType::Name) continue;
            if (o.kind == 1 && !has(ca, o.id)) return "dangling-ref cell " + hx(i) + " ref " + hx(j) + " designates non-member cell " + hx(o.id);
            if (o.kind == 2 && !has(ra, o.id)) return "dangling-ref cell " + hx(i) + " ref " + hx(j) + " designates non-member raw cell " + hx(o.id);
        }
    // top level
    {
        std::string nt = naive_top(w);
        if (d.q.compare(0, nt.size(), nt) != 0) return "top-level expected " + nt;
    }
    // dependencies of every member: direct and transitive sets
    for (int i : ca) {
        std::set<int> dir, tr;
        Cell* c = w.cells[i];
        for (uint64_t j = 0; j < c->reference_array.count; j++)
            if (c->reference_array[j]->type == ReferenceType::Cell) dir.insert(w.cid[c->reference_array[j]->cell]);
        closure(w, c, tr);
        std::vector<std::string> sd, st;
        for (int x : dir) sd.push_back(hx(x));
        for (int x : tr) st.push_back(hx(x));
        std::string want = "D" + hx(i) + "=" + join(sd) + "/" + join(st) + "/";
        if (d.q.find(want) == std::string::npos) return "dependencies expected " + want;
    }
    bool is_rename = k == "rnp" || k == "rnn";
    bool is_replace = k == "cc" || k == "rc" || k == "cr" || k == "rr";
    // content that must not change
    size_t n0 = b.cnames.size();
    for (size_t i = 0; i < n0; i++) {
        if (a.res[i].size() != b.res[i].size()) return "refcount cell " + hx(i);
        if (k != "rm" && (a.pt[i] != b.pt[i] || a.lt[i] != b.lt[i])) return "tags-changed cell " + hx(i);
        bool renamed = false;
        if (k == "rnp" && i == unhexn(t[1])) renamed = true;
        if (k == "rnn" && has(b.ca, (int)i) && b.cnames[i] == nm(unhexn(t[1]))) renamed = true;
        if (!renamed && a.cnames[i] != b.cnames[i]) return "name-changed cell " + hx(i);
        if (renamed && a.cnames[i] != nm(unhexn(t[2]))) return "not-renamed cell " + hx(i);
    }
    for (size_t i = 0; i < b.rnames.size(); i++)
        if (a.rnames[i] != b.rnames[i]) return "name-changed raw " + hx(i);
    if (is_rename || k == "rm" || k == "nc" || k == "nr" || k == "cp") {
        if (ca != b.ca || ra != b.ra) return "arrays-changed";
    }
    if (is_replace) {
        Obj oldo = {(k == "cc" || k == "cr") ? 1 : 2, (int)unhexn(t[1])};
        Obj newo = {(k == "cc" || k == "rc") ? 1 : 2, (int)unhexn(t[2])};
        // membership
        if ((oldo.kind == 1 ? has(ca, oldo.id) : has(ra, oldo.id))) return "old-still-member";
        if (!(newo.kind == 1 ? has(ca, newo.id) : has(ra, newo.id))) return "new-not-member";
        std::set<int> sb(b.ca.begin(), b.ca.end()), sa(ca.begin(), ca.end());
        if (oldo.kind == 1) sb.erase(oldo.id);
        if (newo.kind == 1) sb.insert(newo.id);
        if (sa != sb) return "cell-array-set";
        std::set<int> rb(b.ra.begin(), b.ra.end()), rra(ra.begin(), ra.end());
        if (oldo.kind == 2) rb.erase(oldo.id);
        if (newo.kind == 2) rb.insert(newo.id);
        if (rra != rb) return "rawcell-array-set";
        for (int i : ca)
            for (size_t j = 0; j < a.res[i].size(); j++) {
                Obj was = b.res[i][j], now = a.res[i][j];
                if (now == oldo) return "ref-to-removed cell " + hx(i) + " ref " + hx(j);
                if (was == oldo && now != newo) return "not-retargeted cell " + hx(i) + " ref " + hx(j);
                if (was.kind != 0 && was != oldo && now != was) return "wrongly-retargeted cell " + hx(i) + " ref " + hx(j);
            }
        // cells outside the library keep their references
        for (size_t i = 0; i < n0; i++)
            if (!has(ca, (int)i))
                for (size_t j = 0; j < a.res[i].size(); j++)
                    if (a.rtype[i][j] != b.rtype[i][j]) return "outside-cell-touched " + hx(i);
    } else {
        // every reference that designated something still designates it
        for (int i : ca)
            if ((size_t)i < n0)
                for (size_t j = 0; j < a.res[i].size(); j++) {
                    Obj was = b.res[i][j], now = a.res[i][j];
                    if (a.rtype[i][j] != b.rtype[i][j]) return "ref-kind-changed cell " + hx(i);
                    if (a.rtype[i][j] == (int)ReferenceType::Name) {
                        // by name: may only change through add / remove of the named member
                        if (k == "ac" || k == "ar" || k == "rmc" || k == "rmr") continue;
                    }
                    if (was.kind != 0 && now != was) return "designation-changed cell " + hx(i) + " ref " + hx(j);
                }
    }
    if (k == "rm") {
        // the map the pairs denote, kept independently of TagMap: a later pair replaces an earlier one for the same key, and a pair
        // (k, k) leaves k unmapped
        std::map<Tag, Tag> m;
        for (auto& it : list_of(t[1])) {
            auto kv = split(it, '>');
            Tag from = parse_tag(kv[0]), to = parse_tag(kv[1]);
            if (from == to) m.erase(from);
            else m[from] = to;
        }
        auto get = [&](Tag x) { auto f2 = m.find(x); return f2 == m.end() ? x : f2->second; };
        for (size_t i = 0; i < n0; i++) {
            bool mem = has(b.ca, (int)i);
            for (size_t j = 0; j < b.pt[i].size(); j++)
                if (a.pt[i][j] != (mem ? get(b.pt[i][j]) : b.pt[i][j])) return "remap-shape-tag cell " + hx(i);
            for (size_t j = 0; j < b.lt[i].size(); j++)
                if (a.lt[i][j] != (mem ? get(b.lt[i][j]) : b.lt[i][j])) return "remap-label-tag cell " + hx(i);
        }
    }
    // tag queries = tags in use
    {
        std::set<std::pair<uint32_t, uint32_t>> st, lt;
        for (int i : ca) {
            for (Tag x : a.pt[i]) st.insert({get_layer(x), get_type(x)});
            for (Tag x : a.lt[i]) lt.insert({get_layer(x), get_type(x)});
        }
        std::vector<std::string> s1, s2;
        for (auto& p : st) s1.push_back(hx(p.first) + ":" + hx(p.second));
        for (auto& p : lt) s2.push_back(hx(p.first) + ":" + hx(p.second));
        std::string want = "ST[" + join(s1) + "]LT[" + join(s2) + "]";
        if (d.tg != want) return "tag-query expected " + want;
    }
    return "";
}

// ---------------------------------------------------------------------------------------------
// Known deviations of gdstk from the property as written (refuted clauses R1-R8 of
// coq/GraphProofs.v), detected from the real objects only.  They lie outside the contract under
// which the theorems hold (except R1) and are reported under one stable key each; the contract
// oracle above keeps its own c16-* keys.  Lower rank = reported in preference (one P line per case).

struct Deviation {
    int rank;
    std::string key, text;
};

static bool store_has_cycle(World& w) {
    std::set<const Cell*> st, dn;
    for (Cell* c : w.cells)
        if (cyc_dfs(c, st, dn)) return true;
    return false;
}

static void note(std::vector<Deviation>& v, int rank, const char* key, const std::string& text) {
    v.push_back({rank, key, text});
}

// ---------------------------------------------------------------------------------------------
// Independent dependency oracle ("dependency queries return exactly the direct or transitive set
// of referenced cells").  The expectation is computed from the pointer graph in memory with the
// harness' own traversal (work list + visited sets), never through a gdstk query:
//   edges of a Cell    : reference_array; type Cell -> that cell, type RawCell -> that raw cell,
//                        type Name -> the member (cell_array first, then rawcell_array) bearing the name
//   edges of a RawCell : RawCell::dependencies
// and compared, for every member cell / raw cell, with Cell::get_dependencies(false / true),
// Cell::get_raw_dependencies(false / true) and RawCell::get_dependencies(false / true).
// A difference is attributed to a recorded finding only when withdrawing that documented cause
// from the expectation makes the two sets equal:
//   * top_level:byname-ref-ignored      - the expectation recomputed WITHOUT the by-name edges equals the answer;
//   * top_level:name-keyed-after-remove - results are kept in a map keyed by NAME: the answer is the expectation (without
//                                         by-name edges) with exactly one object kept per name (only possible when two
//                                         distinct referenced objects bear the same name);
// any other difference is `dependencies:wrong-set`.  Recursive queries on cells that reach a cycle
// of Cell references are skipped (they never return; reported as replace_cell:self-cycle).

static void cell_edges(World& w, const Cell* c, bool byname, std::vector<Obj>& out) {
    for (uint64_t j = 0; j < c->reference_array.count; j++) {
        const Reference* r = c->reference_array[j];
        if (r->type == ReferenceType::Cell)
            out.push_back({1, w.cid[r->cell]});
        else if (r->type == ReferenceType::RawCell)
            out.push_back({2, w.rid[r->rawcell]});
        else if (byname) {
            Obj o = resolve(w, r);
            if (o.kind != 0) out.push_back(o);
        }
    }
}

struct DepSets {
    std::set<int> dc, tc, dr, tr;  // direct / transitive cells, direct / transitive raw cells
};

// everything reachable from the objects in `work` (these included)
static void reach(World& w, std::vector<Obj> work, bool byname, std::set<int>& vc, std::set<int>& vr) {
    while (!work.empty()) {
        Obj o = work.back();
        work.pop_back();
        if (o.kind == 1) {
            if (!vc.insert(o.id).second) continue;
            cell_edges(w, w.cells[o.id], byname, work);
        } else if (o.kind == 2) {
            if (!vr.insert(o.id).second) continue;
            const RawCell* r = w.raws[o.id];
            for (uint64_t j = 0; j < r->dependencies.count; j++) work.push_back({2, w.rid[r->dependencies[j]]});
        }
    }
}
static DepSets expected_of_cell(World& w, const Cell* c, bool byname) {
    DepSets e;
    std::vector<Obj> ed;
    cell_edges(w, c, byname, ed);
    for (Obj o : ed) (o.kind == 1 ? e.dc : e.dr).insert(o.id);
    reach(w, ed, byname, e.tc, e.tr);
    return e;
}
static DepSets expected_of_raw(World& w, const RawCell* r) {
    DepSets e;
    std::vector<Obj> ed;
    for (uint64_t j = 0; j < r->dependencies.count; j++) ed.push_back({2, w.rid[r->dependencies[j]]});
    for (Obj o : ed) e.dr.insert(o.id);
    reach(w, ed, false, e.tc, e.tr);
    return e;
}
// length of the longest dependency chain headed by raw cell r (r alone = 1)
static int raw_depth(World& w, const RawCell* r) {
    int d = 0;
    for (uint64_t j = 0; j < r->dependencies.count; j++) d = std::max(d, raw_depth(w, r->dependencies[j]));
    return d + 1;
}

template <class T, class M>
static std::set<int> ids_of(Map<T*>& m, M& table) {
    std::set<int> v;
    for (MapItem<T*>* it = m.next(NULL); it; it = m.next(it)) v.insert(table[it->value]);
    return v;
}
static std::string set_text(const std::set<int>& s) {
    std::vector<std::string> v;
    for (int x : s) v.push_back(hx(x));
    return "[" + join(v) + "]";
}
// is `got` the set `exp` with exactly one object kept per name?
static bool name_selection(const std::set<int>& got, const std::set<int>& exp, std::function<std::string(int)> name_of) {
    std::set<std::string> ng, ne;
    for (int x : got) {
        if (!exp.count(x)) return false;
        if (!ng.insert(name_of(x)).second) return false;
    }
    for (int x : exp) ne.insert(name_of(x));
    return ng == ne && got.size() < exp.size();
}

// one comparison; `e0` expectation with by-name edges, `e1` without
static void dep_compare(std::vector<Deviation>& v, bool seen[3], const std::string& when, const std::string& query, const std::string& what,
                        const std::set<int>& got, const std::set<int>& e0, const std::set<int>& e1,
                        std::function<std::string(int)> name_of) {
    if (got == e0) return;
    std::string tail = when + " " + query + " returns " + what + " " + set_text(got) + " but the pointer graph gives " + set_text(e0);
    if (got == e1) {
        if (!seen[0]) note(v, 7, "top_level:byname-ref-ignored", tail + " (the references by name are ignored: without them " + set_text(e1) + ")");
        seen[0] = true;
    } else if (name_selection(got, e1, name_of)) {
        if (!seen[1])
            note(v, 3, "top_level:name-keyed-after-remove",
                 tail + (e0 != e1 ? " (references by name ignored: without them " + set_text(e1) + "; " : " (") +
                     "results keyed by name: one of several referenced objects of the same name kept)");
        seen[1] = true;
    } else {
        if (!seen[2]) note(v, 0, "dependencies:wrong-set", tail);
        seen[2] = true;
    }
}

// `when`: "after `op`" / "in the initial library"
static void dependency_deviations(World& w, const std::string& when, std::vector<Deviation>& v) {
    bool seen[3] = {false, false, false};
    auto cname = [&](int i) { return std::string(w.cells[i]->name); };
    auto rname = [&](int i) { return std::string(w.raws[i]->name); };
    for (int i : carr(w)) {
        Cell* c = w.cells[i];
        DepSets e0 = expected_of_cell(w, c, true), e1 = expected_of_cell(w, c, false);
        bool cyclic = reaches_cycle(c);
        for (int rec = 0; rec < 2; rec++) {
            if (rec && cyclic) continue;
            std::string arg = rec ? "(true)" : "(false)";
            Map<Cell*> mc = {};
            c->get_dependencies(rec, mc);
            std::set<int> gc = ids_of(mc, w.cid);
            mc.clear();
            dep_compare(v, seen, when, "Cell::get_dependencies" + arg + " on cell " + hx(i), "cells", gc, rec ? e0.tc : e0.dc, rec ? e1.tc : e1.dc, cname);
            Map<RawCell*> mr = {};
            c->get_raw_dependencies(rec, mr);
            std::set<int> gr = ids_of(mr, w.rid);
            mr.clear();
            dep_compare(v, seen, when, "Cell::get_raw_dependencies" + arg + " on cell " + hx(i), "raw cells", gr, rec ? e0.tr : e0.dr, rec ? e1.tr : e1.dr,
                        rname);
        }
    }
    for (int i : rarr(w)) {
        RawCell* r = w.raws[i];
        DepSets e = expected_of_raw(w, r);
        for (int rec = 0; rec < 2; rec++) {
            Map<RawCell*> mr = {};
            r->get_dependencies(rec, mr);
            std::set<int> gr = ids_of(mr, w.rid);
            mr.clear();
            dep_compare(v, seen, when, std::string("RawCell::get_dependencies") + (rec ? "(true)" : "(false)") + " on raw cell " + hx(i), "raw cells", gr,
                        rec ? e.tr : e.dr, rec ? e.tr : e.dr, rname);
        }
    }
}

// R2 / R1: top_level against what the references say.  `when`: "after `op`" / "in the initial library"
static void top_level_deviations(World& w, const std::string& when, std::vector<Deviation>& v) {
    Snap a = snap(w);
    const std::vector<int>& ca = a.ca;
    Array<Cell*> tc = {};
    Array<RawCell*> tr = {};
    w.lib->top_level(tc, tr);
    std::vector<std::string> x, y;
    std::set<int> topc, topr;
    for (uint64_t i = 0; i < tc.count; i++) {
        x.push_back(hx(w.cid[tc[i]]));
        topc.insert(w.cid[tc[i]]);
    }
    for (uint64_t i = 0; i < tr.count; i++) {
        y.push_back(hx(w.rid[tr[i]]));
        topr.insert(w.rid[tr[i]]);
    }
    tc.clear();
    tr.clear();
    std::string got = "T[" + join(x) + "]U[" + join(y) + "]", want = naive_top(w);
    if (got != want) {
        // the recorded defect: dependencies are kept in a map keyed by NAME, so a member that is referenced drops out of the
        // map (and is reported top level) only when another referenced object bears the same name.  Any other difference
        // from the identity-based answer is a different failure.
        std::set<int> refd_c, refd_r;
        for (int i : carr(w)) {
            Cell* c = w.cells[i];
            for (uint64_t j = 0; j < c->reference_array.count; j++) {
                Reference* r = c->reference_array[j];
                if (r->type == ReferenceType::Cell) refd_c.insert(w.cid[r->cell]);
                if (r->type == ReferenceType::RawCell) refd_r.insert(w.rid[r->rawcell]);
            }
        }
        for (int i : rarr(w))
            for (uint64_t j = 0; j < w.raws[i]->dependencies.count; j++) refd_r.insert(w.rid[w.raws[i]->dependencies[j]]);
        bool explained = true;
        for (int i : carr(w)) {
            bool want_top = !refd_c.count(i);
            if (want_top == (topc.count(i) > 0)) continue;
            bool twin = false;
            if (!want_top)
                for (int j : refd_c)
                    if (j != i && strcmp(w.cells[j]->name, w.cells[i]->name) == 0) twin = true;
            if (!twin) explained = false;
        }
        for (int i : rarr(w)) {
            bool want_top = !refd_r.count(i);
            if (want_top == (topr.count(i) > 0)) continue;
            bool twin = false;
            if (!want_top)
                for (int j : refd_r)
                    if (j != i && strcmp(w.raws[j]->name, w.raws[i]->name) == 0) twin = true;
            if (!twin) explained = false;
        }
        note(v, 3, explained ? "top_level:name-keyed-after-remove" : "top_level:wrong-set",
             when + " top_level gives " + got + " but the members no member points to are " + want);
    }
    for (int i : ca) {
        bool hit = false;
        for (size_t j = 0; j < a.res[i].size(); j++) {
            Obj o = a.res[i][j];
            if (a.rtype[i][j] != (int)ReferenceType::Name || o.kind == 0) continue;
            if (o.kind == 1 && o.id == i) continue;
            if ((o.kind == 1 && topc.count(o.id)) || (o.kind == 2 && topr.count(o.id))) {
                note(v, 7, "top_level:byname-ref-ignored",
                     when + " " + (o.kind == 1 ? "cell " : "raw cell ") + hx(o.id) + " is reported top level although cell " +
                         hx(i) + " references it by name (" + a.rtext[i][j] + ")");
                hit = true;
                break;
            }
        }
        if (hit) break;
    }
}

// `cyc_before`: was there a cycle of Cell references in the store before the operation
static std::vector<Deviation> deviations(World& w, const Snap& b, bool cyc_before, const std::string& op) {
    std::vector<Deviation> v;
    std::vector<std::string> t = words(op);
    const std::string& k = t[0];
    Snap a = snap(w);
    const std::vector<int>&ca = a.ca, &ra = a.ra;
    bool is_replace = k == "cc" || k == "rc" || k == "cr" || k == "rr";
    size_t n0 = b.cnames.size();

    if (is_replace) {
        Obj oldo = {(k == "cc" || k == "cr") ? 1 : 2, (int)unhexn(t[1])};
        int nw = (int)unhexn(t[2]);
        // R5: the replacement closes a reference cycle
        if ((k == "cc" || k == "rc") && !cyc_before && store_has_cycle(w))
            note(v, 0, "replace_cell:self-cycle",
                 "after `" + op + "` cell " + hx(nw) + " lies on a cycle of Cell references (recursive queries never return)");
        // R3: a pointer reference to another object that merely has the old object's name is redirected
        for (size_t i = 0; i < n0 && v.size() < 4; i++)
            for (size_t j = 0; j < a.res[i].size(); j++)
                if (b.rtype[i][j] != (int)ReferenceType::Name && b.res[i][j] != oldo && a.rtext[i][j] != b.rtext[i][j]) {
                    note(v, 1, "replace_cell:rawcell-ref-by-name-match",
                         "after `" + op + "` reference " + hx(j) + " of cell " + hx(i) + " went from " + b.rtext[i][j] + " to " +
                             a.rtext[i][j] + " although it did not point to the replaced object (matched by name only)");
                    i = n0;
                    break;
                }
        // R4: dependencies of raw cells are never updated
        if (oldo.kind == 2 && has(b.ra, oldo.id) && !has(ra, oldo.id))
            for (int q : ra) {
                bool stale = false;
                for (uint64_t j = 0; j < w.raws[q]->dependencies.count; j++)
                    if (w.rid[w.raws[q]->dependencies[j]] == oldo.id) stale = true;
                if (stale) {
                    note(v, 2, "replace_cell:rawcell-dependencies-stale",
                         "after `" + op + "` member raw cell " + hx(q) + " still depends on the removed raw cell " + hx(oldo.id));
                    break;
                }
            }
    }
    // R6: deep copy keeps the pointers of the source library
    if (k == "cl" && t[1] == "1") {
        for (int i : ca) {
            bool hit = false;
            for (size_t j = 0; j < a.res[i].size(); j++)
                if (a.rtype[i][j] == (int)ReferenceType::Cell && has(b.ca, a.res[i][j].id) && !has(ca, a.res[i][j].id)) {
                    note(v, 4, "Library::copy_from:deep-copy-shares-targets",
                         "after `" + op + "` reference " + hx(j) + " of copied cell " + hx(i) + " designates cell " + hx(a.res[i][j].id) +
                             " of the source library, not its copy");
                    hit = true;
                    break;
                }
            if (hit) break;
        }
    }
    // a copy (shallow or deep) holds the raw cells of its source: raw cells are shared, never duplicated
    if (k == "cl") {
        std::vector<int> r0 = b.ra, r1 = a.ra;
        std::sort(r0.begin(), r0.end());
        std::sort(r1.begin(), r1.end());
        if (r0 != r1)
            note(v, 0, "copy_from:raw-cells-differ", "after `" + op + "` the copy holds " + std::to_string(r1.size()) + " raw cells, its source " + std::to_string(r0.size()));
    }
    // R7 / R8: misuse of rename_cell accepted silently
    if (k == "rnp" || k == "rnn") {
        int c = -1;
        if (k == "rnp")
            c = (int)unhexn(t[1]);
        else
            for (int i : b.ca)
                if (b.cnames[i] == nm(unhexn(t[1]))) {
                    c = i;
                    break;
                }
        std::string nn = nm(unhexn(t[2]));
        if (c >= 0 && !has(b.ca, c)) {
            bool changed = false;
            for (int i : ca)
                if ((size_t)i < n0 && a.rtext[i] != b.rtext[i]) changed = true;
            if (changed)
                note(v, 5, "rename_cell:nonmember",
                     "`" + op + "` renames a cell outside the library and rewrote by-name references of members");
        }
        if (c >= 0 && b.cnames[c] != nn) {
            bool clash = false;
            for (int i : b.ca)
                if (i != c && b.cnames[i] == nn) clash = true;
            for (int i : b.ra)
                if (b.rnames[i] == nn) clash = true;
            if (clash) note(v, 6, "rename_cell:collision", "`" + op + "` gives a cell the name of another member without complaint");
        }
    }
    top_level_deviations(w, "after `" + op + "`", v);
    // dependency queries against the pointer graph
    dependency_deviations(w, "after `" + op + "`", v);
    return v;
}

static void keep_best(Deviation& best, const std::vector<Deviation>& v) {
    for (auto& d : v) {
        auto fresh = [](const std::string& key) {
            return key == "top_level:wrong-set" || key == "copy_from:raw-cells-differ" || key == "dependencies:wrong-set";
        };
        if (fresh(best.key)) return;  // a failure that is not one of the recorded defects is never displaced
        if (best.rank < 0 || d.rank < best.rank || fresh(d.key)) best = d;
    }
}

// ---------------------------------------------------------------------------------------------
// generation

struct Gen {
    Rng& g;
    World& w;
    bool legit;
    bool allow_cycles = false;  // arbitrary histories: may a replacement close a reference cycle?
    Gen(Rng& g_, World& w_, bool l) : g(g_), w(w_), legit(l) {}

    // would replacing (cell oldc | raw oldr) by cell nw make a cycle?  (over-approximation: nw
    // reaches a cell holding a reference that the operation turns into a reference to nw)
    bool closes_cycle(int nw, int oldc, int oldr) {
        std::string oname = oldc >= 0 ? w.cells[oldc]->name : w.raws[oldr]->name;
        std::set<const Cell*> seen;
        auto pred = [&](const Cell* x) {
            for (uint64_t j = 0; j < x->reference_array.count; j++) {
                const Reference* r = x->reference_array[j];
                if (r->type == ReferenceType::Cell && (oldc >= 0 ? w.cid[r->cell] == oldc : oname == r->cell->name)) return true;
                if (r->type == ReferenceType::RawCell && (oldr >= 0 ? w.rid[r->rawcell] == oldr : oname == r->rawcell->name)) return true;
            }
            return false;
        };
        return reaches(w.cells[nw], pred, seen);
    }

    uint64_t pool_name() { return g.below(12); }
    std::string tagtxt() { return hx(g.below(4)) + ":" + hx(g.below(3)); }
    std::string tags(int maxn) {
        int n = (int)g.below(maxn + 1);
        std::vector<std::string> v;
        for (int i = 0; i < n; i++) v.push_back(tagtxt());
        return v.empty() ? "-" : join(v);
    }
    bool name_used(const std::string& s, int except_cell = -1, int except_raw = -1) {
        for (int i : carr(w))
            if (i != except_cell && s == w.cells[i]->name) return true;
        for (int i : rarr(w))
            if (i != except_raw && s == w.raws[i]->name) return true;
        return false;
    }
    // does cell c (by Cell references) reach a cell satisfying pred (c itself included)?
    bool reaches(const Cell* c, std::function<bool(const Cell*)> pred, std::set<const Cell*>& seen) {
        if (seen.count(c)) return false;
        seen.insert(c);
        if (pred(c)) return true;
        for (uint64_t j = 0; j < c->reference_array.count; j++)
            if (c->reference_array[j]->type == ReferenceType::Cell && reaches(c->reference_array[j]->cell, pred, seen)) return true;
        return false;
    }
    bool pointer_refs_closed(const Cell* c, int forbid_cell = -1, int forbid_raw = -1) {
        std::vector<int> ca = carr(w), ra = rarr(w);
        for (uint64_t j = 0; j < c->reference_array.count; j++) {
            const Reference* r = c->reference_array[j];
            if (r->type == ReferenceType::Cell && (!has(ca, w.cid[r->cell]) || w.cid[r->cell] == forbid_cell)) return false;
            if (r->type == ReferenceType::RawCell && (!has(ra, w.rid[r->rawcell]) || w.rid[r->rawcell] == forbid_raw)) return false;
        }
        return true;
    }
    bool cell_pointed(int id) {
        for (int i : carr(w))
            for (uint64_t j = 0; j < w.cells[i]->reference_array.count; j++) {
                Reference* r = w.cells[i]->reference_array[j];
                if (r->type == ReferenceType::Cell && w.cid[r->cell] == id) return true;
            }
        return false;
    }
    bool raw_pointed_by_cell(int id) {
        for (int i : carr(w))
            for (uint64_t j = 0; j < w.cells[i]->reference_array.count; j++) {
                Reference* r = w.cells[i]->reference_array[j];
                if (r->type == ReferenceType::RawCell && w.rid[r->rawcell] == id) return true;
            }
        return false;
    }
    bool raw_pointed_by_raw(int id) {
        for (int i : rarr(w))
            for (uint64_t j = 0; j < w.raws[i]->dependencies.count; j++)
                if (w.rid[w.raws[i]->dependencies[j]] == id) return true;
        return false;
    }

    std::string refs_text(bool members_only, int maxn) {
        std::vector<int> ca = carr(w), ra = rarr(w);
        int n = (int)g.below(maxn + 1);
        std::vector<std::string> v;
        for (int i = 0; i < n; i++) {
            int kind = (int)g.below(10);
            if (kind < 5) {
                if (members_only) {
                    if (!ca.empty()) v.push_back("c" + hx(ca[g.below(ca.size())]));
                } else if (!w.cells.empty())
                    v.push_back("c" + hx(g.below(w.cells.size())));
            } else if (kind < 7) {
                if (members_only) {
                    if (!ra.empty()) v.push_back("r" + hx(ra[g.below(ra.size())]));
                } else if (!w.raws.empty())
                    v.push_back("r" + hx(g.below(w.raws.size())));
            } else
                v.push_back("n" + hx(pool_name()));
        }
        return v.empty() ? "-" : join(v);
    }
    std::string new_cell_text(bool members_only) {
        return "nc " + hx(pool_name()) + " " + refs_text(members_only, 4) + " " + tags(4) + " " + tags(2);
    }
    std::string new_raw_text(bool members_only) {
        std::vector<int> ra = rarr(w);
        std::vector<std::string> v;
        int n = (int)g.below(3);
        for (int i = 0; i < n; i++) {
            std::string s;
            if (members_only) {
                if (ra.empty()) continue;
                s = hx(ra[g.below(ra.size())]);
            } else {
                if (w.raws.empty()) continue;
                s = hx(g.below(w.raws.size()));
            }
            if (std::find(v.begin(), v.end(), s) == v.end() || !legit) v.push_back(s);
        }
        return "nr " + hx(pool_name()) + " " + (v.empty() ? "-" : join(v));
    }
    std::string remap_text() {
        int n = (int)g.below(4);
        std::vector<std::string> v;
        for (int i = 0; i < n; i++) v.push_back(tagtxt() + ">" + tagtxt());
        if (g.chance(30)) {  // a key mapped and then mapped to itself: the second pair withdraws the first
            std::string key = tagtxt();
            v.push_back(key + ">" + tagtxt());
            v.push_back(key + ">" + key);
        }
        return "rm " + (v.empty() ? "-" : join(v));
    }

    // candidates for a legit replacement of member cell `old` / member raw `oldr` by cell `nw`
    bool legit_new_cell_for(int nw, int oldc, int oldr) {
        std::vector<int> ca = carr(w);
        if (has(ca, nw)) return false;
        Cell* c = w.cells[nw];
        if (!pointer_refs_closed(c, oldc, oldr)) return false;
        std::string oname = oldc >= 0 ? w.cells[oldc]->name : w.raws[oldr]->name;
        if (oname != c->name && name_used(c->name)) return false;
        // must not reach a member holding a reference the operation retargets
        std::set<const Cell*> seen;
        auto pred = [&](const Cell* x) {
            for (uint64_t j = 0; j < x->reference_array.count; j++) {
                const Reference* r = x->reference_array[j];
                if (oldc >= 0 && r->type == ReferenceType::Cell && w.cid[r->cell] == oldc) return true;
                if (oldr >= 0 && r->type == ReferenceType::RawCell && w.rid[r->rawcell] == oldr) return true;
            }
            return false;
        };
        if (reaches(c, pred, seen)) return false;
        return true;
    }
    bool legit_new_raw_for(int nw, int oldc, int oldr) {
        std::vector<int> ra = rarr(w);
        if (has(ra, nw)) return false;
        RawCell* r = w.raws[nw];
        for (uint64_t j = 0; j < r->dependencies.count; j++) {
            int d = w.rid[r->dependencies[j]];
            if (!has(ra, d) || d == oldr) return false;
        }
        std::string oname = oldc >= 0 ? w.cells[oldc]->name : w.raws[oldr]->name;
        if (oname != r->name && name_used(r->name)) return false;
        return true;
    }

    // one operation; "" when the drawn kind has no candidate in this state
    std::string draw() {
        std::vector<int> ca = carr(w), ra = rarr(w);
        int kind = (int)g.below(100);
        if (!legit) {
            // anything goes, as long as identities exist
            size_t nc = w.cells.size(), nr = w.raws.size();
            auto anyc = [&]() { return hx((g.chance(70) && !ca.empty()) ? (uint64_t)ca[g.below(ca.size())] : g.below(nc)); };
            auto anyr = [&]() { return hx((g.chance(70) && !ra.empty()) ? (uint64_t)ra[g.below(ra.size())] : g.below(nr)); };
            if (kind < 8) return new_cell_text(g.chance(50));
            if (kind < 12) return new_raw_text(g.chance(50));
            if (kind < 18 && nc) return "cp " + anyc() + " " + (g.coin() ? std::string("-") : hx(pool_name()));
            if (kind < 26 && nc) return "ac " + hx(g.below(nc));
            if (kind < 30 && nr) return "ar " + hx(g.below(nr));
            if (kind < 35 && nc) return "rmc " + anyc();
            if (kind < 38 && nr) return "rmr " + anyr();
            if (kind < 48 && nc) return "rnp " + anyc() + " " + hx(pool_name());
            if (kind < 56) return "rnn " + hx(pool_name()) + " " + hx(pool_name());
            if (kind < 66 && nc) {
                int o = (int)unhexn(anyc()), n2 = (int)g.below(nc);
                if (!allow_cycles && o != n2 && closes_cycle(n2, o, -1)) return "";
                return "cc " + hx(o) + " " + hx(n2);
            }
            if (kind < 73 && nc && nr) {
                int o = (int)unhexn(anyr()), n2 = (int)g.below(nc);
                if (!allow_cycles && closes_cycle(n2, -1, o)) return "";
                return "rc " + hx(o) + " " + hx(n2);
            }
            if (kind < 80 && nc && nr) return "cr " + anyc() + " " + hx(g.below(nr));
            if (kind < 86 && nr) return "rr " + anyr() + " " + hx(g.below(nr));
            if (kind < 94) return remap_text();
            if (kind < 100) return std::string("cl ") + (g.chance(60) ? "1" : "0");
            return "";
        }
        // operations within the documented preconditions
        if (kind < 10) return new_cell_text(true);
        if (kind < 14) return new_raw_text(true);
        if (kind < 22 && !ca.empty()) {
            int src = ca[g.below(ca.size())];
            return "cp " + hx(src) + " " + (g.coin() ? std::string("-") : hx(pool_name()));
        }
        if (kind < 30) {  // add a prepared cell
            std::vector<int> c;
            for (size_t i = 0; i < w.cells.size(); i++)
                if (!has(ca, (int)i) && !name_used(w.cells[i]->name) && pointer_refs_closed(w.cells[i]) && !cell_pointed((int)i)) c.push_back((int)i);
            if (c.empty()) return "";
            return "ac " + hx(c[g.below(c.size())]);
        }
        if (kind < 34) {
            std::vector<int> c;
            for (size_t i = 0; i < w.raws.size(); i++) {
                if (has(ra, (int)i) || name_used(w.raws[i]->name)) continue;
                bool ok = true;
                for (uint64_t j = 0; j < w.raws[i]->dependencies.count; j++)
                    if (!has(ra, w.rid[w.raws[i]->dependencies[j]])) ok = false;
                if (ok) c.push_back((int)i);
            }
            if (c.empty()) return "";
            return "ar " + hx(c[g.below(c.size())]);
        }
        if (kind < 39) {  // remove an unreferenced member
            std::vector<int> c;
            for (int i : ca)
                if (!cell_pointed(i)) c.push_back(i);
            if (c.empty()) return "";
            return "rmc " + hx(c[g.below(c.size())]);
        }
        if (kind < 42) {
            std::vector<int> c;
            for (int i : ra)
                if (!raw_pointed_by_cell(i) && !raw_pointed_by_raw(i)) c.push_back(i);
            if (c.empty()) return "";
            return "rmr " + hx(c[g.below(c.size())]);
        }
        if (kind < 56 && !ca.empty()) {  // rename to an unused name (or to its own name)
            int i = ca[g.below(ca.size())];
            uint64_t nn = pool_name();
            if (name_used(nm(nn), i)) return "";
            if (g.coin()) return "rnp " + hx(i) + " " + hx(nn);
            return "rnn " + nm_hex(w.cells[i]->name) + " " + hx(nn);
        }
        if (kind < 58) {  // rename by a name that is absent: no effect
            uint64_t o = pool_name(), nn = pool_name();
            if (name_used(nm(o)) || name_used(nm(nn))) return "";
            bool cellnamed = false;
            for (int i : ca)
                if (nm(o) == w.cells[i]->name) cellnamed = true;
            if (cellnamed) return "";
            return "rnn " + hx(o) + " " + hx(nn);
        }
        if (kind < 70 && !ca.empty()) {
            int old = ca[g.below(ca.size())];
            std::vector<int> c;
            for (size_t i = 0; i < w.cells.size(); i++)
                if (legit_new_cell_for((int)i, old, -1)) c.push_back((int)i);
            if (c.empty()) return "";
            return "cc " + hx(old) + " " + hx(c[g.below(c.size())]);
        }
        if (kind < 77 && !ra.empty()) {
            int old = ra[g.below(ra.size())];
            if (raw_pointed_by_raw(old)) return "";
            std::vector<int> c;
            for (size_t i = 0; i < w.cells.size(); i++)
                if (legit_new_cell_for((int)i, -1, old)) c.push_back((int)i);
            if (c.empty()) return "";
            return "rc " + hx(old) + " " + hx(c[g.below(c.size())]);
        }
        if (kind < 84 && !ca.empty()) {
            int old = ca[g.below(ca.size())];
            std::vector<int> c;
            for (size_t i = 0; i < w.raws.size(); i++)
                if (legit_new_raw_for((int)i, old, -1)) c.push_back((int)i);
            if (c.empty()) return "";
            return "cr " + hx(old) + " " + hx(c[g.below(c.size())]);
        }
        if (kind < 90 && !ra.empty()) {
            int old = ra[g.below(ra.size())];
            if (raw_pointed_by_raw(old)) return "";
            std::vector<int> c;
            for (size_t i = 0; i < w.raws.size(); i++)
                if (legit_new_raw_for((int)i, -1, old)) c.push_back((int)i);
            if (c.empty()) return "";
            return "rr " + hx(old) + " " + hx(c[g.below(c.size())]);
        }
        if (kind < 97) return remap_text();
        return "cl 0";
    }
};

// raw cells the way users get them: write a GDSII file, load it with read_rawcells.  Returns
// the "nr" operations (dependencies in the order the loader left them) and registers the objects.
// `chain`: the first `chain` cells written form a chain (cell i references cell i-1), so that raw cell chain-1 heads a
// dependency chain `chain` deep.
static std::vector<std::string> raws_from_file(World& w, Rng& g, int count, std::vector<uint64_t>& names, int chain = 0) {
    std::vector<std::string> ops;
    Library tmp = {};
    tmp.init("tmp", 1e-6, 1e-9);
    std::vector<Cell*> cs;
    std::vector<std::vector<int>> deps(count);
    for (int i = 0; i < count; i++) {
        Cell* c = (Cell*)allocate_clear(sizeof(Cell));
        c->name = copy_string(nm(names[i]).c_str(), NULL);
        c->polygon_array.append(mk_polygon(make_tag(1, 0)));
        bool link = i > 0 && i < chain;
        int nd = i ? (int)g.below(link ? 2 : 3) : 0;
        for (int j = link ? -1 : 0; j < nd; j++) {
            int d = j < 0 ? i - 1 : (int)g.below(i);
            Reference* r = (Reference*)allocate_clear(sizeof(Reference));
            if (g.coin())
                r->init(cs[d]);
            else
                r->init(cs[d]->name);
            c->reference_array.append(r);
        }
        cs.push_back(c);
        tmp.cell_array.append(c);
    }
    std::string path = g_outdir + "/c16_raw.gds";
    tm ts = {};
    ts.tm_year = 100;
    ts.tm_mday = 1;
    tmp.write_gds(path.c_str(), 0, &ts);
    ErrorCode err = ErrorCode::NoError;
    Map<RawCell*> m = read_rawcells(path.c_str(), &err);
    size_t base = w.raws.size();
    std::vector<RawCell*> rs;
    for (int i = 0; i < count; i++) {
        RawCell* r = m.get(nm(names[i]).c_str());
        if (!r) {
            fprintf(stderr, "read_rawcells lost %s\n", nm(names[i]).c_str());
            exit(5);
        }
        rs.push_back(r);
        reg_raw(w, r);
    }
    for (int i = 0; i < count; i++) {
        std::vector<std::string> d;
        for (uint64_t j = 0; j < rs[i]->dependencies.count; j++) d.push_back(hx(w.rid[rs[i]->dependencies[j]]));
        ops.push_back("nr " + hx(names[i]) + " " + (d.empty() ? "-" : join(d)));
    }
    (void)base;
    m.clear();
    for (Cell* c : cs) {
        c->free_all();
        free_allocation(c);
    }
    tmp.clear();
    return ops;
}

// ---------------------------------------------------------------------------------------------

static std::string compress(const Sections& d, const Sections* prev) {
    // a section identical to the same section of the previous dump is printed as "="
    if (!prev) return flat(d);
    auto sec = [](const std::string& now, const std::string& was) { return now == was ? std::string("=") : now; };
    return sec(d.a, prev->a) + "~" + sec(d.s, prev->s) + "~" + sec(d.wr, prev->wr) + "~" + sec(d.q, prev->q) + "~" + sec(d.tg, prev->tg);
}

static void emit_P(Out& out, const std::string& id, const std::string& pres, bool legit, const Deviation& dev) {
    if (!pres.empty())
        out.P(id, "FAIL " + pres);  // violation inside the contract: always first
    else if (dev.rank >= 0) {
        out.P(id, "FAIL " + dev.key + " " + dev.text);
        out.count("deviation:" + dev.key);
    } else if (legit)
        out.P(id, "ok");
}

static void finish_case(Out& out, const std::string& setup, const std::vector<std::string>& ops, const std::string& result,
                        const std::string& pres, bool legit, const Deviation& dev) {
    std::string payload = setup + "|";
    for (size_t i = 0; i < ops.size(); i++) payload += (i ? ";" : "") + ops[i];
    std::string id = out.add("hist", payload);
    out.I(id, result);
    emit_P(out, id, pres, legit, dev);
}

// replay of a given payload (corpus / replay file): no generation
static void replay_case(Out& out, const std::string& payload) {
    World w;
    w.lib = (Library*)allocate_clear(sizeof(Library));
    w.lib->init("L", 1e-6, 1e-9);
    w.libs.push_back(w.lib);
    size_t bar = payload.find('|');
    std::string setup = payload.substr(0, bar);
    std::string rest = bar == std::string::npos ? "" : payload.substr(bar + 1);
    for (auto& s : split(setup, ';'))
        if (!words(s).empty()) exec_op(w, s);
    Sections d = dump(w);
    std::string result = flat(d);
    Deviation dev = {-1, "", ""};
    {
        std::vector<Deviation> v0;
        top_level_deviations(w, "in the initial library", v0);
        dependency_deviations(w, "in the initial library", v0);
        keep_best(dev, v0);
    }
    std::string sofar = setup + "|";
    for (auto& s : split(rest, ';')) {
        if (words(s).empty()) continue;
        guard_begin(out, "hist", sofar + s, "c16-crash");
        sofar += s + ";";
        Snap before = snap(w);
        bool cyc = store_has_cycle(w);
        exec_op(w, s);
        Sections nd = dump(w);
        result += " | " + compress(nd, &d);
        d = nd;
        keep_best(dev, deviations(w, before, cyc, s));
        guard_end();
    }
    std::string id = out.add("hist", payload);
    out.I(id, result);
    emit_P(out, id, "", false, dev);
    free_world(w);
}

static void gen_case(Out& out, Rng& g, bool legit) {
    World w;
    w.lib = (Library*)allocate_clear(sizeof(Library));
    w.lib->init("L", 1e-6, 1e-9);
    w.libs.push_back(w.lib);
    Gen gen(g, w, legit);
    gen.allow_cycles = !legit && g.chance(12);
    std::vector<std::string> setup;
    auto doop = [&](const std::string& s) {
        exec_op(w, s);
        setup.push_back(s);
    };
    // --- initial library: 0-3 raw cells (chain histories, about one in four: 3-5 raw cells of which the first 3 or 4 form a
    // dependency chain r0 <- r1 <- r2 (<- r3), headed by the last one), 2-7 cells forming a DAG with shared sub-cells
    int chain = g.chance(24) ? (int)g.range(3, 4) : 0;
    int nraw = chain ? chain + (int)g.below(2) : (int)g.below(4);
    std::vector<uint64_t> used;
    auto fresh_name = [&]() {
        uint64_t n;
        do n = g.below(12);
        while (std::find(used.begin(), used.end(), n) != used.end());
        used.push_back(n);
        return n;
    };
    bool from_file = nraw > 0 && g.chance(50);
    if (from_file) {
        std::vector<uint64_t> names;
        for (int i = 0; i < nraw; i++) names.push_back(fresh_name());
        for (auto& s : raws_from_file(w, g, nraw, names, chain)) setup.push_back(s);
        out.count("raws:file");
    } else {
        for (int i = 0; i < nraw; i++) {
            std::vector<std::string> d;
            bool link = i > 0 && i < chain;
            if (link) d.push_back(hx(i - 1));
            int nd = i ? (int)g.below(link ? 2 : 3) : 0;
            for (int j = 0; j < nd; j++) {
                std::string s = hx(g.below(i));
                if (std::find(d.begin(), d.end(), s) == d.end()) d.push_back(s);
            }
            doop("nr " + hx(fresh_name()) + " " + (d.empty() ? "-" : join(d)));
        }
        if (nraw) out.count("raws:hand");
    }
    for (int i = 0; i < nraw; i++) doop("ar " + hx(i));
    int ncell = (int)g.range(chain ? 3 : 2, 7);
    // chain histories: cell k0 references the head of the raw chain, cell k1 > k0 references cell k0, cell k2 > k1 references
    // cell k1 (the chain is seen directly, through one and through two levels of Cell references)
    int k0 = -1, k1 = -1, k2 = -1;
    if (chain) {
        k0 = (int)g.below(ncell - 2);
        k1 = (int)g.range(k0 + 1, ncell - 2);
        k2 = (int)g.range(k1 + 1, ncell - 1);
    }
    for (int i = 0; i < ncell; i++) {
        std::vector<std::string> refs;
        int nrf = (int)g.below(4);
        if (i == k0) refs.push_back("r" + hx(chain - 1));
        if (i == k1) refs.push_back("c" + hx(k0));
        if (i == k2) refs.push_back("c" + hx(k1));
        for (int j = 0; j < nrf; j++) {
            int kind = (int)g.below(10);
            if (kind < 6 && i > 0)
                refs.push_back("c" + hx(g.below(i)));  // shared sub-cells: any earlier cell
            else if (kind < 8 && nraw > 0)
                refs.push_back("r" + hx(g.below(nraw)));
            else if (kind >= 8)
                refs.push_back("n" + hx(g.chance(70) && !used.empty() ? used[g.below(used.size())] : g.below(12)));
        }
        doop("nc " + hx(fresh_name()) + " " + (refs.empty() ? "-" : join(refs)) + " " + gen.tags(4) + " " + gen.tags(2));
        doop("ac " + hx(i));
    }
    out.count("cells:" + std::to_string(ncell));
    {
        // what the initial library offers to the dependency oracle: the deepest raw-cell chain headed by a raw cell that a
        // member cell references directly (level 0) or reaches through 1, 2, ... levels of Cell references
        int best = 0;
        std::set<int> levels;
        for (int i : carr(w)) {
            std::vector<std::pair<const Cell*, int>> work = {{w.cells[i], 0}};
            std::set<std::pair<const Cell*, int>> seen;
            while (!work.empty()) {
                const Cell* c = work.back().first;
                int lv = work.back().second;
                work.pop_back();
                if (lv > 7 || !seen.insert({c, lv}).second) continue;
                for (uint64_t j = 0; j < c->reference_array.count; j++) {
                    const Reference* r = c->reference_array[j];
                    if (r->type == ReferenceType::Cell) work.push_back({r->cell, lv + 1});
                    if (r->type == ReferenceType::RawCell) {
                        int dp = raw_depth(w, r->rawcell);
                        best = std::max(best, dp);
                        if (dp >= 3) levels.insert(std::min(lv, 2));
                    }
                }
            }
        }
        if (best >= 3) out.count("rawchain>=3:histories");
        if (best >= 3) out.count(best >= 4 ? "rawchain:depth>=4" : "rawchain:depth3");
        for (int lv : levels) out.count("rawchain>=3:seen-through-" + std::to_string(lv) + (lv == 2 ? "+" : "") + "-cell-levels");
    }
    std::string setup_text;
    for (size_t i = 0; i < setup.size(); i++) setup_text += (i ? ";" : "") + setup[i];

    // --- the history
    Sections d = dump(w);
    std::string result = compress(d, NULL);
    std::string pres;
    bool oracle_on = legit;
    Deviation dev = {-1, "", ""};
    {
        std::vector<Deviation> v0;
        top_level_deviations(w, "in the initial library", v0);
        dependency_deviations(w, "in the initial library", v0);
        keep_best(dev, v0);
    }
    int len = (int)g.range(5, 40);
    std::vector<std::string> ops;
    for (int step = 0; step < len; step++) {
        std::string op;
        for (int tries = 0; tries < 20 && op.empty(); tries++) op = gen.draw();
        if (op.empty()) break;
        {
            std::string sofar = setup_text + "|";
            for (auto& o2 : ops) sofar += o2 + ";";
            guard_begin(out, "hist", sofar + op, "c16-crash");
        }
        Snap before = snap(w);
        bool cyc = store_has_cycle(w);
        exec_op(w, op);
        ops.push_back(op);
        out.count("op:" + words(op)[0]);
        Sections nd = dump(w);
        result += " | " + compress(nd, &d);
        d = nd;
        if (nd.q.find('X') != std::string::npos) out.count("dumps-with-cyclic-crash");
        keep_best(dev, deviations(w, before, cyc, op));
        if (oracle_on && pres.empty()) {
            std::string f = oracle(w, before, op, nd);
            // finding key = first word of the failure text (stable across seeds)
            if (!f.empty()) pres = "c16-" + words(f)[0] + " step " + std::to_string(step) + " after `" + op + "`: " + f;
        }
        guard_end();
    }
    out.count(legit ? "histories:within-preconditions" : "histories:arbitrary");
    out.count("ops", (long)ops.size());
    finish_case(out, setup_text, ops, result, pres, legit, dev);
    free_world(w);
}

int main(int argc, char** argv) {
    if (argc < 5) {
        fprintf(stderr, "usage: c16 seed tier outdir corpusdir [replayfile]\n");
        return 2;
    }
    uint64_t seed = strtoull(argv[1], NULL, 10);
    std::string tier = argv[2];
    g_outdir = argv[3];
    Out out;
    out.open(argv[3]);
    set_error_logger(NULL);
    if (argc > 5) {
        std::string kind, payload;
        if (load_replay(argv[5], kind, payload)) replay_case(out, payload);
        out.close();
        return 0;
    }
    for (auto& kp : load_corpus(argv[4]))
        if (kp.first == "hist" || kp.first == "hist-crash") replay_case(out, kp.second);
    Rng g(seed);
    int n = tier == "thorough" ? 40000 : 800;
    for (int i = 0; i < n; i++) gen_case(out, g, g.chance(55));
    remove((g_outdir + "/c16_raw.gds").c_str());
    out.close();
    return 0;
}
