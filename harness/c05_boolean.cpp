// C05 harness: real gdstk::boolean on generated pairs of polygon groups; results are converted
// exactly to the integer grid and written with operands and sample points; the extracted Coq
// oracle (ocaml/c05_boolean_driver.ml) decides the property on them (S line), the harness says
// `I ok`.  Also: the Gallina model of link_holes against the real static link_holes (M vs I).
// Reaches the static functions by including src/clipper_tools.cpp.
#include <algorithm>
#include <array>
#include <gdstk/gdstk.hpp>
#include "clipper_tools.cpp"
#include "clip_common.hpp"

using namespace gdstk;

static const Operation OPS[4] = {Operation::Or, Operation::And, Operation::Not, Operation::Xor};

struct Pools {
    std::map<int64_t, std::vector<DPoly>> keyholes;  // earlier results with many vertices, per scaling
};
static Pools pools;
static bool g_thorough = false;

// ---------------------------------------------------------------- link_holes differential
static std::string ser_path(const ClipperLib::Path& p) {
    std::string s = hex_u64(p.size());
    for (auto& v : p) {
        s += ' ';
        s += hex_i64(v.X);
        s += ' ';
        s += hex_i64(v.Y);
    }
    return s;
}

static void run_lh(Out& out, const ClipperLib::Path& contour, const std::vector<ClipperLib::Path>& holes) {
    if (holes.size() > 16) {
        // gdstk's sort() switches from the stable insertion sort (modelled) to quicksort above 16
        // elements: holes with equal minimum points may then be linked in another order
        std::vector<ClipperLib::IntPoint> mins;
        for (auto& h : holes) {
            if (h.empty()) continue;
            ClipperLib::IntPoint m = h[0];
            for (auto& v : h)
                if (point_less(v, m)) m = v;
            mins.push_back(m);
        }
        for (size_t i = 0; i < mins.size(); i++)
            for (size_t j = i + 1; j < mins.size(); j++)
                if (mins[i].X == mins[j].X && mins[i].Y == mins[j].Y) {
                    out.count("lh:skipped-tie-above-16-holes");
                    return;
                }
    }
    std::string payload = "C " + ser_path(contour) + " H " + hex_u64(holes.size());
    for (auto& h : holes) payload += " " + ser_path(h);
    std::string id = out.add("lh", payload);
    out.count("lh:holes" + std::to_string(std::min<size_t>(holes.size(), 5)));
    if (holes.size() > 16) out.count("lh:more-than-16-holes");
    std::string res = in_child([&](FILE* o) {
        ClipperLib::PolyNode node;
        node.Contour = contour;
        std::vector<ClipperLib::PolyNode*> kids;
        for (auto& h : holes) {
            ClipperLib::PolyNode* k = new ClipperLib::PolyNode();
            k->Contour = h;
            node.Childs.push_back(k);
        }
        ErrorCode err = ErrorCode::NoError;
        link_holes(&node, err);
        fprintf(o, "%s %s", err == ErrorCode::NoError ? "ok" : "err", ser_path(node.Contour).c_str());
    });
    out.I(id, res);
}

static bool parse_i64(const char*& s, int64_t& v) {
    while (*s == ' ') s++;
    if (!*s) return false;
    bool neg = *s == '-';
    if (neg) s++;
    char* e;
    v = (int64_t)strtoull(s, &e, 16);
    if (e == s) return false;
    s = e;
    if (neg) v = -v;
    return true;
}
static bool parse_path(const char*& s, ClipperLib::Path& p) {
    int64_t n;
    if (!parse_i64(s, n)) return false;
    for (int64_t i = 0; i < n; i++) {
        int64_t x, y;
        if (!parse_i64(s, x) || !parse_i64(s, y)) return false;
        p.push_back(ClipperLib::IntPoint(x, y));
    }
    return true;
}
static void replay_lh(Out& out, const std::string& payload) {
    const char* s = payload.c_str();
    while (*s == ' ') s++;
    if (*s != 'C') return;
    s++;
    ClipperLib::Path c;
    if (!parse_path(s, c)) return;
    while (*s == ' ') s++;
    if (*s != 'H') return;
    s++;
    int64_t k;
    if (!parse_i64(s, k)) return;
    std::vector<ClipperLib::Path> hs;
    for (int64_t i = 0; i < k; i++) {
        ClipperLib::Path h;
        if (!parse_path(s, h)) return;
        hs.push_back(h);
    }
    run_lh(out, c, hs);
}

// the poly-trees Clipper produces for this pair: every outer node with holes, before linking
static void lh_from_clipper(Out& out, const Array<Polygon*>& a, const Array<Polygon*>& b, double scaling, int opi) {
    static const ClipperLib::ClipType CT[4] = {ClipperLib::ctUnion, ClipperLib::ctIntersection, ClipperLib::ctDifference,
                                               ClipperLib::ctXor};
    ClipperLib::Paths p1 = polygons_to_paths(a, scaling), p2 = polygons_to_paths(b, scaling);
    ClipperLib::Clipper clpr;
    clpr.AddPaths(p1, ClipperLib::ptSubject, true);
    clpr.AddPaths(p2, ClipperLib::ptClip, true);
    ClipperLib::PolyTree sol;
    clpr.Execute(CT[opi], sol, ClipperLib::pftNonZero, ClipperLib::pftNonZero);
    for (ClipperLib::PolyNode* n = sol.GetFirst(); n; n = n->GetNext()) {
        if (n->IsHole() || n->ChildCount() == 0) continue;
        std::vector<ClipperLib::Path> hs;
        for (auto c : n->Childs) hs.push_back(c->Contour);
        run_lh(out, n->Contour, hs);
    }
}

// synthetic contour + holes (not through Clipper): rectilinear and slanted contours with holes whose
// minimum points line up with contour vertices / horizontal edges
static void lh_synthetic(Out& out, Rng& g) {
    int64_t W = g.range(20, 200), Hh = g.range(20, 200);
    IPoly c;
    switch (g.below(4)) {
        case 0: c = g_rect(0, 0, W, Hh); break;
        case 1: c = g_convex(g, W / 2, Hh / 2, std::max(W, Hh), 3 + (int)g.below(9)); break;
        case 2: c = g_comb(g, -3, -3, 2 + (int)g.below(4), W / 4 + 2, 3, Hh + 6, 10); break;
        default: c = g_saw(g, -2, -2, 2 + (int)g.below(5), W / 2 + 2, Hh + 4, 7);
    }
    if (c.size() < 3) return;
    // Clipper outer contours are counter-clockwise
    i128 a2 = 0;
    for (size_t i = 0; i < c.size(); i++) a2 += (i128)c[i].first * c[(i + 1) % c.size()].second - (i128)c[(i + 1) % c.size()].first * c[i].second;
    if (a2 < 0) std::reverse(c.begin(), c.end());
    std::rotate(c.begin(), c.begin() + (long)g.below(c.size()), c.end());
    ClipperLib::Path cp;
    for (auto& v : c) cp.push_back(ClipperLib::IntPoint(v.first, v.second));
    std::vector<ClipperLib::Path> hs;
    int k = 1 + (int)g.below(g.chance(10) ? 20 : 4);
    for (int i = 0; i < k; i++) {
        int64_t x = g.range(1, std::max<int64_t>(2, W - 8)), y = g.range(1, std::max<int64_t>(2, Hh - 8));
        if (g.chance(30) && !c.empty()) y = c[g.below(c.size())].second;  // line up with a contour vertex
        IPoly h;
        switch (g.below(3)) {
            case 0: h = g_rect(x, y, g.range(1, 5), g.range(1, 5)); break;
            case 1: h = IPoly{{x, y}, {x + g.range(1, 6), y + g.range(-3, 3)}, {x + g.range(0, 4), y + g.range(1, 6)}}; break;
            default: h = g_convex(g, x + 4, y + 4, 4, 3 + (int)g.below(5));
        }
        if (h.size() < 3) continue;
        std::reverse(h.begin(), h.end());
        std::rotate(h.begin(), h.begin() + (long)g.below(h.size()), h.end());
        ClipperLib::Path hp;
        for (auto& v : h) hp.push_back(ClipperLib::IntPoint(v.first, v.second));
        hs.push_back(hp);
    }
    out.count("lh:synthetic");
    run_lh(out, cp, hs);
}

// ---------------------------------------------------------------- the Boolean property
static void run_bool(Out& out, Rng& g, const DGroup& A, const DGroup& B, int64_t S, const std::string& scenario, bool with_lh) {
    Array<Polygon*> a = {}, b = {}, empty = {};
    fill_array(A, a);
    fill_array(B, b);
    DGroup R[6];
    bool err = false;
    {
        Frame f0;
        f0.S = S;
        frame_add(f0, A);
        frame_add(f0, B);
        guard_begin(out, "bool", "S " + hex_u64((uint64_t)S) + " K " + std::to_string(f0.K) + " A " + ser_group(A, f0) + " B " + ser_group(B, f0), "c05-boolean-crash");
    }
    for (int i = 0; i < 6; i++) {
        Array<Polygon*> r = {};
        ErrorCode e;
        if (i < 4) e = boolean(a, b, OPS[i], (double)S, r);
        else e = boolean(i == 4 ? a : b, empty, Operation::Or, (double)S, r);
        if (e != ErrorCode::NoError) err = true;
        R[i] = to_dgroup(r);
        free_array(r);
    }
    guard_end();
    Frame f;
    f.S = S;
    frame_add(f, A);
    frame_add(f, B);
    for (int i = 0; i < 6; i++) frame_add(f, R[i]);
    std::vector<const DGroup*> all{&A, &B, &R[0], &R[1], &R[2], &R[3]};
    int lat = f.K > 8 ? 6 : (g_thorough ? 14 : 10);
    std::vector<FPt> pts = gen_samples(g, all, f, lat, f.K > 8 ? 20 : 50, f.K > 8 ? 40 : 120, 3.0);
    std::string payload = "S " + hex_u64((uint64_t)S) + " K " + std::to_string(f.K) + " A " + ser_group(A, f) + " B " + ser_group(B, f);
    static const char* names[6] = {"OR", "AND", "NOT", "XOR", "MA", "MB"};
    for (int i = 0; i < 6; i++) payload += std::string(" ") + names[i] + " " + ser_group(R[i], f);
    payload += " P " + ser_points(pts);
    std::string id = out.add("bool", payload);
    out.count("bool:scenario:" + scenario);
    out.count("bool:scaling:" + std::to_string(S));
    out.count(f.K == 0 ? "bool:frame:grid" : (f.K <= 8 ? "bool:frame:dyadic" : "bool:frame:decimal"));
    size_t nv = 0, nholes = 0;
    for (int i = 0; i < 4; i++)
        for (auto& p : R[i]) nv += p.size();
    out.count("bool:result-vertices", (long)nv);
    out.count("bool:samples", (long)pts.size());
    (void)nholes;
    if (!f.ok) {
        out.I(id, "inexact");
        out.P(id, "FAIL c05-inexact result vertex is not a finite dyadic value on the frame");
    } else {
        out.I(id, "ok");
        if (err) out.P(id, "FAIL c05-boolean-error boolean() returned an error code (hole could not be linked)");
    }
    // feed keyhole-like results back in later
    for (int i = 0; i < 4; i++)
        for (auto& p : R[i])
            if (p.size() >= 9 && p.size() <= 80) {
                auto& pool = pools.keyholes[S];
                if (pool.size() < 64) pool.push_back(p);
                else pool[g.below(64)] = p;
            }
    if (with_lh)
        for (int i = 0; i < 4; i++) lh_from_clipper(out, a, b, (double)S, i);
    free_array(a);
    free_array(b);
}

static IPoly random_shape(Rng& g, int64_t span) {
    for (int tries = 0; tries < 50; tries++) {
        IPoly p;
        int64_t x = g.range(0, span), y = g.range(0, span);
        int64_t sz = std::max<int64_t>(2, g.range(span / 8 + 1, span / 2 + 2));
        switch (g.below(8)) {
            case 0:
            case 1: p = g_rect(x, y, g.range(1, sz), g.range(1, sz)); break;
            case 2: p = g_convex(g, x, y, sz, 3 + (int)g.below(10)); break;
            case 3: p = g_star(g, x, y, std::max<int64_t>(1, sz / 3), sz, 5 + (int)g.below(12)); break;
            case 4: p = IPoly{{x, y}, {x + g.range(1, sz), y + g.range(-sz, sz)}, {x + g.range(-sz, sz), y + g.range(1, sz)}}; break;
            case 5: p = g_stairs(g, x, y, 1 + (int)g.below(5), std::max<int64_t>(1, sz / 4)); break;
            case 6: p = g_comb(g, x, y, 1 + (int)g.below(4), std::max<int64_t>(1, sz / 6), std::max<int64_t>(1, sz / 6), std::max<int64_t>(1, sz / 4), std::max<int64_t>(1, sz / 3)); break;
            default: p = g_saw(g, x, y, 1 + (int)g.below(4), std::max<int64_t>(2, sz / 3), std::max<int64_t>(1, sz / 4), std::max<int64_t>(1, sz / 4));
        }
        if (p.size() >= 3 && is_simple(p)) {
            random_orient(g, p);
            return p;
        }
    }
    IPoly p = g_rect(0, 0, 3, 3);
    return p;
}

static void gen_pair(Out& out, Rng& g, bool with_lh) {
    int64_t S = 1;
    int sub = 0;
    int sc = (int)g.below(100);
    if (sc < 70) S = 1;
    else if (sc < 92) {
        S = 2;
        if (g.chance(30)) sub = g.coin() ? 1 : -1;  // quarter-unit coordinates: rounded by polygon_to_path
    } else S = 1000;
    static const int64_t SPANS[5] = {12, 60, 1000, 40000, 1 << 20};
    int64_t span = SPANS[g.below(S == 1000 ? 3 : 5)];
    // beyond Clipper's loRange (2^30 - 1 after scaling) the slope comparisons switch to 128-bit arithmetic
    if (S == 1 && sub == 0 && g.chance(8)) span = (int64_t)1 << (31 + (int)g.below(3));
    // ... and it must do so for each of the four directions on its own: a layout that is large in one direction only
    int lopsided = 0;  // 1..4: +x, -x, +y, -y
    if (S == 1 && sub == 0 && span <= (1 << 20) && g.chance(8)) {
        lopsided = 1 + (int)g.below(4);
        span = 1 << 20;
    }
    std::vector<IPoly> ia, ib;
    std::string scen;
    auto& pool = pools.keyholes[S];
    switch (g.below(10)) {
        case 9: {
            // rectangles with integer corners on a tiny grid: many coincident / collinear edges, full-height inclusions, notches
            // whose mouth lies on a straight edge of the result (Clipper joins the collinear edges across the mouth)
            scen = "grid-rectangles";
            if (g.coin()) {
                // structured: a strip, a cell spanning the strip's full height, a block sharing the strip's far edge over the cell
                int64_t h = g.range(1, 2), x0 = g.range(0, 2), len = g.range(4, 7), y0 = g.range(2, 4);
                int64_t ca = x0 + g.range(1, len - 2), cb = ca + g.range(1, std::max<int64_t>(1, x0 + len - 1 - ca));
                std::vector<IPoly> strip{g_rect(x0, y0, len, h)};
                std::vector<IPoly> other{g_rect(ca, y0, cb - ca, h), g_rect(std::min<int64_t>(ca - g.range(0, 2), ca), y0 + h, g.range(cb - ca, len), g.range(1, 3))};
                if (g.coin()) other.push_back(g_rect(g.range(0, 2), g.range(0, 2), g.range(1, 3), g.range(1, 5)));
                if (g.coin()) strip.push_back(g_rect(x0, y0 + h, g.range(1, len), g.range(1, 2)));  // abutting second rectangle
                int tr = (int)g.below(8);  // one of the 8 symmetries of the square
                auto sym = [&](IPoly& q) {
                    for (auto& v : q) {
                        int64_t x = v.first, y = v.second;
                        if (tr & 1) x = 9 - x;
                        if (tr & 2) y = 9 - y;
                        if (tr & 4) std::swap(x, y);
                        v.first = x;
                        v.second = y;
                    }
                };
                for (auto& q : strip) { sym(q); random_orient(g, q); }
                for (auto& q : other) { sym(q); random_orient(g, q); }
                ia = strip;
                ib = other;
                if (g.coin()) std::swap(ia, ib);
            } else {
                int64_t G = g.range(5, 8);
                int na = 1 + (int)g.below(4), nb = 1 + (int)g.below(4);
                auto rr = [&]() {
                    int64_t x = g.range(0, G - 1), y = g.range(0, G - 1);
                    IPoly q = g_rect(x, y, g.range(1, G - x), g.range(1, G - y));
                    random_orient(g, q);
                    return q;
                };
                for (int i = 0; i < na; i++) ia.push_back(rr());
                for (int i = 0; i < nb; i++) ib.push_back(rr());
            }
            // cells of 8 x 8 database units: a wrong cell is far wider than the one-unit guard band of the oracle
            for (auto& q : ia) for (auto& v : q) { v.first *= 8; v.second *= 8; }
            for (auto& q : ib) for (auto& v : q) { v.first *= 8; v.second *= 8; }
            span = 96;
            lopsided = 0;
        } break;
        case 8: {
            // three nesting levels in the result (outer contour -> hole -> island): a ring given as ONE polygon whose
            // hole hangs on a zero-width slit, and a small island inside the hole
            scen = "island-in-hole";
            int64_t w = g.range(12, span / 2 + 16);
            int64_t hx0 = w / 4, hy0 = w / 4 + g.range(0, 2), hx1 = w - w / 4, hy1 = w - w / 4;
            IPoly ring = {{0, 0}, {w, 0}, {w, w}, {0, w}, {0, 0}, {hx0, hy0}, {hx0, hy1}, {hx1, hy1}, {hx1, hy0}, {hx0, hy0}};
            int64_t ix0 = hx0 + std::max<int64_t>(1, w / 8), iy0 = hy0 + std::max<int64_t>(1, w / 8);
            IPoly isl = g_rect(ix0, iy0, std::max<int64_t>(1, w / 6), std::max<int64_t>(1, w / 7));
            random_orient(g, isl);
            switch (g.below(3)) {
                case 0:  // ring | island  (OR keeps both; NOT / XOR too)
                    ia.push_back(ring);
                    ib.push_back(isl);
                    break;
                case 1: {  // big square NOT (slit polygon covering the hole area minus the island)
                    IPoly cover = {{hx0, hy0}, {hx1, hy0}, {hx1, hy1}, {hx0, hy1}, {hx0, hy0}, {ix0, iy0},
                                   {ix0, iy0 + std::max<int64_t>(1, w / 7)}, {ix0 + std::max<int64_t>(1, w / 6), iy0 + std::max<int64_t>(1, w / 7)},
                                   {ix0 + std::max<int64_t>(1, w / 6), iy0}, {ix0, iy0}};
                    ia.push_back(g_rect(0, 0, w, w));
                    ib.push_back(cover);
                } break;
                default:  // both on the same side, other operand far away or overlapping the wall
                    ia.push_back(ring);
                    ia.push_back(isl);
                    ib.push_back(g_rect(-3, w / 2, 5, 2));
            }
            if (g.coin()) std::swap(ia, ib);
        } break;
        case 0:
        case 1: {
            scen = "overlap";
            int na = 1 + (int)g.below(3), nb = 1 + (int)g.below(3);
            for (int i = 0; i < na; i++) ia.push_back(random_shape(g, span));
            for (int i = 0; i < nb; i++) ib.push_back(random_shape(g, span));
        } break;
        case 2: {
            scen = "touching";
            int64_t w = g.range(2, span / 2 + 2), h = g.range(2, span / 2 + 2);
            IPoly r1 = g_rect(0, 0, w, h);
            IPoly r2;
            switch (g.below(4)) {
                case 0: r2 = g_rect(w, 0, g.range(1, w), h); break;                       // full common edge
                case 1: r2 = g_rect(w, g.range(0, h - 1), g.range(1, w), g.range(1, h)); break;  // partial edge
                case 2: r2 = g_rect(w, h, g.range(1, w), g.range(1, h)); break;           // common corner only
                default: r2 = IPoly{{w, 0}, {w + g.range(1, w), g.range(0, h)}, {w, h}};  // triangle on the edge
            }
            random_orient(g, r1);
            random_orient(g, r2);
            ia.push_back(r1);
            ib.push_back(r2);
            if (g.coin()) ib.push_back(random_shape(g, span));
        } break;
        case 3: {
            scen = "nested";
            int64_t w = g.range(6, span / 2 + 8);
            IPoly o = g.coin() ? g_rect(0, 0, w, w) : g_convex(g, w / 2, w / 2, w, 6 + (int)g.below(6));
            IPoly in = g_rect(w / 3, w / 3, std::max<int64_t>(1, w / 4), std::max<int64_t>(1, w / 5));
            if (!is_simple(o)) o = g_rect(0, 0, w, w);
            random_orient(g, o);
            random_orient(g, in);
            ia.push_back(o);
            ib.push_back(in);
            if (g.coin()) {  // an island inside the inner one on the A side
                IPoly isl = g_rect(w / 3 + 1, w / 3 + 1, std::max<int64_t>(1, w / 8), std::max<int64_t>(1, w / 10));
                ia.push_back(isl);
            }
            if (g.coin()) std::swap(ia, ib);
        } break;
        case 4: {
            scen = "shared-vertices-edges";
            IPoly base = random_shape(g, span);
            ia.push_back(base);
            IPoly other = base;
            switch (g.below(4)) {
                case 0: std::reverse(other.begin(), other.end()); break;  // same polygon, other orientation
                case 1:
                    if (other.size() > 3) other.erase(other.begin() + (long)g.below(other.size()));  // drop one vertex
                    break;
                case 2: {  // move one vertex
                    size_t i = g.below(other.size());
                    other[i].first += g.range(-3, 3);
                    other[i].second += g.range(-3, 3);
                } break;
                default: {  // triangle over one edge of base
                    size_t i = g.below(base.size());
                    IPt a = base[i], b = base[(i + 1) % base.size()];
                    other = IPoly{a, b, {a.first + g.range(-5, 5), a.second + g.range(-5, 5)}};
                }
            }
            if (other.size() < 3 || !is_simple(other)) other = base;
            ib.push_back(other);
        } break;
        case 5: {
            scen = "keyhole-feedback";
            ib.push_back(random_shape(g, span));
        } break;
        case 6: {
            scen = "overlap-within-group";
            IPoly c0 = random_shape(g, span);
            ia.push_back(c0);
            IPoly c1 = c0;
            for (auto& v : c1) {
                v.first += std::max<int64_t>(1, span / 16);
                v.second += std::max<int64_t>(1, span / 20);
            }
            ia.push_back(c1);
            ia.push_back(random_shape(g, span));
            ib.push_back(random_shape(g, span));
            ib.push_back(random_shape(g, span));
        } break;
        default: {
            scen = g.coin() ? "empty-operand" : "many-small";
            if (scen == "empty-operand") {
                ia.push_back(random_shape(g, span));
                if (g.coin()) std::swap(ia, ib);
            } else {
                for (int i = 0; i < 6; i++) ia.push_back(random_shape(g, 14));
                for (int i = 0; i < 6; i++) ib.push_back(random_shape(g, 14));
            }
        }
    }
    if (lopsided) {
        // the short axis stays within 2^29 (below loRange), the long one is stretched by 2^14 and shifted so that it reaches 2^35 on one side only: products of edge deltas exceed 64 bits
        auto stretch = [&](IPoly& p) {
            for (auto& v : p) {
                int64_t& lng = lopsided <= 2 ? v.first : v.second;
                int64_t& sht = lopsided <= 2 ? v.second : v.first;
                sht *= 512;
                lng = lng * 16384 + ((int64_t)1 << 34);
                if (lopsided == 2 || lopsided == 4) lng = -lng;
            }
        };
        for (auto& p : ia) stretch(p);
        for (auto& p : ib) stretch(p);
        scen += "+lopsided";
    }
    DGroup A, B;
    for (auto& p : ia) A.push_back(to_double(p, (double)S, sub));
    for (auto& p : ib) B.push_back(to_double(p, (double)S, sub));
    if (scen == "keyhole-feedback") {
        if (!pool.empty()) A.push_back(pool[g.below(pool.size())]);
        else A.push_back(to_double(random_shape(g, span), (double)S, sub));
        if (g.chance(30) && !pool.empty()) B.push_back(pool[g.below(pool.size())]);
    }
    // a polygon that collapses on the rounding grid (both long edges round to the same grid line): Clipper rejects such a path;
    // the polygons that FOLLOW it in the same group must still take part in the operation
    if (S != 1000 && !lopsided && g.chance(8)) {
        double x0 = (double)g.range(-4, 12), y0 = (double)g.range(-4, 12), w = (double)g.range(3, 30);
        DPoly sl = {Vec2{x0 / S, (y0 + 0.125) / S}, Vec2{(x0 + w) / S, (y0 + 0.125) / S}, Vec2{(x0 + w) / S, (y0 + 0.375) / S}, Vec2{x0 / S, (y0 + 0.375) / S}};
        if (g.coin()) std::swap(sl[1], sl[3]);
        DGroup& G = (g.coin() && !B.empty()) || A.empty() ? B : A;
        if (!G.empty()) {
            G.insert(G.begin() + (long)g.below(G.size()), sl);   // anywhere but last
            scen += "+collapsing-sliver";
        }
    }
    run_bool(out, g, A, B, S, scen + (sub ? "+offgrid" : ""), with_lh);
}

// a box that is 2^30 wide and 2^34 long in ONE direction, with a nearly axis-parallel short side, against a small square: products of
// its edge deltas are exact multiples of 2^64, so 64-bit slope tests (instead of Clipper's 128-bit ones) see genuine corners as collinear
static void gen_lopsided_box(Out& out, Rng& g, int dir) {
    const int64_t Bx = (int64_t)1 << 29, H = (int64_t)1 << 34;
    IPoly a = {{-Bx, -H}, {Bx, -H}, {Bx, -(int64_t)g.range(1, 9)}, {-Bx, 0}};  // long towards -y
    IPoly b = g_rect(-100, 10, 200, 10);
    auto turn = [&](IPoly& p) {
        for (auto& v : p) {
            int64_t x = v.first, y = v.second;
            switch (dir) {
                case 0: break;                                  // -y
                case 1: v.first = x; v.second = -y; break;      // +y
                case 2: v.first = y; v.second = x; break;       // -x
                default: v.first = -y; v.second = x; break;     // +x
            }
        }
    };
    turn(a);
    turn(b);
    DGroup A{to_double(a, 1.0, 0)}, B{to_double(b, 1.0, 0)};
    run_bool(out, g, A, B, 1, "lopsided-box", false);
}

// ---------------------------------------------------------------- replay / corpus
static bool parse_i128(const char*& s, i128& v) {
    while (*s == ' ') s++;
    if (!*s) return false;
    bool neg = *s == '-';
    if (neg) s++;
    i128 r = 0;
    int n = 0;
    while ((*s >= '0' && *s <= '9') || (*s >= 'a' && *s <= 'f')) {
        r = r * 16 + (*s <= '9' ? *s - '0' : *s - 'a' + 10);
        s++;
        n++;
    }
    if (!n) return false;
    v = neg ? -r : r;
    return true;
}
static bool parse_group(const char*& s, DGroup& G, int64_t S, int K) {
    i128 n;
    if (!parse_i128(s, n)) return false;
    for (i128 i = 0; i < n; i++) {
        i128 m;
        if (!parse_i128(s, m)) return false;
        DPoly p;
        for (i128 j = 0; j < m; j++) {
            i128 x, y;
            if (!parse_i128(s, x) || !parse_i128(s, y)) return false;
            long double d = (long double)S * ldexpl(1.0L, K);
            p.push_back(Vec2{(double)((long double)x / d), (double)((long double)y / d)});
        }
        G.push_back(p);
    }
    return true;
}
static void replay_bool(Out& out, Rng& g, const std::string& payload) {
    // "S s K k A <group> B <group> ..." : operands are rebuilt, everything else is recomputed
    const char* s = payload.c_str();
    i128 S, K;
    if (strncmp(s, "S ", 2) != 0) return;
    s += 2;
    if (!parse_i128(s, S)) return;
    while (*s == ' ') s++;
    if (*s != 'K') return;
    s++;
    while (*s == ' ') s++;
    K = strtol(s, (char**)&s, 10);
    while (*s == ' ') s++;
    if (*s != 'A') return;
    s++;
    DGroup A, B;
    if (!parse_group(s, A, (int64_t)S, (int)K)) return;
    while (*s == ' ') s++;
    if (*s != 'B') return;
    s++;
    if (!parse_group(s, B, (int64_t)S, (int)K)) return;
    run_bool(out, g, A, B, (int64_t)S, "replay", true);
}
// ---------------------------------------------------------------- pinned campaign on a tiny grid
// Rectangles with integer corners on a 10 x 10 grid of 8-unit cells: the class in which the vendored Clipper's hole linkage is known
// to fail on a few inputs (findings c05-boolean-error / bool-hole-as-polygon).  The campaign is generated from a FIXED stream, not
// from the run's seed, so that its inputs can be named: known_findings.json lists the indices that fail on the recorded tree, and a
// failure on ANY other index is reported.  Oracle (exact, independent of the library): membership of every cell centre in A op B
// from the rectangles themselves versus coverage by the returned polygons (crossing number; centres are 4 units from every edge).
typedef std::array<int64_t, 4> GRect;  // x0 y0 x1 y1 in cells
static bool grid_in(const std::vector<GRect>& G, int i, int j) {
    for (auto& r : G)
        if (i >= r[0] && i < r[2] && j >= r[1] && j < r[3]) return true;
    return false;
}
static bool poly_covers(const Polygon* p, double x, double y) {
    bool in = false;
    uint64_t n = p->point_array.count;
    for (uint64_t i = 0, j = n - 1; i < n; j = i++) {
        Vec2 a = p->point_array[i], b = p->point_array[j];
        if ((a.y > y) != (b.y > y) && x < (b.x - a.x) * (y - a.y) / (b.y - a.y) + a.x) in = !in;
    }
    return in;
}
static std::vector<GRect> pinned_group(Rng& pg, int n, int64_t G) {
    std::vector<GRect> v;
    for (int i = 0; i < n; i++) {
        int64_t x = pg.range(0, G - 1), y = pg.range(0, G - 1);
        v.push_back(GRect{{x, y, x + pg.range(1, G - x), y + pg.range(1, G - y)}});
    }
    return v;
}
static void pinned_pair(Rng& pg, std::vector<GRect>& A, std::vector<GRect>& B) {
    if (pg.below(3) == 0) {
        // a strip, a cell spanning its full height, a block sharing the strip's far edge over the cell (+ optional extras)
        int64_t h = pg.range(1, 2), x0 = pg.range(0, 2), len = pg.range(4, 7), y0 = pg.range(2, 4);
        int64_t ca = x0 + pg.range(1, len - 2), cb = std::min<int64_t>(x0 + len - 1, ca + pg.range(1, 2));
        if (cb <= ca) cb = ca + 1;
        A = {GRect{{x0, y0, x0 + len, y0 + h}}};
        int64_t bx = std::max<int64_t>(0, ca - pg.range(0, 2));
        B = {GRect{{ca, y0, cb, y0 + h}}, GRect{{bx, y0 + h, std::min<int64_t>(10, bx + pg.range(cb - ca, len)), std::min<int64_t>(10, y0 + h + pg.range(1, 3))}}};
        if (pg.coin()) B.push_back(pinned_group(pg, 1, 8)[0]);
        if (pg.coin()) A.push_back(GRect{{x0, y0 + h, x0 + pg.range(1, len), std::min<int64_t>(10, y0 + h + pg.range(1, 2))}});
        int tr = (int)pg.below(8);
        auto sym = [&](GRect& r) {
            int64_t x0_ = r[0], y0_ = r[1], x1_ = r[2], y1_ = r[3];
            if (tr & 1) { int64_t t = 10 - x1_; x1_ = 10 - x0_; x0_ = t; }
            if (tr & 2) { int64_t t = 10 - y1_; y1_ = 10 - y0_; y0_ = t; }
            if (tr & 4) { std::swap(x0_, y0_); std::swap(x1_, y1_); }
            r = GRect{{x0_, y0_, x1_, y1_}};
        };
        for (auto& r : A) sym(r);
        for (auto& r : B) sym(r);
        if (pg.coin()) std::swap(A, B);
    } else {
        int64_t G = pg.range(5, 8);
        A = pinned_group(pg, 1 + (int)pg.below(4), G);
        B = pinned_group(pg, 1 + (int)pg.below(4), G);
    }
}
static std::string ser_grects(const std::vector<GRect>& v) {
    std::string s = hex_u64(v.size());
    for (auto& r : v)
        for (int k = 0; k < 4; k++) s += " " + hex_i64(r[k]);
    return s;
}
static void run_pinned(Out& out, long idx, const std::vector<GRect>& A, const std::vector<GRect>& B) {
    auto mk = [](const std::vector<GRect>& G, Array<Polygon*>& arr) {
        for (auto& r : G) {
            DPoly p = {Vec2{8.0 * r[0], 8.0 * r[1]}, Vec2{8.0 * r[2], 8.0 * r[1]}, Vec2{8.0 * r[2], 8.0 * r[3]}, Vec2{8.0 * r[0], 8.0 * r[3]}};
            arr.append(make_polygon(p));
        }
    };
    Array<Polygon*> a = {}, b = {};
    mk(A, a);
    mk(B, b);
    std::string payload = std::to_string(idx) + " A " + ser_grects(A) + " B " + ser_grects(B);
    guard_begin(out, "pin", payload, "c05-boolean-crash");
    static const char* names[4] = {"OR", "AND", "NOT", "XOR"};
    std::string bad;
    for (int op = 0; op < 4; op++) {
        Array<Polygon*> r = {};
        ErrorCode e = boolean(a, b, OPS[op], 1.0, r);
        int wrong = 0, wi = -1, wj = -1;
        for (int i = 0; i < 10; i++)
            for (int j = 0; j < 10; j++) {
                bool ina = grid_in(A, i, j), inb = grid_in(B, i, j);
                bool want = op == 0 ? (ina || inb) : op == 1 ? (ina && inb) : op == 2 ? (ina && !inb) : (ina != inb);
                bool got = false;
                for (uint64_t k = 0; k < r.count && !got; k++) got = poly_covers(r[k], 8.0 * i + 4, 8.0 * j + 4);
                if (want != got) {
                    if (!wrong) { wi = i; wj = j; }
                    wrong++;
                }
            }
        if (e != ErrorCode::NoError || wrong) {
            char buf[160];
            snprintf(buf, sizeof buf, " %s: error_code=%d wrong_cells=%d first=(%d,%d)", names[op], (int)e, wrong, wi, wj);
            bad += buf;
        }
        free_array(r);
    }
    guard_end();
    std::string id = out.add("pin", payload);
    out.count("pin:pairs");
    out.I(id, "ok");
    if (!bad.empty()) {
        out.count("pin:failing");
        out.P(id, "FAIL c05-grid#" + std::to_string(idx) + " boolean() on integer rectangles (8-unit cells): cell centres covered differ from A op B -" + bad);
    }
    free_array(a);
    free_array(b);
}
static void pinned_campaign(Out& out) {
    Rng pg(0xC05C05C05ULL);
    const long N = 40000;  // the same inputs in both tiers: their indices are what known_findings.json refers to
    for (long i = 0; i < N; i++) {
        std::vector<GRect> A, B;
        pinned_pair(pg, A, B);
        run_pinned(out, i, A, B);
    }
}
static void replay_pinned(Out& out, const std::string& payload) {
    // "<idx> A n x0 y0 x1 y1 ... B n ..."
    const char* s = payload.c_str();
    long idx = strtol(s, (char**)&s, 10);
    std::vector<GRect> G[2];
    for (int w = 0; w < 2; w++) {
        while (*s == ' ') s++;
        if (*s != (w ? 'B' : 'A')) return;
        s++;
        i128 n;
        if (!parse_i128(s, n)) return;
        for (i128 k = 0; k < n; k++) {
            i128 v[4];
            for (int q = 0; q < 4; q++)
                if (!parse_i128(s, v[q])) return;
            G[w].push_back(GRect{{(int64_t)v[0], (int64_t)v[1], (int64_t)v[2], (int64_t)v[3]}});
        }
    }
    run_pinned(out, idx, G[0], G[1]);
}

static void run_case(Out& out, Rng& g, const std::string& kind, const std::string& payload) {
    if (kind == "pin") { replay_pinned(out, payload); return; }
    if (kind == "lh") replay_lh(out, payload);
    else if (kind == "bool" || kind == "bool-crash") replay_bool(out, g, payload);
}

int main(int argc, char** argv) {
    if (argc < 4) {
        fprintf(stderr, "usage: c05_boolean seed tier outdir [corpus] [replay]\n");
        return 2;
    }
    uint64_t seed = strtoull(argv[1], NULL, 10);
    g_thorough = strcmp(argv[2], "thorough") == 0;
    set_error_logger(NULL);
    Out out;
    out.open(argv[3]);
    Rng g(seed);
    if (argc > 5) {
        std::string k, p;
        if (load_replay(argv[5], k, p)) run_case(out, g, k, p);
        out.close();
        return 0;
    }
    for (auto& c : load_corpus(argc > 4 ? argv[4] : NULL)) run_case(out, g, c.first, c.second);
    pinned_campaign(out);
    long N = g_thorough ? 8000 : 260;
    for (int dir = 0; dir < 4; dir++) gen_lopsided_box(out, g, dir);
    for (long i = 0; i < N; i++) {
        gen_pair(out, g, true);
        if (i % 2 == 0) lh_synthetic(out, g);
    }
    out.close();
    return 0;
}
