// C08 harness: RobustPath sections, queries, outline region, commands(), PATH records.
//
// One forked child (alarm) per generated path / probe.  Records printed by the child become cases:
//   query   : position / gradient / width / offset (and SubPath::eval / gradient outside [0,1]) at
//             dyadic parameters on polynomial sections with small dyadic control points, where double
//             arithmetic is exact: I = hex doubles, the extracted model (PathBook.v) answers M
//   fd      : queries at random parameters on all section kinds against the section formulas in long
//             double and against finite differences; adjacent sections meet; spine() (P-lines)
//   region  : to_polygons outline against the centre curve sampled here in long double
//             (exact oracle: S ok | bad, harness I ok), tolerance multiple 4
//   commands: commands() against the same path built by direct calls (F16)
//   gds/oas : simple path saved as PATH record and read back (F14)
//   probe   : intersection search with small max_evals (hang candidate), max_evals = 1
// Path indices >= 1000000 (NEW_BASE) are the user-function cases; the indices below keep their generator streams:
//   class 0/1 (index mod 6): random path as above whose calls take, for a share of the sections, Parametric width / offset
//             interpolations (user functions: exact linear ramp, exact smooth step, quadratic a + b u^2) and whose straight
//             caps are realised, for a share of the elements, through EndType::Function; `construct`, `fd` (queries also
//             against the ARGUMENTS of the calls, evaluated here in long double, both sides of every junction), `region`,
//             `cont` (NULL width / offset continues with the constant the previous interpolation takes at u = 1), `endfn`
//             (callback arguments / order of its points in the outline), `pscale` (class 1: scale / transform with
//             scale_width on / off: widths, offsets, positions and centre curve before and after)
//   class 2/5: `cont`, one case per construction wrapper (13) after a Linear / Smooth / Parametric taper
//   class 3 : `ptwin` (user linear ramp / smooth step against the built-in Linear / Smooth on the same path: queries and
//             outlines bit for bit: the user functions evaluate the same expressions as LERP / SERP), `gtwin` (parametric
//             sections with against without a gradient function under width / offset changes)
//   class 4 : `endfn` (callback returning 1..6 points, every element, both ends) and `endtwin` (callback reproducing the
//             Flush / HalfWidth / Extended caps against the built-in caps)
// Payloads start with g=<seed>:<index>; a replay regenerates exactly that path.
// Grid: doubles are multiplied by 2^30 (exact) and rounded to the nearest integer (error <= 2^-31 per coordinate,
// five orders of magnitude below the guard bands, which are multiples of the path tolerance >= 1e-3).
// Debug aids: C08_TRACE=1 prints the sections of a replayed path to stderr; C08_NEW=<n> overrides the number of user-function indices.
#include <algorithm>
#include <cmath>
#include <gdstk/gdstk.hpp>
#include "common.hpp"

using namespace gdstk;
typedef long double ld;

static const double GRID = 1073741824.0;  // 2^30
static inline int64_t togridl(ld x) { return (int64_t)llroundl(x * (ld)GRID); }

struct V {
    ld x, y;
};
static inline V operator+(V a, V b) { return V{a.x + b.x, a.y + b.y}; }
static inline V operator-(V a, V b) { return V{a.x - b.x, a.y - b.y}; }
static inline V operator*(V a, ld k) { return V{a.x * k, a.y * k}; }
static inline ld dotl(V a, V b) { return a.x * b.x + a.y * b.y; }
static inline ld crossl(V a, V b) { return a.x * b.y - a.y * b.x; }
static inline ld lenl(V a) { return sqrtl(dotl(a, a)); }
static inline V orthol(V a) { return V{-a.y, a.x}; }
static inline V unitl(V a) {
    ld l = lenl(a);
    return l > 0 ? a * (1 / l) : a;
}
static inline V tov(Vec2 p) { return V{p.x, p.y}; }

struct Emit {
    FILE* o;
    bool mark = false;  // cases of the user-function classes are counted in stats.json
    void K(const std::string& kind, const std::string& payload) {
        fprintf(o, "K\t%s\t%s\n", kind.c_str(), payload.c_str());
        if (mark) fprintf(o, "T\tuser-function-cases\n");
    }
    void I(const std::string& s) { fprintf(o, "I\t%s\n", s.c_str()); }
    void P(const std::string& s) { fprintf(o, "P\t%s\n", s.c_str()); }
    void T(const std::string& s) { fprintf(o, "T\t%s\n", s.c_str()); }
};

static ld dist_point_seg(V p, V a, V b) {
    V d = b - a, v = p - a;
    ld L = dotl(d, d), tt = dotl(v, d);
    if (L <= 0 || tt <= 0) return lenl(v);
    if (tt >= L) return lenl(p - b);
    return fabsl(crossl(d, v)) / sqrtl(L);
}
static ld dist_point_poly(V p, const std::vector<V>& pl) {
    ld best = 1e300L;
    if (pl.size() == 1) return lenl(p - pl[0]);
    for (size_t i = 0; i + 1 < pl.size(); i++) best = std::min(best, dist_point_seg(p, pl[i], pl[i + 1]));
    return best;
}
static ld poly_dev(const std::vector<V>& p, const std::vector<V>& q) {
    ld m = 0;
    for (auto& v : p) m = std::max(m, dist_point_poly(v, q));
    for (auto& v : q) m = std::max(m, dist_point_poly(v, p));
    return m;
}
static std::string hexpts(const std::vector<V>& v) {
    std::string s;
    for (size_t i = 0; i < v.size(); i++) {
        if (i) s += " ";
        s += hex_i64(togridl(v[i].x)) + " " + hex_i64(togridl(v[i].y));
    }
    return s;
}

// ------------------------------------------------------------------ user functions for Parametric width / offset interpolations
// The arithmetic of ufn_lin / ufn_smooth is, operation for operation, that of LERP / SERP (utils.hpp), written out here (not
// through the macros): on the unchanged library a Parametric interpolation with these functions and the built-in Linear /
// Smooth interpolation return the same doubles (no contraction to fused multiply-add: -std=c++11, baseline x86-64).
enum { UK_LIN = 0, UK_SMOOTH = 1, UK_QUAD = 2 };
struct UData {
    double a, b;  // UK_LIN / UK_SMOOTH: from a (u = 0) to b (u = 1); UK_QUAD: a + b u^2
    int kind;
    uint64_t calls;
    double umin, umax;  // the parameters the library called the function with (documented: 0 <= u <= 1)
};
static UData g_udata[1024];
static int g_nudata = 0;
static inline UData* useen(void* d, double u) {
    UData* p = (UData*)d;
    if (p->calls++ == 0) p->umin = p->umax = u;
    if (!(u >= p->umin)) p->umin = u;
    if (!(u <= p->umax)) p->umax = u;
    return p;
}
static double ufn_lin(double u, void* d) {
    UData* p = useen(d, u);
    return p->a * (1 - u) + p->b * u;
}
static double ufn_smooth(double u, void* d) {
    UData* p = useen(d, u);
    return p->a + (p->b - p->a) * (3 - 2 * u) * u * u;
}
static double ufn_quad(double u, void* d) {
    UData* p = useen(d, u);
    return p->a + p->b * u * u;
}
static bool is_ufn(ParametricDouble f) { return f == ufn_lin || f == ufn_smooth || f == ufn_quad; }

// ------------------------------------------------------------------ section formulas, long double
static ld interp_l(const Interpolation& ip, ld u) {
    u = u < 0 ? 0 : (u > 1 ? 1 : u);
    switch (ip.type) {
        case InterpolationType::Constant: return ip.value;
        case InterpolationType::Linear: return (ld)ip.initial_value + ((ld)ip.final_value - (ld)ip.initial_value) * u;
        case InterpolationType::Smooth: return (ld)ip.initial_value + ((ld)ip.final_value - (ld)ip.initial_value) * (3 - 2 * u) * u * u;
        default:
            // Parametric: the harness's own functions are evaluated from their data in long double (independently of the
            // double arithmetic of the function); any other function is called with the data stored beside it
            if (is_ufn(ip.function) && ip.data) {
                const UData* p = (const UData*)ip.data;
                ld a = p->a, b = p->b;
                if (ip.function == ufn_lin) return a + (b - a) * u;
                if (ip.function == ufn_smooth) return a + (b - a) * (3 - 2 * u) * u * u;
                return a + b * u * u;
            }
            return (*ip.function)((double)u, ip.data);
    }
}
// what a construction call was given for one element (kept by the harness, never read back from the library)
struct Spec {
    int kind;     // 0 constant a; 1 Linear a -> b; 2 Smooth a -> b; 3 user linear a -> b; 4 user smooth a -> b; 5 user quadratic a + b u^2
    double a, b;
};
static ld spec_eval(const Spec& s, ld u) {
    u = u < 0 ? 0 : (u > 1 ? 1 : u);
    ld a = s.a, b = s.b;
    switch (s.kind) {
        case 0: return a;
        case 1: case 3: return a + (b - a) * u;
        case 2: case 4: return a + (b - a) * (3 - 2 * u) * u * u;
        default: return a + b * u * u;
    }
}
static ld spec_mag(const Spec& s) { return fabsl((ld)s.a) + (s.kind ? fabsl((ld)s.b) : 0); }
static const char* spec_name(int k) {
    static const char* nm[] = {"constant", "linear", "smooth", "user-linear", "user-smooth", "user-quadratic"};
    return nm[k < 0 || k > 5 ? 0 : k];
}
static Interpolation spec_make(const Spec& s) {
    Interpolation ip = {};
    if (s.kind == 0) { ip.type = InterpolationType::Constant; ip.value = s.a; }
    else if (s.kind <= 2) { ip.type = s.kind == 1 ? InterpolationType::Linear : InterpolationType::Smooth; ip.initial_value = s.a; ip.final_value = s.b; }
    else {
        UData* d = &g_udata[g_nudata++ % 1024];
        *d = UData{s.a, s.b, s.kind - 3, 0, 0, 0};
        ip.type = InterpolationType::Parametric;
        ip.function = s.kind == 3 ? ufn_lin : (s.kind == 4 ? ufn_smooth : ufn_quad);
        ip.data = d;
    }
    return ip;
}
static bool interp_same(const Interpolation& x, const Interpolation& y) {
    if (x.type != y.type) return false;
    switch (x.type) {
        case InterpolationType::Constant: return x.value == y.value;
        case InterpolationType::Parametric: return x.function == y.function && x.data == y.data;
        default: return x.initial_value == y.initial_value && x.final_value == y.final_value;
    }
}
// NULL width / offset argument: the section continues with the constant the previous interpolation takes at u = 1; the stored
// double may differ from the exact value by the roundings of one evaluation of the previous interpolation
static bool continues(const Interpolation& got, const Spec& prev, ld* want_out) {
    ld want = spec_eval(prev, 1);
    if (want_out) *want_out = want;
    return got.type == InterpolationType::Constant && fabsl((ld)got.value - want) <= 4 * 2.220446049250313e-16L * (spec_mag(prev) + fabsl(want));
}
static ld binom(int n, int k) {
    ld r = 1;
    for (int i = 1; i <= k; i++) r = r * (n - k + i) / i;
    return r;
}
// Bernstein form (not de Casteljau) of the control points
static V bern(const std::vector<V>& c, ld u) {
    int n = (int)c.size() - 1;
    V r = {0, 0};
    for (int i = 0; i <= n; i++) r = r + c[i] * (binom(n, i) * powl(1 - u, n - i) * powl(u, i));
    return r;
}
static V bern_d(const std::vector<V>& c, ld u) {
    int n = (int)c.size() - 1;
    std::vector<V> d;
    for (int i = 0; i < n; i++) d.push_back((c[i + 1] - c[i]) * (ld)n);
    return bern(d, u);
}
static std::vector<V> ctrl_of(const SubPath& s) {
    std::vector<V> c;
    switch (s.type) {
        case SubPathType::Segment: c = {tov(s.begin), tov(s.end)}; break;
        case SubPathType::Bezier2: c = {tov(s.p0), tov(s.p1), tov(s.p2)}; break;
        case SubPathType::Bezier3: c = {tov(s.p0), tov(s.p1), tov(s.p2), tov(s.p3)}; break;
        case SubPathType::Bezier:
            for (uint64_t i = 0; i < s.ctrl.count; i++) c.push_back(tov(s.ctrl[i]));
            break;
        default: break;
    }
    return c;
}
// untransformed point / derivative of a section, 0 <= u <= 1
static V sec_point(const SubPath& s, ld u) {
    if (s.type == SubPathType::Arc) {
        ld a = (ld)s.angle_i + ((ld)s.angle_f - (ld)s.angle_i) * u;
        ld x = s.radius_x * cosl(a), y = s.radius_y * sinl(a);
        return V{s.center.x + x * s.cos_rot - y * s.sin_rot, s.center.y + x * s.sin_rot + y * s.cos_rot};
    }
    if (s.type == SubPathType::Parametric) {
        Vec2 p = (*s.path_function)((double)u, s.func_data);
        return V{p.x + s.reference.x, p.y + s.reference.y};
    }
    return bern(ctrl_of(s), u);
}
static V sec_deriv(const SubPath& s, ld u) {
    if (s.type == SubPathType::Arc) {
        ld da = (ld)s.angle_f - (ld)s.angle_i;
        ld a = (ld)s.angle_i + da * u;
        ld dx = -s.radius_x * da * sinl(a), dy = s.radius_y * da * cosl(a);
        return V{dx * s.cos_rot - dy * s.sin_rot, dx * s.sin_rot + dy * s.cos_rot};
    }
    if (s.type == SubPathType::Parametric) {
        ld h = 1e-6L;
        ld u0 = u - h < 0 ? 0 : u - h, u1 = u + h > 1 ? 1 : u + h;
        return (sec_point(s, u1) - sec_point(s, u0)) * (1 / (u1 - u0));
    }
    return bern_d(ctrl_of(s), u);
}
static V apply(const double* tr, V p) { return V{p.x * tr[0] + p.y * tr[1] + tr[2], p.x * tr[3] + p.y * tr[4] + tr[5]}; }
static V apply_lin(const double* tr, V p) { return V{p.x * tr[0] + p.y * tr[1], p.x * tr[3] + p.y * tr[4]}; }

// ------------------------------------------------------------------ builder
struct ElemCfg {
    double w0, o0, w1, o1;  // initial and alternative target values
    EndType end;
    Vec2 ext;
};

struct ParamData {
    double fx, fy, lx, ly, d, e;
};
static Vec2 param_fn(double u, void* data) {
    ParamData* p = (ParamData*)data;
    double a = p->d * u, b = p->e * u * u * (3 - 2 * u);
    return Vec2{a * p->fx + b * p->lx, a * p->fy + b * p->ly};
}
static Vec2 param_grad(double u, void* data) {
    ParamData* p = (ParamData*)data;
    double a = p->d, b = p->e * 6 * u * (1 - u);
    return Vec2{a * p->fx + b * p->lx, a * p->fy + b * p->ly};
}
static ParamData g_param[64];
static int g_nparam = 0;

struct Builder {
    RobustPath rp;
    std::vector<ElemCfg> el;
    uint64_t n;
    double tol, Wmax;
    Rng* g;
    double heading;
    std::vector<double> corner;  // junction angles between consecutive sections (0 = tangent continuous)
    std::string desc;
    std::string construct_fail;  // a construction call did not store the section it was asked for
    std::vector<double> prev_w, prev_o;
    int construct_checked = 0;

    // ---- user-function cases (path indices >= NEW_BASE); param == false leaves every choice below as it was
    bool param = false;
    int twin = 0;      // 1: built-in Linear / Smooth; 2: the same path with the user linear ramp / smooth step instead
    int gradmode = 0;  // 1: parametric sections always with their gradient function; 2: never
    std::vector<std::vector<Spec>> wspec, ospec;  // [section][element]: what the call was given (NULL: constant continuing the previous value at u = 1)
    std::vector<Spec> call_w, call_o;             // the specs of the call being made
    std::vector<double> hw_end, ho_end;           // end values according to the ARGUMENTS so far
    std::string cont_fail;
    int cont_checked = 0;
    double exp_ws = 1, exp_os = 1;  // width / offset factors according to the arguments of scale / transform
    std::vector<char> capfn;        // elements whose straight cap is made by the end callback
    int side_skipped = 0, tight = -1;
    Spec mk(int k, double cur, double target) {
        if (twin == 2 && (k == 1 || k == 2)) return Spec{k + 2, cur, target};
        switch (k) {
            case 1: return Spec{1, cur, target};
            case 2: return Spec{2, cur, target};
            case 4: case 5: return Spec{5, cur, target - cur};
            case 6: return Spec{3, cur, target};
            case 7: return Spec{4, cur, target};
            default: return Spec{0, cur, 0};
        }
    }
    // as pick, with user functions; straight_off: the offset may only change linearly (sections that may make a corner)
    void pick_param(const Interpolation*& wp, const Interpolation*& op, bool straight_off) {
        wi.assign(n, Interpolation{});
        oi.assign(n, Interpolation{});
        call_w.assign(n, Spec{0, 0, 0});
        call_o.assign(n, Spec{0, 0, 0});
        int wk = (int)g->below(twin ? 4 : 8), ok = (int)g->below(twin ? 4 : 8);
        if (straight_off) {
            if (ok == 2 || ok == 7) ok = 1;
            if (ok == 4 || ok == 5) ok = 6;
        }
        for (uint64_t e = 0; e < n; e++) {
            double cw = hw_end[e], co = ho_end[e];
            double tw = fabs(cw - el[e].w0) < 1e-9 ? el[e].w1 : el[e].w0;
            double to = fabs(co - el[e].o0) < 1e-9 ? el[e].o1 : el[e].o0;
            call_w[e] = mk(wk, cw, tw);
            call_o[e] = mk(ok, co, to);
            wi[e] = spec_make(call_w[e]);
            oi[e] = spec_make(call_o[e]);
        }
        wp = wk == 0 ? NULL : wi.data();
        op = ok == 0 ? NULL : oi.data();
    }
    std::vector<Interpolation> wi, oi;
    // width / offset arguments: continuous with the current end values
    void pick(const Interpolation*& wp, const Interpolation*& op, bool no_smooth_off) {
        wi.assign(n, Interpolation{});
        oi.assign(n, Interpolation{});
        int wk = (int)g->below(4), ok = (int)g->below(4);
        if (no_smooth_off && ok == 2) ok = 1;
        for (uint64_t e = 0; e < n; e++) {
            double cw = rp.elements[e].end_width, co = rp.elements[e].end_offset;
            double tw = fabs(cw - el[e].w0) < 1e-12 ? el[e].w1 : el[e].w0;
            double to = fabs(co - el[e].o0) < 1e-12 ? el[e].o1 : el[e].o0;
            if (wk == 1) { wi[e].type = InterpolationType::Linear; wi[e].initial_value = cw; wi[e].final_value = tw; }
            else if (wk == 2) { wi[e].type = InterpolationType::Smooth; wi[e].initial_value = cw; wi[e].final_value = tw; }
            else { wi[e].type = InterpolationType::Constant; wi[e].value = cw; }
            if (ok == 1) { oi[e].type = InterpolationType::Linear; oi[e].initial_value = co; oi[e].final_value = to; }
            else if (ok == 2) { oi[e].type = InterpolationType::Smooth; oi[e].initial_value = co; oi[e].final_value = to; }
            else { oi[e].type = InterpolationType::Constant; oi[e].value = co; }
        }
        wp = wk == 0 ? NULL : wi.data();
        op = ok == 0 ? NULL : oi.data();
    }
    void update_heading() {
        if (rp.subpath_array.count == 0) return;
        const SubPath& lastsub = rp.subpath_array[rp.subpath_array.count - 1];
        Vec2 gr = lastsub.gradient(1, rp.trafo);
        // gradient twins: the same heading in both paths (without its gradient function a parametric section answers with a
        // one-sided difference)
        if (gradmode && lastsub.type == SubPathType::Parametric && lastsub.path_function == param_fn) gr = param_grad(1, lastsub.func_data);
        if (gr.length_sq() > 0) heading = atan2(gr.y, gr.x);
    }
};

// CONTINUATION oracle: section si of element el was made by a call without width (which = 0) / offset (1) argument: the
// stored interpolation is a constant, the value the previous interpolation (prev: as it was handed to the earlier call)
// takes at u = 1, and the queries behind the junction (at it, 2^-20 behind it, in the middle, at the end from below) return
// it times the accumulated scale factor
static bool cont_check(const RobustPath& rp, uint64_t n, uint64_t si, uint64_t el, int which, const Spec& prev, ld scale, const char* what, std::string& fail) {
    const Array<Interpolation>& arr = which == 0 ? rp.elements[el].width_array : rp.elements[el].offset_array;
    const char* nm = which ? "offset" : "width";
    char buf[900];
    if (arr.count <= si) {
        snprintf(buf, sizeof buf, "element %d holds %d %s interpolations, section %d asked for", (int)el, (int)arr.count, nm, (int)si);
        if (fail.empty()) fail = buf;
        return false;
    }
    const Interpolation& got = arr[si];
    ld want = 0;
    bool okc = continues(got, prev, &want);
    std::vector<double> q(n);
    double ub = (double)si;
    double us[4] = {ub, ub + 1.0 / 1048576, ub + 0.5, ub + 1};
    double res[4];
    ld lim = 1e-14L * (spec_mag(prev) + fabsl(want)) * fabsl(scale);
    bool okq = true;
    for (int i = 0; i < 4; i++) {
        if (which == 0) rp.width(us[i], i == 3, q.data());
        else rp.offset(us[i], i == 3, q.data());
        res[i] = q[el];
        if (!(fabsl(res[i] - want * scale) <= lim)) okq = false;
    }
    if (okc && okq) return true;
    snprintf(buf, sizeof buf,
             "section %d element %d made by (%s) without %s argument after a %s %s (%.17g, %.17g): stored type %d value %.17g; %s(%g) = %.17g, (%g + 2^-20) = %.17g, "
             "(%g) = %.17g, (%g from below) = %.17g; the previous interpolation ends at %.17Lg, scale factor %Lg",
             (int)si, (int)el, what, nm, spec_name(prev.kind), nm, prev.a, prev.b, (int)got.type, got.value, nm, us[0], res[0], us[0], res[1], us[2], res[2], us[3], res[3],
             want, scale);
    if (fail.empty()) fail = buf;
    return false;
}

// one construction call; straight = allowed to make a corner (only after a straight section)
static void one_call(Builder& B, bool allow_corner) {
    Rng& g = *B.g;
    RobustPath& rp = B.rp;
    double W = B.Wmax;
    const Interpolation *wp, *op;
    double h = B.heading;
    bool last_straight = rp.subpath_array.count > 0 && rp.subpath_array[rp.subpath_array.count - 1].type == SubPathType::Segment;
    if (last_straight)
        for (uint64_t e = 0; e < B.n; e++)
            if (rp.elements[e].offset_array[rp.subpath_array.count - 1].type == InterpolationType::Smooth ||
                (rp.elements[e].offset_array[rp.subpath_array.count - 1].type == InterpolationType::Parametric &&
                 rp.elements[e].offset_array[rp.subpath_array.count - 1].function != ufn_lin))
                last_straight = false;
    double turn = 0;
    int kind = (int)g.below(13);
    if (B.param && B.gradmode) {
        // gradient twins: the first call makes a parametric section; no call whose geometry continues the library's end gradient
        // (turn, smooth continuations, commands), so that the two spines are the same doubles
        if (rp.subpath_array.count == 1) kind = 11;
        else if (kind == 3) kind = 4;
        else if (kind == 6) kind = 5;
        else if (kind == 8) kind = 7;
        else if (kind == 12) kind = 0;
    }
    if ((kind == 0 || kind == 1 || kind == 2) && allow_corner && last_straight && g.chance(60)) turn = ((double)g.range(-60, 60)) * M_PI / 180;
    // a corner is only made between two sections whose centre lines are straight
    if (B.param) B.pick_param(wp, op, kind <= 2);
    else B.pick(wp, op, kind <= 2);
    B.prev_w.assign(B.n, 0.0);
    B.prev_o.assign(B.n, 0.0);
    for (uint64_t el = 0; el < B.n; el++) {
        B.prev_w[el] = rp.elements[el].end_width;
        B.prev_o[el] = rp.elements[el].end_offset;
    }
    Vec2 c = rp.end_point;
    bool rel = g.coin();
    double hh = h + turn;
    Vec2 f = Vec2{cos(hh), sin(hh)}, l = Vec2{-sin(hh), cos(hh)};
    double d = (8 + (double)g.below(5)) * W, e = ((double)g.range(-30, 30)) / 10.0 * W;
    Vec2 ref = rel ? Vec2{0, 0} : c;
    auto P = [&](double a, double s) { return ref + f * a + l * s; };
    uint64_t before = rp.subpath_array.count;
    char buf[256];
    // what the call is asked to build (independent of what it stores): control points of a polynomial section / the end point
    std::vector<Vec2> want_ctrl;
    bool smooth_ctrl = false;  // control points that involve the previous section's end gradient: compared to 1e-9, not 1e-12
    bool have_end = false;
    Vec2 want_end = {0, 0};
    auto T = [&](Vec2 p) { return rel ? c + p : p; };
    if (kind == 0) {
        rp.segment(P(d, 0), wp, op, rel);
        want_ctrl = {c, T(P(d, 0))};
        B.desc += "segment ";
    } else if (kind == 1 || kind == 2) {
        // horizontal / vertical only when the heading allows a small turn
        bool horiz = kind == 1;
        double hx = cos(h), hy = sin(h);
        double comp = horiz ? hx : hy;
        if (fabs(comp) > 0.5 && (last_straight || fabs(fabs(comp) - 1) < 1e-12) && allow_corner) {
            double sgn = comp >= 0 ? 1 : -1;
            double dd = sgn * d;
            if (horiz) rp.horizontal(rel ? dd : c.x + dd, wp, op, rel);
            else rp.vertical(rel ? dd : c.y + dd, wp, op, rel);
            want_ctrl = {c, horiz ? Vec2{c.x + dd, c.y} : Vec2{c.x, c.y + dd}};
            turn = 0;
            B.desc += horiz ? "horizontal " : "vertical ";
        } else {
            rp.segment(P(d, 0), wp, op, rel);
            want_ctrl = {c, T(P(d, 0))};
            B.desc += "segment ";
        }
    } else if (kind == 3) {
        double r = (5 + (double)g.below(5)) * W, ang = ((double)g.range(20, 100)) * M_PI / 180 * (g.coin() ? 1 : -1);
        rp.turn(r, ang, wp, op);
        {
            double a0t = h + (ang < 0 ? 0.5 * M_PI : -0.5 * M_PI);
            want_end = Vec2{c.x - r * cos(a0t) + r * cos(a0t + ang), c.y - r * sin(a0t) + r * sin(a0t + ang)};
            have_end = true;
        }
        B.desc += "turn ";
    } else if (kind == 4) {
        double r = (5 + (double)g.below(5)) * W, ang = ((double)g.range(20, 100)) * M_PI / 180 * (g.coin() ? 1 : -1);
        double a0 = h + (ang < 0 ? 0.5 * M_PI : -0.5 * M_PI);
        double ry = g.chance(30) ? r * (0.9 + 0.2 * (double)g.below(101) / 100.0) : r;
        // a circle is the same curve under any `rotation` of its axes (angles are given in the path's frame): the section, its end
        // point and what follows must not depend on it
        double rot = (ry == r && g.chance(50)) ? ((double)g.range(-300, 300)) / 100.0 : 0;
        rp.arc(r, ry, a0, a0 + ang, rot, wp, op);
        if (ry == r) {
            want_end = Vec2{c.x - r * cos(a0) + r * cos(a0 + ang), c.y - r * sin(a0) + r * sin(a0 + ang)};
            have_end = true;
        }
        B.desc += ry == r ? "arc " : "elliptical-arc ";
    } else if (kind == 5) {
        rp.cubic(P(d / 3, 0), P(2 * d / 3, e / 2), P(d, e), wp, op, rel);
        want_ctrl = {c, T(P(d / 3, 0)), T(P(2 * d / 3, e / 2)), T(P(d, e))};
        B.desc += "cubic ";
    } else if (kind == 6) {
        // smooth continuation: the implied first control point continues the end tangent of the previous section (a cubic's start
        // derivative is 3 (p1 - p0))
        Vec2 gprev = rp.subpath_array[before - 1].gradient(1, rp.trafo);
        rp.cubic_smooth(P(2 * d / 3, e / 2), P(d, e), wp, op, rel);
        want_ctrl = {c, c + gprev / 3, T(P(2 * d / 3, e / 2)), T(P(d, e))};
        smooth_ctrl = true;
        B.desc += "cubic_smooth ";
    } else if (kind == 7) {
        rp.quadratic(P(d / 2, 0), P(d, e), wp, op, rel);
        want_ctrl = {c, T(P(d / 2, 0)), T(P(d, e))};
        B.desc += "quadratic ";
    } else if (kind == 8) {
        Vec2 gprev = rp.subpath_array[before - 1].gradient(1, rp.trafo);  // a quadratic's start derivative is 2 (p1 - p0)
        rp.quadratic_smooth(P(d, e / 2), wp, op, rel);
        want_ctrl = {c, c + gprev / 2, T(P(d, e / 2))};
        smooth_ctrl = true;
        B.desc += "quadratic_smooth ";
    } else if (kind == 9) {
        std::vector<Vec2> pts = {P(d / 4, 0), P(d / 2, e / 2), P(3 * d / 4, e), P(d, e)};
        Array<Vec2> arr = {};
        arr.items = pts.data();
        arr.count = pts.size();
        rp.bezier(arr, wp, op, rel);
        want_ctrl = {c};
        for (auto& q : pts) want_ctrl.push_back(T(q));
        B.desc += "bezier ";
    } else if (kind == 10) {
        std::vector<Vec2> pts = {P(d, e / 2), P(2 * d, e)};
        Array<Vec2> arr = {};
        arr.items = pts.data();
        arr.count = pts.size();
        std::vector<double> angles(3, 0.0);
        bool cons[3] = {true, false, false};
        angles[0] = h;
        std::vector<Vec2> tension(3, Vec2{1, 1});
        // width / offset changes are not passed here: RobustPath::interpolation applies the same Interpolation to
        // every cubic piece (see the `taper` probe)
        rp.interpolation(arr, angles.data(), cons, tension.data(), 1, 1, false, NULL, NULL, rel);
        want_end = T(pts.back());
        have_end = true;
        B.desc += "interpolation ";
    } else if (kind == 11) {
        ParamData& pd = g_param[g_nparam++ % 64];
        pd = ParamData{f.x, f.y, l.x, l.y, d, e};
        bool with_grad = g.coin();
        if (B.gradmode) with_grad = B.gradmode == 1;
        rp.parametric(param_fn, &pd, with_grad ? param_grad : NULL, &pd, wp, op, true);
        B.desc += "parametric ";
    } else {
        // commands: one or two instructions (widths / offsets stay constant)
        std::vector<CurveInstruction> v;
        auto num = [&](double x) { CurveInstruction ci; ci.number = x; v.push_back(ci); };
        auto cmd = [&](char ch) { CurveInstruction ci; ci.number = 0; ci.command = ch; v.push_back(ci); };
        int t = (int)g.below(5);
        Vec2 p1 = f * (d / 3), p2 = f * (2 * d / 3) + l * (e / 2), p3 = f * d + l * e;
        if (t == 0) { cmd('l'); num(f.x * d); num(f.y * d); }
        else if (t == 1) { cmd('q'); num(p1.x * 1.5); num(p1.y * 1.5); num(p3.x); num(p3.y); }
        else if (t == 2) { cmd('s'); num(p2.x); num(p2.y); num(p3.x); num(p3.y); }
        else if (t == 3) { cmd('a'); num(6 * W); num((g.coin() ? 1 : -1) * ((double)g.range(20, 90)) * M_PI / 180); }
        else { cmd('t'); num(p3.x); num(p3.y); }
        rp.commands(v.data(), v.size());
        B.desc += "commands ";
    }
    // construction oracle, widths and offsets: every section the call appended carries, per element, the interpolation that was
    // passed (or, with no argument, the constant value the element ended with before the call)
    if (B.param) {
        // what the call handed over: interpolation() and commands() are called without width / offset here
        bool no_args = kind == 10 || kind >= 12;
        const Interpolation* pw = no_args ? NULL : wp;
        const Interpolation* po = no_args ? NULL : op;
        std::vector<Spec> last_w = B.wspec.back(), last_o = B.ospec.back();
        for (uint64_t si = before; si < rp.subpath_array.count; si++) {
            std::vector<Spec> sw(B.n), so(B.n);
            for (uint64_t el = 0; el < B.n; el++) {
                sw[el] = pw ? B.call_w[el] : Spec{0, B.hw_end[el], 0};
                so[el] = po ? B.call_o[el] : Spec{0, B.ho_end[el], 0};
                for (int which = 0; which < 2; which++) {
                    const Array<Interpolation>& arr2 = which == 0 ? rp.elements[el].width_array : rp.elements[el].offset_array;
                    const Interpolation* passed = which == 0 ? pw : po;
                    const char* nm = which ? "offset" : "width";
                    if (arr2.count != rp.subpath_array.count) {
                        snprintf(buf, sizeof buf, "element %d holds %d %s interpolations for %d sections", (int)el, (int)arr2.count, nm, (int)rp.subpath_array.count);
                        if (B.construct_fail.empty()) B.construct_fail = buf;
                        continue;
                    }
                    const Interpolation& got = arr2[si];
                    if (passed) {
                        if (!interp_same(got, passed[el]) && B.construct_fail.empty()) {
                            snprintf(buf, sizeof buf, "section %d element %d: the %s interpolation stored (type %d) is not the %s one the call (%s, last word) was given", (int)si,
                                     (int)el, nm, (int)got.type, spec_name((which ? B.call_o : B.call_w)[el].kind), B.desc.c_str());
                            B.construct_fail = buf;
                        }
                        continue;
                    }
                    B.cont_checked++;
                    cont_check(rp, B.n, si, el, which, (which ? last_o : last_w)[el], 1, B.desc.c_str(), B.cont_fail);
                }
            }
            B.wspec.push_back(sw);
            B.ospec.push_back(so);
        }
        for (uint64_t el = 0; el < B.n; el++) {
            B.hw_end[el] = (double)spec_eval(B.wspec.back()[el], 1);
            B.ho_end[el] = (double)spec_eval(B.ospec.back()[el], 1);
        }
    } else if (B.construct_fail.empty() && kind != 10 && kind < 12)
        for (uint64_t si = before; si < rp.subpath_array.count && B.construct_fail.empty(); si++)
            for (uint64_t el = 0; el < B.n && B.construct_fail.empty(); el++)
                for (int which = 0; which < 2; which++) {
                    const Array<Interpolation>& arr2 = which == 0 ? rp.elements[el].width_array : rp.elements[el].offset_array;
                    const Interpolation* passed = which == 0 ? wp : op;
                    if (arr2.count != rp.subpath_array.count) {
                        snprintf(buf, sizeof buf, "element %d holds %d %s interpolations for %d sections", (int)el, (int)arr2.count, which ? "offset" : "width", (int)rp.subpath_array.count);
                        B.construct_fail = buf;
                        break;
                    }
                    const Interpolation& got = arr2[si];
                    bool okw;
                    if (passed) {
                        const Interpolation& w0 = passed[el];
                        okw = got.type == w0.type && (w0.type == InterpolationType::Constant ? got.value == w0.value
                                                                                            : (got.initial_value == w0.initial_value && got.final_value == w0.final_value));
                    } else {
                        double prev = which == 0 ? B.prev_w[el] : B.prev_o[el];
                        okw = got.type == InterpolationType::Constant && got.value == prev;
                    }
                    if (!okw) {
                        snprintf(buf, sizeof buf, "section %d element %d: the %s interpolation stored is not the one the call (%s, last word) was given", (int)si, (int)el,
                                 which ? "offset" : "width", B.desc.c_str());
                        B.construct_fail = buf;
                    }
                }
    // construction oracle: the stored section / the new end point against the arguments of the call
    if (B.construct_fail.empty() && rp.subpath_array.count > before) {
        double sc = 1;
        for (auto& q : want_ctrl) sc = std::max(sc, std::max(fabs(q.x), fabs(q.y)));
        sc = std::max(sc, std::max(fabs(c.x), fabs(c.y)));
        if (!want_ctrl.empty()) {
            std::vector<V> got = ctrl_of(rp.subpath_array[rp.subpath_array.count - 1]);
            B.construct_checked++;
            if (got.size() != want_ctrl.size() || rp.subpath_array.count != before + 1) {
                snprintf(buf, sizeof buf, "call %d (%s): the section stored has %d control points, %d asked for", (int)before, B.desc.c_str(), (int)got.size(), (int)want_ctrl.size());
                B.construct_fail = buf;
            } else
                for (size_t i = 0; i < got.size(); i++)
                    if (fabsl(got[i].x - (ld)want_ctrl[i].x) > (smooth_ctrl ? 1e-9L : 1e-12L) * sc ||
                        fabsl(got[i].y - (ld)want_ctrl[i].y) > (smooth_ctrl ? 1e-9L : 1e-12L) * sc) {
                        snprintf(buf, sizeof buf, "control point %d of the section stored is (%.12Lg, %.12Lg), the call (%s, last word; %s) asks for (%.12g, %.12g)", (int)i,
                                 got[i].x, got[i].y, B.desc.c_str(), rel ? "relative" : "absolute", want_ctrl[i].x, want_ctrl[i].y);
                        B.construct_fail = buf;
                        break;
                    }
            want_end = want_ctrl.back();
            have_end = true;
        }
        if (have_end && B.construct_fail.empty()) {
            B.construct_checked++;
            if (fabs(rp.end_point.x - want_end.x) > 1e-9 * sc || fabs(rp.end_point.y - want_end.y) > 1e-9 * sc) {
                snprintf(buf, sizeof buf, "after the call (%s, last word; %s) the end point is (%.12g, %.12g), the call asks for (%.12g, %.12g)", B.desc.c_str(),
                         rel ? "relative" : "absolute", rp.end_point.x, rp.end_point.y, want_end.x, want_end.y);
                B.construct_fail = buf;
            }
        }
    }
    for (uint64_t i = before; i < rp.subpath_array.count; i++) B.corner.push_back(i == before ? turn : 0.0);
    B.update_heading();
}

// ------------------------------------------------------------------ centre curve of an element, long double
struct CentreCurve {
    std::vector<V> pts;
    std::vector<ld> hw;
    V t_first, t_last;
    ld theta_max = 0, slope_max = 0;
};
static V centre_at(const RobustPath& rp, const RobustPathElement& el, uint64_t s, ld u) {
    const SubPath& sub = rp.subpath_array[s];
    V p = apply(rp.trafo, sec_point(sub, u));
    V gr = apply_lin(rp.trafo, sec_deriv(sub, u));
    ld off = interp_l(el.offset_array[s], u) * rp.offset_scale;
    return p + unitl(orthol(gr)) * off;
}
static void flatten(const RobustPath& rp, const RobustPathElement& el, uint64_t s, ld u0, V p0, ld u1, V p1, ld sag, int depth,
                    std::vector<V>& out, std::vector<ld>& us) {
    ld um = (u0 + u1) / 2;
    V pm = centre_at(rp, el, s, um);
    V q1 = centre_at(rp, el, s, u0 + (u1 - u0) * 0.25L), q3 = centre_at(rp, el, s, u0 + (u1 - u0) * 0.75L);
    ld dev = std::max(dist_point_seg(pm, p0, p1), std::max(dist_point_seg(q1, p0, p1), dist_point_seg(q3, p0, p1)));
    if (dev > sag && depth < 14) {
        flatten(rp, el, s, u0, p0, um, pm, sag, depth + 1, out, us);
        flatten(rp, el, s, um, pm, u1, p1, sag, depth + 1, out, us);
    } else {
        out.push_back(p1);
        us.push_back(u1);
    }
}
// an offset that bends the centre line of a straight section (the user linear ramp does not)
static bool curved_off(const Interpolation& ip) {
    return ip.type == InterpolationType::Smooth || (ip.type == InterpolationType::Parametric && ip.function != ufn_lin);
}
static CentreCurve centre_curve(const RobustPath& rp, const RobustPathElement& el, const std::vector<double>& corner, ld sag) {
    CentreCurve C;
    uint64_t ns = rp.subpath_array.count;
    for (uint64_t s = 0; s < ns; s++) {
        std::vector<V> pts;
        std::vector<ld> us;
        V p0 = centre_at(rp, el, s, 0);
        pts.push_back(p0);
        us.push_back(0);
        const int N0 = 8;
        V prev = p0;
        for (int i = 0; i < N0; i++) {
            ld u0 = (ld)i / N0, u1 = (ld)(i + 1) / N0;
            V p1 = centre_at(rp, el, s, u1);
            flatten(rp, el, s, u0, prev, u1, p1, sag, 0, pts, us);
            prev = p1;
        }
        size_t start = 0;
        bool keep_first = false;
        if (s > 0) {
            // kink between the end of the previous centre curve and the start of this one
            V a1 = C.pts[C.pts.size() - 1], a0 = C.pts[C.pts.size() - 2];
            V t0 = unitl(a1 - a0), t1 = unitl(pts[1] - pts[0]);
            ld den = crossl(t0, t1);
            ld th = atan2l(fabsl(den), dotl(t0, t1));
            bool straight = rp.subpath_array[s - 1].type == SubPathType::Segment && rp.subpath_array[s].type == SubPathType::Segment &&
                            !curved_off(el.offset_array[s - 1]) && !curved_off(el.offset_array[s]);
            if (th > 1e-3L) {
                C.theta_max = std::max(C.theta_max, th);
                if (straight && fabsl(den) > 1e-9L) {
                    // corner between two straight sections: on the inner side the two displaced lines cross inside
                    // the sections; on the outer side SubPath::eval continues the spine straight and interp clamps the
                    // offset, so the continuations are parallel to the spines
                    ld u = crossl(pts[0] - a1, t1) / den, v = crossl(pts[0] - a1, t0) / den;
                    if (u <= 0 && v >= 0) {
                        C.pts[C.pts.size() - 1] = a1 + t0 * u;
                    } else {
                        V s0 = unitl(apply_lin(rp.trafo, sec_deriv(rp.subpath_array[s - 1], 1)));
                        V s1 = unitl(apply_lin(rp.trafo, sec_deriv(rp.subpath_array[s], 0)));
                        ld den2 = crossl(s0, s1);
                        if (fabsl(den2) > 1e-9L) {
                            ld u2 = crossl(pts[0] - a1, s1) / den2;
                            C.pts.push_back(a1 + s0 * u2);
                            C.hw.push_back(C.hw.back());
                            keep_first = true;
                        }
                    }
                } else if (lenl(pts[0] - a1) > 1e-9L) {
                    C.pts.push_back(pts[0]);  // a gap between the two centre curves is bridged by a straight piece
                    C.hw.push_back(0.5L * interp_l(el.width_array[s], 0) * rp.width_scale);
                }
            }
            start = keep_first ? 0 : 1;  // the first point coincides with (or is replaced by) the last one of the previous section
        }
        for (size_t i = start; i < pts.size(); i++) {
            C.pts.push_back(pts[i]);
            C.hw.push_back(0.5L * interp_l(el.width_array[s], us[i]) * rp.width_scale);
        }
        if (s == 0) C.hw[0] = 0.5L * interp_l(el.width_array[0], 0) * rp.width_scale;
    }
    ld h = 1e-6L;
    C.t_first = unitl(centre_at(rp, el, 0, h) - centre_at(rp, el, 0, 0));
    C.t_last = unitl(centre_at(rp, el, ns - 1, 1) - centre_at(rp, el, ns - 1, 1 - h));
    for (size_t i = 0; i + 1 < C.pts.size(); i++) {
        ld l = lenl(C.pts[i + 1] - C.pts[i]);
        if (l > 1e-9L) C.slope_max = std::max(C.slope_max, fabsl(C.hw[i + 1] - C.hw[i]) / l);
    }
    return C;
}

// precondition of the region oracle: the spine never curves tighter than twice the lateral reach of the elements (inside that
// radius the displaced curve has cusps and "within half the width of the centre curve" is ambiguous)
static bool tight_curvature(const Builder& B) {
    const RobustPath& rp = B.rp;
    for (uint64_t s = 0; s < rp.subpath_array.count; s++)
        for (int i = 0; i <= 64; i++) {
            ld u = (ld)i / 64, hh = 1e-4L;
            ld ua = u - hh < 0 ? 0 : u - hh, ub = u + hh > 1 ? 1 : u + hh;
            V d1 = sec_deriv(rp.subpath_array[s], u);
            V d2 = (sec_deriv(rp.subpath_array[s], ub) - sec_deriv(rp.subpath_array[s], ua)) * (1 / (ub - ua));
            ld sp = lenl(d1);
            if (sp <= 0) continue;
            ld kappa = fabsl(crossl(d1, d2)) / (sp * sp * sp);
            // user-function classes: Wmax has been multiplied by the factors of scale / transform, the curvature of the stored
            // section has not
            if (B.param) kappa /= sqrtl(fabsl((ld)rp.trafo[0] * rp.trafo[4] - (ld)rp.trafo[1] * rp.trafo[3]));
            if (kappa * 2 * (ld)B.Wmax > 1) return true;
        }
    return false;
}
// ------------------------------------------------------------------ region
static void region_case(Builder& B, uint64_t e, const std::string& gid, Polygon* poly, Emit& em) {
    RobustPath& rp = B.rp;
    const ElemCfg& cfg = B.el[e];
    for (uint64_t i = 0; i < poly->point_array.count; i++)
        if (!std::isfinite(poly->point_array[i].x) || !std::isfinite(poly->point_array[i].y)) {
            em.K("outline", gid + ":" + std::to_string(e));
            em.I("nan");
            em.P("FAIL robustpath-outline-nan the outline has NaN or infinite vertices (" + B.desc + ")");
            return;
        }
    ld tol = B.tol;
    if (tight_curvature(B)) {
        em.T("region-skipped-tight-curvature");
        return;
    }
    CentreCurve C = centre_curve(rp, rp.elements[e], B.corner, tol / 8);
    ld tolc = 4 * tol + 1e-6L, tolf = 4 * tol + 1e-6L;
    ld reach = (1 / cosl(C.theta_max / 2)) * (1 + C.slope_max);
    size_t m = C.pts.size();
    std::vector<ld> rc(m - 1), rf(m - 1);
    for (size_t i = 0; i + 1 < m; i++) {
        ld lo = std::min(C.hw[i], C.hw[i + 1]), hi = std::max(C.hw[i], C.hw[i + 1]);
        ld c = lo * (1 - C.slope_max) - tolc;
        rc[i] = c > 0 ? c : 0;
        rf[i] = reach * hi + tolf;
    }
    ld hw0 = C.hw[0], hw1 = C.hw[m - 1];
    ld ext0 = 0, ext1 = 0;
    bool plane_needed = true;
    bool straight_cap = cfg.end == EndType::Flush || cfg.end == EndType::HalfWidth || cfg.end == EndType::Extended;
    switch (cfg.end) {
        case EndType::Flush: break;
        case EndType::HalfWidth: ext0 = hw0; ext1 = hw1; break;
        case EndType::Extended: ext0 = cfg.ext.u; ext1 = cfg.ext.v; break;
        case EndType::Round: plane_needed = false; break;
        default: ext0 = 1.5L * hw0; ext1 = 1.5L * hw1; break;
    }
    std::vector<V> cext, ccov;
    std::vector<ld> rfe, rcc;
    ld capf = (cfg.end == EndType::Smooth ? 1.5L : 1.0L);
    if (ext0 > 0) {
        cext.push_back(C.pts[0] - C.t_first * ext0);
        rfe.push_back(capf * hw0 * (1 + C.slope_max) + tolf);
        if (straight_cap) {
            ccov.push_back(C.pts[0] - C.t_first * ext0);
            rcc.push_back(hw0 - tolc > 0 ? hw0 - tolc : 0);
        }
    }
    for (size_t i = 0; i < m; i++) {
        cext.push_back(C.pts[i]);
        ccov.push_back(C.pts[i]);
        if (i + 1 < m) {
            rfe.push_back(rf[i]);
            rcc.push_back(rc[i]);
        }
    }
    if (ext1 > 0) {
        cext.push_back(C.pts[m - 1] + C.t_last * ext1);
        rfe.push_back(capf * hw1 * (1 + C.slope_max) + tolf);
        if (straight_cap) {
            ccov.push_back(C.pts[m - 1] + C.t_last * ext1);
            rcc.push_back(hw1 - tolc > 0 ? hw1 - tolc : 0);
        }
    }
    const ld S20 = 1048576.0L;
    auto plane_str = [&](V ep, V td, ld margin) {
        int64_t mg = (int64_t)ceill(margin * (ld)GRID * S20);
        return hex_i64(togridl(ep.x)) + " " + hex_i64(togridl(ep.y)) + " " + hex_i64((int64_t)llroundl(td.x * S20)) + " " +
               hex_i64((int64_t)llroundl(td.y * S20)) + " " + hex_i64(mg);
    };
    V cap0 = C.pts[0] - C.t_first * (straight_cap ? ext0 : 0), cap1 = C.pts[m - 1] + C.t_last * (straight_cap ? ext1 : 0);
    std::string planes;
    if (plane_needed) planes = plane_str(cap0, C.t_first * (-1.0L), tolc) + " " + plane_str(cap1, C.t_last, tolc);
    std::string capstr[2];
    if (straight_cap) {
        for (int side = 0; side < 2; side++) {
            V ep = side ? cap1 : cap0;
            V td = side ? C.t_last : C.t_first * (-1.0L);
            ld clear = 2.5L * (side ? rfe.back() : rfe.front()) + (side ? ext1 : ext0);
            V endp = side ? C.pts[m - 1] : C.pts[0];
            std::vector<bool> keep(cext.size() - 1);
            for (size_t i = 0; i + 1 < cext.size(); i++) keep[i] = lenl(cext[i] - endp) > clear && lenl(cext[i + 1] - endp) > clear;
            // the dropped pieces must be one run at that end
            size_t first_keep = 0, last_keep = 0;
            bool any = false;
            for (size_t i = 0; i < keep.size(); i++)
                if (keep[i]) {
                    if (!any) first_keep = i;
                    last_keep = i;
                    any = true;
                }
            bool simple = true;
            if (any)
                for (size_t i = first_keep; i <= last_keep; i++)
                    if (!keep[i]) simple = false;
            if (any && (side == 0 ? last_keep + 1 != keep.size() : first_keep != 0)) simple = false;
            if (!simple) continue;
            std::vector<V> rest;
            std::string rr;
            if (any) {
                for (size_t i = first_keep; i <= last_keep; i++) {
                    rest.push_back(cext[i]);
                    rr += (rr.empty() ? "" : " ") + hex_i64((int64_t)floorl(rfe[i] * (ld)GRID));
                }
                rest.push_back(cext[last_keep + 1]);
            }
            capstr[side] = plane_str(ep, td, tolf) + "|" + hexpts(rest) + "|" + rr;
        }
    }
    // samples
    std::vector<V> smp;
    Rng& g = *B.g;
    auto lat = [&](size_t i, ld f, ld dist) {
        V p = C.pts[i] + (C.pts[i + 1] - C.pts[i]) * f;
        V nn = orthol(unitl(C.pts[i + 1] - C.pts[i]));
        smp.push_back(p + nn * dist);
        smp.push_back(p - nn * dist);
    };
    size_t stride = m > 8 ? (m + 6) / 7 : 1;
    for (size_t i = (m > 8 ? g.below(stride) : 0); i + 1 < m; i += stride) {
        ld f = 0.05L + 0.9L * (ld)g.below(1001) / 1000.0L;
        ld hwl = C.hw[i] + (C.hw[i + 1] - C.hw[i]) * f;
        smp.push_back(C.pts[i] + (C.pts[i + 1] - C.pts[i]) * f);
        lat(i, f, (0.2L + 0.6L * (ld)g.below(101) / 100.0L) * hwl);
        lat(i, f, 0.97L * rc[i]);
        lat(i, f, rf[i] * 1.03L);
        lat(i, f, rf[i] * 1.3L + (ld)g.below(100) / 100.0L * hwl);
    }
    for (int side = 0; side < 2; side++) {
        V ep = side ? C.pts[m - 1] : C.pts[0];
        V td = side ? C.t_last : C.t_first * (-1.0L);
        V nn = orthol(td);
        ld hwl = side ? hw1 : hw0, ex = side ? ext1 : ext0;
        ld along[5] = {-0.5L * hwl, ex * 0.5L + 0.05L * hwl, ex + 0.4L * hwl, ex + 1.15L * hwl, ex + 2.2L * hwl};
        ld lats[3] = {0.1L, 0.8L, -1.25L};
        for (ld al : along)
            for (ld lt : lats) smp.push_back(ep + td * al + nn * (lt * hwl));
    }
    {
        ld x0 = 1e300L, y0 = 1e300L, x1 = -1e300L, y1 = -1e300L;
        for (auto& p : cext) {
            x0 = std::min(x0, p.x); y0 = std::min(y0, p.y); x1 = std::max(x1, p.x); y1 = std::max(y1, p.y);
        }
        ld mg = 3 * std::max(hw0, hw1);
        for (int i = 0; i < 8; i++)
            smp.push_back(V{x0 - mg + (x1 - x0 + 2 * mg) * (ld)g.below(10001) / 10000.0L,
                            y0 - mg + (y1 - y0 + 2 * mg) * (ld)g.below(10001) / 10000.0L});
    }
    std::vector<V> outline;
    for (uint64_t i = 0; i < poly->point_array.count; i++) outline.push_back(tov(poly->point_array[i]));
    auto radii = [&](const std::vector<ld>& r) {
        std::string s;
        for (size_t i = 0; i < r.size(); i++) {
            if (i) s += " ";
            s += hex_i64((int64_t)floorl(r[i] * (ld)GRID));
        }
        return s;
    };
    std::string payload = gid + ":" + std::to_string(e) + ";band=0;O=" + hexpts(outline) + ";C=" + hexpts(ccov) + ";E=" + hexpts(cext) +
                          ";RC=" + radii(rcc) + ";RF=" + radii(rfe) + ";PL=" + planes + ";K0=" + capstr[0] + ";K1=" + capstr[1] +
                          ";S=" + hexpts(smp);
    em.K("region", payload);
    em.I("ok");
    em.T(std::string("region-end-") + end_type_name(cfg.end));
    if (C.theta_max > 1e-6L) em.T("region-with-corner");
    if (C.slope_max > 1e-9L) em.T("region-with-tapering-width");
}

// ------------------------------------------------------------------ queries against formulas and finite differences
static void fd_case(Builder& B, const std::string& gid, Emit& em) {
    RobustPath& rp = B.rp;
    Rng& g = *B.g;
    uint64_t ns = rp.subpath_array.count;
    std::string fail;
    char buf[900];
    ld scale = 1;
    for (uint64_t s = 0; s < ns; s++) scale = std::max(scale, lenl(apply(rp.trafo, sec_point(rp.subpath_array[s], 0.5L))));
    for (int it = 0; it < 24 && fail.empty(); it++) {
        uint64_t s = g.below(ns);
        ld ul = (ld)g.below(1000001) / 1000000.0L;
        if (it < 4) ul = it == 0 ? 0 : (it == 1 ? 1 : (it == 2 ? 0.5L : 0.25L));
        double u = (double)((ld)s + ul);
        bool from_below = g.coin();
        // which section the query uses
        uint64_t idx = (uint64_t)u;
        ld ulq = (ld)u - idx;
        if (u >= (double)ns) { idx = ns - 1; ulq = 1; }
        else if (from_below && ulq == 0 && idx > 0) { idx--; ulq = 1; }
        const SubPath& sub = rp.subpath_array[idx];
        V want = apply(rp.trafo, sec_point(sub, ulq));
        Vec2 got = rp.position(u, from_below);
        if (lenl(tov(got) - want) > 1e-10L * scale) {
            snprintf(buf, sizeof buf, "position(%.17g, %d) = (%.12g, %.12g), section formula gives (%.12Lg, %.12Lg)", u, (int)from_below, got.x, got.y, want.x, want.y);
            fail = std::string("FAIL robustpath-position ") + buf;
            break;
        }
        V wantg = apply_lin(rp.trafo, sec_deriv(sub, ulq));
        Vec2 gotg = rp.gradient(u, from_below);
        // without a gradient function SubPath::gradient is a one-sided difference with step 1 / (10 max_evals) at the ends
        ld gtol = sub.type == SubPathType::Parametric ? (sub.path_gradient == NULL ? 5e-3L : 1e-4L) : 1e-9L;
        if (lenl(tov(gotg) - wantg) > gtol * (1 + lenl(wantg))) {
            snprintf(buf, sizeof buf, "gradient(%.17g, %d) = (%.12g, %.12g), derivative of the section is (%.12Lg, %.12Lg)", u, (int)from_below, gotg.x, gotg.y, wantg.x, wantg.y);
            fail = std::string("FAIL robustpath-gradient ") + buf;
            break;
        }
        // finite difference of position inside the section
        if (ulq > 1e-3L && ulq < 1 - 1e-3L) {
            double hq = 1e-6;
            Vec2 pa = rp.position(u - hq, false), pb = rp.position(u + hq, false);
            V fdv = (tov(pb) - tov(pa)) * (1 / (2 * (ld)hq));
            if (lenl(fdv - tov(gotg)) > 1e-4L * (1 + lenl(wantg))) {
                snprintf(buf, sizeof buf, "gradient(%.17g) = (%.9g, %.9g), central difference of position gives (%.9Lg, %.9Lg)", u, gotg.x, gotg.y, fdv.x, fdv.y);
                fail = std::string("FAIL robustpath-gradient-fd ") + buf;
                break;
            }
        }
        std::vector<double> wv(B.n), ov(B.n);
        rp.width(u, from_below, wv.data());
        rp.offset(u, from_below, ov.data());
        for (uint64_t e = 0; e < B.n; e++) {
            ld ww = interp_l(rp.elements[e].width_array[idx], ulq) * rp.width_scale;
            ld wo = interp_l(rp.elements[e].offset_array[idx], ulq) * rp.offset_scale;
            if (fabsl(ww - wv[e]) > 1e-12L * (1 + fabsl(ww)) || fabsl(wo - ov[e]) > 1e-12L * (1 + fabsl(wo))) {
                snprintf(buf, sizeof buf, "width/offset(%.17g, %d) element %d = %.12g / %.12g, interpolation of section %d gives %.12Lg / %.12Lg", u,
                         (int)from_below, (int)e, wv[e], ov[e], (int)idx, ww, wo);
                fail = std::string("FAIL robustpath-width-offset ") + buf;
                break;
            }
        }
    }
    // user-function cases: widths / offsets against the ARGUMENTS of the construction calls (spec_eval, long double) and the
    // factors the scale / transform calls were given: both sides of every junction, both ends, random parameters
    if (B.param && fail.empty()) {
        auto chk = [&](double u, bool fb, uint64_t idx, ld ulq) {
            std::vector<double> wv(B.n), ov(B.n);
            rp.width(u, fb, wv.data());
            rp.offset(u, fb, ov.data());
            for (uint64_t e = 0; e < B.n && fail.empty(); e++) {
                ld ww = spec_eval(B.wspec[idx][e], ulq) * (ld)B.exp_ws, wo = spec_eval(B.ospec[idx][e], ulq) * (ld)B.exp_os;
                if (fabsl(ww - wv[e]) > 1e-13L * (1 + fabsl(ww)) || fabsl(wo - ov[e]) > 1e-13L * (1 + fabsl(wo))) {
                    snprintf(buf, sizeof buf,
                             "width/offset(%.17g, %d) element %d = %.15g / %.15g; the calls gave section %d a %s width (%.15g, %.15g) and a %s offset (%.15g, %.15g), "
                             "scale factors %g / %g: %.15Lg / %.15Lg",
                             u, (int)fb, (int)e, wv[e], ov[e], (int)idx, spec_name(B.wspec[idx][e].kind), B.wspec[idx][e].a, B.wspec[idx][e].b,
                             spec_name(B.ospec[idx][e].kind), B.ospec[idx][e].a, B.ospec[idx][e].b, B.exp_ws, B.exp_os, ww, wo);
                    fail = std::string("FAIL robustpath-width-offset ") + buf;
                }
            }
        };
        if (B.wspec.size() != ns || B.ospec.size() != ns) fail = "FAIL robustpath-construction the calls made a different number of sections than the harness recorded";
        for (uint64_t s = 0; s <= ns && fail.empty(); s++)
            for (int fb = 0; fb < 2 && fail.empty(); fb++) {
                if (s == ns) chk((double)s, fb, ns - 1, 1);
                else if (fb && s > 0) chk((double)s, true, s - 1, 1);
                else chk((double)s, fb, s, 0);
            }
        for (int it = 0; it < 12 && fail.empty(); it++) {
            uint64_t s = g.below(ns);
            double u = (double)s + (double)(1 + g.below(1023)) / 1024.0;
            chk(u, g.coin(), s, (ld)u - (ld)s);
        }
    }
    // adjacent sections meet
    for (uint64_t s = 1; s < ns && fail.empty(); s++) {
        Vec2 a = rp.position((double)s, true), b = rp.position((double)s, false);
        if (lenl(tov(a) - tov(b)) > 1e-9L * scale) {
            snprintf(buf, sizeof buf, "section %d ends at (%.12g, %.12g), section %d starts at (%.12g, %.12g)", (int)s - 1, a.x, a.y, (int)s, b.x, b.y);
            fail = std::string("FAIL robustpath-sections-gap ") + buf;
        }
    }
    // spine(): every vertex on the exact spine within the tolerance, and conversely (not repeated in the user-function classes:
    // widths and offsets take no part in it)
    if (fail.empty() && !B.param) {
        Array<Vec2> sp = {};
        rp.spine(sp);
        std::vector<V> got, ref;
        for (uint64_t i = 0; i < sp.count; i++) got.push_back(tov(sp[i]));
        sp.clear();
        for (uint64_t s = 0; s < ns; s++)
            for (int i = (s ? 1 : 0); i <= 200; i++) ref.push_back(apply(rp.trafo, sec_point(rp.subpath_array[s], (ld)i / 200)));
        bool cornered = false;
        for (double c : B.corner) if (fabs(c) > 1e-9) cornered = true;
        ld dev = poly_dev(got, ref);
        if (dev > 2 * (ld)B.tol + 1e-3L * (ld)B.Wmax && !cornered) {
            snprintf(buf, sizeof buf, "spine() deviates %.6Lg from the exact spine (tolerance %g)", dev, B.tol);
            fail = std::string("FAIL robustpath-spine ") + buf;
        }
    }
    em.K("fd", gid);
    em.I(fail.empty() ? "ok" : "differs");
    em.P(fail.empty() ? "ok" : fail + " [" + B.desc + "]");
}

// ------------------------------------------------------------------ PATH records
static void record_case(Builder& B, bool oas, const std::string& gid, const std::string& outdir, Emit& em) {
    RobustPath& rp = B.rp;
    char fname[512];
    snprintf(fname, sizeof fname, "%s/c08_%d.%s", outdir.c_str(), (int)getpid(), oas ? "oas" : "gds");
    Library lib = {};
    lib.init("L", 1e-6, 1e-9);
    Cell cell = {};
    cell.init("C");
    lib.cell_array.append(&cell);
    rp.simple_path = true;
    cell.robustpath_array.append(&rp);
    // GDSII has no repetitions: every element is written once per offset (elements outer, offsets inner), each copy a complete
    // PATH record of its own (layer, type, width, extensions, points); a share of the cases carry one
    std::vector<V> offs{V{0, 0}};
    {
        Rng rg(0x5eed ^ std::hash<std::string>()(gid));
        if (!oas && rg.chance(45)) {
            if (rg.coin()) {
                rp.repetition.type = RepetitionType::Rectangular;
                rp.repetition.columns = 1 + rg.below(3);
                rp.repetition.rows = 1 + rg.below(2);
                rp.repetition.spacing = Vec2{40.0 + (double)rg.below(20), -35.0 - (double)rg.below(20)};
                offs.clear();
                for (uint64_t i = 0; i < rp.repetition.columns; i++)
                    for (uint64_t j = 0; j < rp.repetition.rows; j++)
                        offs.push_back(V{(ld)i * rp.repetition.spacing.x, (ld)j * rp.repetition.spacing.y});
            } else {
                rp.repetition.type = RepetitionType::Explicit;
                rp.repetition.offsets = {};
                int k = 1 + (int)rg.below(3);
                for (int i = 0; i < k; i++) {
                    Vec2 o = {50.0 * (i + 1) + (double)rg.below(9), -45.0 * (i + 1) - (double)rg.below(9)};
                    rp.repetition.offsets.append(o);
                    offs.push_back(V{o.x, o.y});
                }
            }
        }
    }
    ErrorCode werr = oas ? lib.write_oas(fname, 0, 0, 0) : lib.write_gds(fname, 0, NULL);
    rp.repetition.clear();
    rp.simple_path = false;
    cell.robustpath_array.count = 0;
    lib.cell_array.count = 0;
    const uint64_t copies = offs.size();
    if (copies > 1) em.T("gds-record-with-repetition");
    em.K(oas ? "oas" : "gds", gid);
    // IntersectionNotFound is advisory: the junction search between two sections stopped a few tolerances short (the same code
    // is tolerated from to_polygons); the record is written all the same and is judged below like any other
    if (werr == ErrorCode::IntersectionNotFound) em.T(oas ? "oas-write-reports-intersection-not-found" : "gds-write-reports-intersection-not-found");
    else if (werr != ErrorCode::NoError) {
        em.I("write-error");
        em.P("FAIL robustpath-record-write write returned an error code");
        unlink(fname);
        return;
    }
    ErrorCode rerr = ErrorCode::NoError;
    Library back = oas ? read_oas(fname, 0, B.tol, &rerr) : read_gds(fname, 0, B.tol, NULL, &rerr);
    unlink(fname);
    std::string fail;
    char buf[300];
    if (back.cell_array.count != 1 || back.cell_array[0]->flexpath_array.count != B.n * copies) {
        fail = "FAIL robustpath-record-count the file does not hold one PATH per element and repetition offset";
    } else {
        for (uint64_t ec = 0; ec < B.n * copies && fail.empty(); ec++) {
            const uint64_t e = ec / copies, cpy = ec % copies;
            FlexPath* fp = back.cell_array[0]->flexpath_array[ec];
            CentreCurve C = centre_curve(rp, rp.elements[e], B.corner, (ld)B.tol / 8);
            std::vector<V> got;
            for (uint64_t i = 0; i < fp->spine.point_array.count; i++) {
                V q = tov(fp->spine.point_array[i]);
                got.push_back(V{q.x - offs[cpy].x, q.y - offs[cpy].y});
            }
            ld dev = poly_dev(got, C.pts);
            // the intersection search at a junction stops once the two curve points are within tol of each other; at a
            // shallow kink that point is a few tol away from the crossing itself; 3e-3 = database grid of the file
            ld lim = 8 * (ld)B.tol + 3e-3L;
            if (getenv("C08_TRACE")) {
                fprintf(stderr, " element %d record centre (read back):", (int)e);
                for (auto& p : got) fprintf(stderr, " (%.4Lf,%.4Lf)", p.x, p.y);
                fprintf(stderr, "\n  centre curve here:");
                for (auto& p : C.pts) fprintf(stderr, " (%.4Lf,%.4Lf)", p.x, p.y);
                fprintf(stderr, "\n  deviation %.6Lg\n", dev);
            }
            if (dev > lim) {
                snprintf(buf, sizeof buf, "element %d: PATH centre line deviates %.6Lg from the centre curve (limit %.3Lg)", (int)e, dev, lim);
                fail = std::string("FAIL robustpath-record-centre ") + buf;
                break;
            }
            double w_back = 2 * fp->elements[0].half_width_and_offset[0].u;
            double w_orig = interp_l(rp.elements[e].width_array[0], 0) * rp.width_scale;
            if (fabs(w_back - w_orig) > 1.5e-3) {
                snprintf(buf, sizeof buf, "element %d: width %.9g written, %.9g read back", (int)e, w_orig, w_back);
                if (oas && fabs(w_back - 2 * w_orig) <= 3e-3)
                    fail = std::string("FAIL RobustPath::to_oas:half-width to_oas stores the full width in the half-width field: ") + buf;
                else
                    fail = std::string("FAIL robustpath-record-width ") + buf;
                break;
            }
            EndType want = B.el[e].end == EndType::Smooth ? EndType::Round : B.el[e].end;
            EndType have = fp->elements[0].end_type;
            if (want == EndType::Extended && !oas) {
                // BGNEXTN / ENDEXTN of every copy: the element's extensions on the database grid
                Vec2 xo = rp.elements[e].end_extensions, xb = fp->elements[0].end_extensions;
                if (have != EndType::Extended || fabs(xb.u - xo.u) > 1.5e-3 || fabs(xb.v - xo.v) > 1.5e-3) {
                    snprintf(buf, sizeof buf, "element %d copy %d: extensions (%.9g, %.9g) written, end type %s with (%.9g, %.9g) read back", (int)e, (int)cpy,
                             xo.u, xo.v, end_type_name(have), xb.u, xb.v);
                    fail = std::string("FAIL robustpath-record-extensions ") + buf;
                    break;
                }
            }
            if (want != EndType::Extended && have != want) {
                if (oas && want == EndType::Round && have == EndType::Flush)
                    fail = "FAIL RobustPath::to_oas:round-end-flush a round-ended path is written to OASIS with flush ends (the format has no round ends)";
                else {
                    snprintf(buf, sizeof buf, "element %d: end type %s written, %s read back", (int)e, end_type_name(B.el[e].end), end_type_name(have));
                    fail = std::string("FAIL robustpath-record-end ") + buf;
                }
            }
        }
    }
    back.free_all();
    em.I(fail.empty() ? "ok" : "differs");
    em.P(fail.empty() ? "ok" : fail);
}

// ------------------------------------------------------------------ exact query cases (model correspondence)
static std::string hx(double d) { return hex_dbl(d == 0 ? 0.0 : d); }  // -0 printed as 0

static void query_cases(uint64_t seed, uint64_t idx, Emit& em) {
    Rng g(seed * 1000003ULL + idx * 7919ULL + 31);
    std::string construct_fail;
    RobustPath rp = {};
    uint64_t n = 1 + g.below(2);
    rp.num_elements = n;
    rp.elements = (RobustPathElement*)allocate_clear(n * sizeof(RobustPathElement));
    std::vector<double> w, o;
    std::vector<Tag> tags;
    for (uint64_t e = 0; e < n; e++) {
        w.push_back(0.25 * (double)(1 + g.below(16)));
        o.push_back(0.25 * (double)g.range(-16, 16));
        tags.push_back(0);
    }
    auto dy = [&]() { return 0.25 * (double)g.range(-200, 200); };
    rp.init(Vec2{dy(), dy()}, w.data(), o.data(), 0.01, 1000, tags.data());
    // description of the path for the model: sections and interpolations
    std::string secs;
    std::vector<std::string> wdesc(n), odesc(n);
    int nsec = 1 + (int)g.below(4);
    for (int i = 0; i < nsec; i++) {
        std::vector<Interpolation> wi(n), oi(n);
        bool give_w = g.coin(), give_o = g.coin();
        for (uint64_t e = 0; e < n; e++) {
            for (int k = 0; k < 2; k++) {
                Interpolation ip = {};
                int t = (int)g.below(3);
                double cur = k == 0 ? rp.elements[e].end_width : rp.elements[e].end_offset;
                double nv = k == 0 ? 0.25 * (double)(1 + g.below(16)) : 0.25 * (double)g.range(-16, 16);
                std::string d;
                if (!(k == 0 ? give_w : give_o)) {
                    d = "c " + hx(cur);
                } else if (t == 0) {
                    ip.type = InterpolationType::Constant; ip.value = nv;
                    d = "c " + hx(nv);
                } else {
                    ip.type = t == 1 ? InterpolationType::Linear : InterpolationType::Smooth;
                    ip.initial_value = cur; ip.final_value = nv;
                    d = std::string(t == 1 ? "l " : "s ") + hx(cur) + " " + hx(nv);
                }
                if (k == 0) { wi[e] = ip; wdesc[e] += (wdesc[e].empty() ? "" : ",") + d; }
                else { oi[e] = ip; odesc[e] += (odesc[e].empty() ? "" : ",") + d; }
            }
        }
        const Interpolation* wp = give_w ? wi.data() : NULL;
        const Interpolation* op = give_o ? oi.data() : NULL;
        int kind = (int)g.below(6);
        bool rel = g.coin();
        Vec2 c = rp.end_point;
        auto pt = [&]() { return Vec2{dy(), dy()}; };
        auto T = [&](Vec2 p) { return rel ? c + p : p; };
        std::vector<Vec2> want;  // the control points the call asks for (dyadic: the additions are exact)
        if (kind == 0) { Vec2 a = pt(); rp.segment(a, wp, op, rel); want = {c, T(a)}; }
        else if (kind == 1) { double x = dy(); rp.horizontal(x, wp, op, rel); want = {c, Vec2{rel ? c.x + x : x, c.y}}; }
        else if (kind == 2) { double y = dy(); rp.vertical(y, wp, op, rel); want = {c, Vec2{c.x, rel ? c.y + y : y}}; }
        else if (kind == 3) { Vec2 a = pt(), b2 = pt(); rp.quadratic(a, b2, wp, op, rel); want = {c, T(a), T(b2)}; }
        else if (kind == 4) { Vec2 a = pt(), b2 = pt(), c3 = pt(); rp.cubic(a, b2, c3, wp, op, rel); want = {c, T(a), T(b2), T(c3)}; }
        else {
            std::vector<Vec2> pts;
            int m = 1 + (int)g.below(5);
            for (int j = 0; j < m; j++) pts.push_back(pt());
            Array<Vec2> arr = {};
            arr.items = pts.data();
            arr.count = pts.size();
            rp.bezier(arr, wp, op, rel);
            want = {c};
            for (auto& q : pts) want.push_back(T(q));
        }
        if (construct_fail.empty()) {
            std::vector<V> got = ctrl_of(rp.subpath_array[rp.subpath_array.count - 1]);
            bool okc = got.size() == want.size();
            for (size_t j = 0; okc && j < got.size(); j++) okc = got[j].x == (ld)want[j].x && got[j].y == (ld)want[j].y;
            if (!okc || rp.end_point.x != want.back().x || rp.end_point.y != want.back().y) {
                char cb[200];
                snprintf(cb, sizeof cb, "section %d (call kind %d, %s): the stored control points / end point (%.9g, %.9g) are not those the call asks for (end (%.9g, %.9g))",
                         (int)rp.subpath_array.count - 1, kind, rel ? "relative" : "absolute", rp.end_point.x, rp.end_point.y, want.back().x, want.back().y);
                construct_fail = cb;
            }
        }
    }
    // dyadic transformation: translate, scale by a power of two
    if (g.coin()) rp.translate(Vec2{dy(), dy()});
    if (g.coin()) {
        rp.scale_width = g.coin();
        rp.scale(g.coin() ? 2 : 0.5, Vec2{dy(), dy()});
    }
    // serialise the sections as stored
    for (uint64_t s = 0; s < rp.subpath_array.count; s++) {
        const SubPath& sub = rp.subpath_array[s];
        std::vector<V> c = ctrl_of(sub);
        std::string t = sub.type == SubPathType::Segment ? "S" : (sub.type == SubPathType::Bezier2 ? "Q" : (sub.type == SubPathType::Bezier3 ? "C" : "B"));
        for (auto& p : c) t += " " + hx((double)p.x) + " " + hx((double)p.y);
        secs += (secs.empty() ? "" : ",") + t;
    }
    std::string tr;
    for (int i = 0; i < 6; i++) tr += (i ? " " : "") + hx(rp.trafo[i]);
    std::string common = "T=" + tr + ";WS=" + hx(rp.width_scale) + ";OS=" + hx(rp.offset_scale) + ";SEC=" + secs;
    for (uint64_t e = 0; e < n; e++) common += ";W" + std::to_string(e) + "=" + wdesc[e] + ";O" + std::to_string(e) + "=" + odesc[e];
    char gidb[64];
    snprintf(gidb, sizeof gidb, "g=%llu:%llu", (unsigned long long)seed, (unsigned long long)idx);
    em.K("construct", std::string(gidb) + ";exact");
    em.I("exact");
    em.P(construct_fail.empty() ? "ok" : "FAIL robustpath-construction " + construct_fail);
    uint64_t ns = rp.subpath_array.count;
    for (int q = 0; q < 12; q++) {
        double u;
        int r = (int)g.below(6);
        if (r == 0) u = (double)g.below(ns + 1);                       // an integer
        else if (r == 1) u = -0.25 * (double)(1 + g.below(4));         // below the path
        else if (r == 2) u = (double)ns + 0.25 * (double)g.below(5);   // at / beyond the end
        else u = (double)g.below(ns * 16 + 1) / 16.0;
        bool fb = g.coin();
        Vec2 p = rp.position(u, fb), gr = rp.gradient(u, fb);
        std::vector<double> wv(n), ov(n);
        rp.width(u, fb, wv.data());
        rp.offset(u, fb, ov.data());
        std::string res = hx(p.x) + " " + hx(p.y) + " " + hx(gr.x) + " " + hx(gr.y);
        for (uint64_t e = 0; e < n; e++) res += " " + hx(wv[e]) + " " + hx(ov[e]);
        em.K("query", std::string(gidb) + ";" + common + ";N=" + std::to_string(n) + ";U=" + hx(u) + ";FB=" + (fb ? "1" : "0"));
        em.I(res);
    }
    // SubPath::eval / gradient outside [0, 1]
    for (int q = 0; q < 4; q++) {
        uint64_t s = g.below(ns);
        double u = g.coin() ? -0.25 * (double)(1 + g.below(6)) : 1 + 0.25 * (double)(1 + g.below(6));
        Vec2 p = rp.subpath_array[s].eval(u, rp.trafo), gr = rp.subpath_array[s].gradient(u, rp.trafo);
        em.K("subeval", std::string(gidb) + ";" + common + ";SI=" + std::to_string(s) + ";U=" + hx(u));
        em.I(hx(p.x) + " " + hx(p.y) + " " + hx(gr.x) + " " + hx(gr.y));
    }
}

// ------------------------------------------------------------------ commands() against direct calls
static void commands_cases(uint64_t seed, uint64_t idx, Emit& em) {
    Rng g(seed * 1000003ULL + idx * 7919ULL + 43);
    char gidb[64];
    snprintf(gidb, sizeof gidb, "g=%llu:%llu", (unsigned long long)seed, (unsigned long long)idx);
    const char letters[] = "hHvVlLcCsSqQtTaAE";
    for (int it = 0; it < 17; it++) {
        char ch = letters[it];
        RobustPath a = {}, b = {};
        for (RobustPath* rp : {&a, &b}) {
            rp->num_elements = 1;
            rp->elements = (RobustPathElement*)allocate_clear(sizeof(RobustPathElement));
            rp->init(Vec2{1.5, -2.25}, 1.0, 0.0, 0.01, 1000, 0);
            rp->segment(Vec2{4, 1}, NULL, NULL, true);  // defines a direction for turn / smooth
        }
        double x[6];
        for (int i = 0; i < 6; i++) x[i] = 0.125 * (double)g.range(-80, 80);
        if (it == 7 && idx == 0) { x[0] = 1; x[1] = 2; x[2] = 3; x[3] = 4; x[4] = 5; x[5] = 6; }
        std::vector<CurveInstruction> v;
        auto num = [&](double t) { CurveInstruction ci; ci.number = t; v.push_back(ci); };
        CurveInstruction ci;
        ci.number = 0;
        ci.command = ch;
        v.push_back(ci);
        bool rel = ch >= 'a' && ch <= 'z';
        switch (ch) {
            case 'h': case 'H': num(x[0]); b.horizontal(x[0], NULL, NULL, rel); break;
            case 'v': case 'V': num(x[0]); b.vertical(x[0], NULL, NULL, rel); break;
            case 'l': case 'L': num(x[0]); num(x[1]); b.segment(Vec2{x[0], x[1]}, NULL, NULL, rel); break;
            case 'c': case 'C':
                for (int i = 0; i < 6; i++) num(x[i]);
                b.cubic(Vec2{x[0], x[1]}, Vec2{x[2], x[3]}, Vec2{x[4], x[5]}, NULL, NULL, rel);
                break;
            case 's': case 'S':
                for (int i = 0; i < 4; i++) num(x[i]);
                b.cubic_smooth(Vec2{x[0], x[1]}, Vec2{x[2], x[3]}, NULL, NULL, rel);
                break;
            case 'q': case 'Q':
                for (int i = 0; i < 4; i++) num(x[i]);
                b.quadratic(Vec2{x[0], x[1]}, Vec2{x[2], x[3]}, NULL, NULL, rel);
                break;
            case 't': case 'T': num(x[0]); num(x[1]); b.quadratic_smooth(Vec2{x[0], x[1]}, NULL, NULL, rel); break;
            case 'a': num(fabs(x[0]) + 1); num(x[1] / 8); b.turn(fabs(x[0]) + 1, x[1] / 8, NULL, NULL); break;
            case 'A': num(fabs(x[0]) + 1); num(x[1] / 8); num(x[2] / 8); b.arc(fabs(x[0]) + 1, fabs(x[0]) + 1, x[1] / 8, x[2] / 8, 0, NULL, NULL); break;
            default:
                num(fabs(x[0]) + 1); num(fabs(x[1]) + 1); num(x[2] / 8); num(x[3] / 8); num(x[4] / 8);
                b.arc(fabs(x[0]) + 1, fabs(x[1]) + 1, x[2] / 8, x[3] / 8, x[4] / 8, NULL, NULL);
        }
        uint64_t used = a.commands(v.data(), v.size());
        std::string pay = std::string(gidb) + ";" + ch;
        for (size_t i = 1; i < v.size(); i++) pay += " " + hx(v[i].number);
        em.K("commands", pay);
        std::string fail;
        char buf[300];
        if (used != v.size()) fail = "FAIL robustpath-commands-count commands() did not consume all items";
        else if (a.subpath_array.count != b.subpath_array.count) fail = "FAIL robustpath-commands-sections different number of sections";
        else {
            ld worst = 0;
            double wu = 0;
            for (int i = 0; i <= 8; i++) {
                double u = 1 + (double)i / 8;
                Vec2 pa = a.position(u, false), pb = b.position(u, false);
                ld dd = lenl(tov(pa) - tov(pb));
                if (dd > worst) { worst = dd; wu = u; }
            }
            if (worst > 1e-12L || lenl(tov(a.end_point) - tov(b.end_point)) > 1e-12L) {
                snprintf(buf, sizeof buf, "commands(\"%c ...\") ends at (%.9g, %.9g), the direct call at (%.9g, %.9g); positions differ by %.6Lg at u = %g",
                         ch, a.end_point.x, a.end_point.y, b.end_point.x, b.end_point.y, worst, wu);
                if (ch == 'c' || ch == 'C')
                    fail = std::string("FAIL RobustPath::commands:c-third-point ") + buf + " (the third point is built from item[4] twice)";
                else
                    fail = std::string("FAIL robustpath-commands-differ ") + buf;
            }
        }
        em.I(fail.empty() ? "ok" : "differs");
        em.P(fail.empty() ? "ok" : fail);
    }
}

// ------------------------------------------------------------------ probes
static void probe_case(int variant, uint64_t max_evals, FILE* o) {
    RobustPath rp = {};
    rp.num_elements = 1;
    rp.elements = (RobustPathElement*)allocate_clear(sizeof(RobustPathElement));
    rp.init(Vec2{0, 0}, 1.0, 0.0, 0.01, max_evals, 0);
    if (variant == 0) {
        // the offset steps from 0 to 3 at the junction: the two centre curves do not meet
        rp.segment(Vec2{10, 1}, NULL, NULL, false);
        Interpolation off = {InterpolationType::Constant};
        off.value = 3;
        rp.arc(5, 5, -M_PI / 2, 0, 0, NULL, &off);
    } else if (variant == 1) {
        rp.segment(Vec2{10, 0}, NULL, NULL, false);
        rp.segment(Vec2{10, 10}, NULL, NULL, false);
    } else if (variant == 4) {
        // default max_evals: a smooth width taper 1 -> 2 handed to interpolation() through two points restarts in the
        // second cubic piece; the side curves of the two pieces never meet and the search never returns
        rp.end_point = Vec2{1.25, -4};
        rp.segment(Vec2{4.7230, 15.6962}, NULL, NULL, false);
        Interpolation ip = {InterpolationType::Smooth};
        ip.initial_value = 1;
        ip.final_value = 2;
        Vec2 pts[2] = {Vec2{5.8533, 52.0522}, Vec2{6.9836, 88.4083}};
        Array<Vec2> arr = {};
        arr.items = pts;
        arr.count = 2;
        double angles[3] = {1.396, 0, 0};
        bool cons[3] = {true, false, false};
        Vec2 tension[3] = {Vec2{1, 1}, Vec2{1, 1}, Vec2{1, 1}};
        rp.interpolation(arr, angles, cons, tension, 1, 1, false, &ip, NULL, false);
    } else {
        // interpolation through two points with a taper: variant 2 offset 0 -> 2, variant 3 width 1 -> 2
        Interpolation ip = {InterpolationType::Linear};
        ip.initial_value = variant == 2 ? 0 : 1;
        ip.final_value = 2;
        Vec2 pts[2] = {Vec2{10, 2}, Vec2{20, 0}};
        Array<Vec2> arr = {};
        arr.items = pts;
        arr.count = 2;
        double angles[3] = {0, 0, 0};
        bool cons[3] = {false, false, false};
        Vec2 tension[3] = {Vec2{1, 1}, Vec2{1, 1}, Vec2{1, 1}};
        rp.interpolation(arr, angles, cons, tension, 1, 1, false, variant == 3 ? &ip : NULL, variant == 2 ? &ip : NULL, false);
        double wa, wb, oa, ob;
        rp.width(1, true, &wa);
        rp.width(1, false, &wb);
        rp.offset(1, true, &oa);
        rp.offset(1, false, &ob);
        fprintf(o, "junction width %g|%g offset %g|%g ", wa, wb, oa, ob);
        fflush(o);
    }
    Array<Polygon*> out = {};
    ErrorCode e = rp.to_polygons(false, 0, out);
    fprintf(o, "returned %d", (int)e);
}

// ------------------------------------------------------------------ one path
static const uint64_t NEW_BASE = 1000000;  // path indices from here on: the user-function classes (see the head of the file)
static void new_case(uint64_t seed, uint64_t idx, Emit& em);
static void run_path(uint64_t seed, uint64_t idx, const std::string& outdir, FILE* o) {
    Emit em;
    em.o = o;
    Rng g(seed * 1000003ULL + idx * 7919ULL + 17);
    char gidb[64];
    snprintf(gidb, sizeof gidb, "g=%llu:%llu", (unsigned long long)seed, (unsigned long long)idx);
    std::string gid = gidb;
    if (idx >= NEW_BASE) {
        new_case(seed, idx, em);
        return;
    }
    if (idx % 4 == 1) {
        query_cases(seed, idx, em);
        return;
    }
    if (idx % 16 == 2 || idx == 0) {
        commands_cases(seed, idx, em);
        return;
    }
    Builder B;
    B.g = &g;
    memset(&B.rp, 0, sizeof B.rp);
    RobustPath& rp = B.rp;
    bool directed = idx == 4;  // F14: width 4, flush ends, one segment
    B.tol = g.chance(25) ? 0.001 : 0.01;
    B.n = directed ? 1 : 1 + g.below(3);
    static const EndType ends[] = {EndType::Flush, EndType::Round, EndType::HalfWidth, EndType::Extended, EndType::Smooth};
    double w0 = 0.25 * (double)(1 + g.below(8)), gap = 0.25 * (double)(1 + g.below(4));
    for (uint64_t e = 0; e < B.n; e++) {
        ElemCfg c = {};
        c.w0 = g.chance(70) ? w0 : 0.25 * (double)(1 + g.below(8));
        double sep = w0 + gap + (B.n > 1 ? 0.5 * w0 : 0);
        c.o0 = B.n == 1 ? (g.chance(50) ? 0 : 0.25 * (double)g.range(-6, 6)) : sep * ((double)e - 0.5 * (double)(B.n - 1));
        static const double wf[] = {0.5, 0.75, 1.5, 2.0, 1.0};
        c.w1 = c.w0 * wf[g.below(5)];
        c.o1 = g.chance(50) ? c.o0 : c.o0 * (g.coin() ? 0.5 : 1.5) + (B.n == 1 && g.chance(30) ? 0.5 : 0);
        // steep offset tapers: the centre curve then leaves the spine at a marked angle (its own normal, not the spine's,
        // carries the width)
        if (g.chance(25)) c.o1 = c.o0 + (g.coin() ? 1 : -1) * 0.25 * (double)g.range(4, 12);
        c.end = ends[g.below(5)];
        c.ext = Vec2{0.25 * (double)g.below(9), 0.25 * (double)g.below(9)};
        if (directed) { c.w0 = c.w1 = 4; c.o0 = c.o1 = 0; c.end = EndType::Flush; }
        B.el.push_back(c);
    }
    B.Wmax = 0;
    for (auto& c : B.el) B.Wmax = std::max(B.Wmax, 0.5 * std::max(c.w0, c.w1) + std::max(fabs(c.o0), fabs(c.o1)));
    rp.num_elements = B.n;
    rp.elements = (RobustPathElement*)allocate_clear(B.n * sizeof(RobustPathElement));
    std::vector<double> w, off;
    std::vector<Tag> tags;
    for (uint64_t e = 0; e < B.n; e++) {
        w.push_back(B.el[e].w0);
        off.push_back(B.el[e].o0);
        tags.push_back(make_tag((uint32_t)e, 0));
    }
    Vec2 p0 = Vec2{0.125 * (double)g.range(-40, 40), 0.125 * (double)g.range(-40, 40)};
    bool uniform = B.n > 1;  // equal widths, evenly spaced offsets centred on the spine: the (count, width, separation) form
    for (uint64_t e = 0; e < B.n && uniform; e++)
        uniform = w[e] == w[0] && fabs(off[e] - (off[1] - off[0]) * ((double)e - 0.5 * (double)(B.n - 1))) < 1e-12;
    if (B.n == 1 && g.coin()) rp.init(p0, w[0], off[0], B.tol, 1000, tags[0]);
    else if (uniform && g.coin()) {
        // this form allocates the elements itself and gives every element the same tag
        free_allocation(rp.elements);
        rp.elements = NULL;
        rp.init(p0, B.n, w[0], off[1] - off[0], B.tol, 1000, tags[0]);
        em.T("init-by-separation");
    } else rp.init(p0, w.data(), off.data(), B.tol, 1000, tags.data());
    for (uint64_t e = 0; e < B.n; e++)
        if (B.construct_fail.empty() && (rp.elements[e].end_width != w[e] || rp.elements[e].end_offset != off[e])) {
            char ib[200];
            snprintf(ib, sizeof ib, "init: element %d starts with width %.12g and offset %.12g, asked for %.12g and %.12g", (int)e, rp.elements[e].end_width,
                     rp.elements[e].end_offset, w[e], off[e]);
            B.construct_fail = ib;
        }
    for (uint64_t e = 0; e < B.n; e++) {
        rp.elements[e].end_type = B.el[e].end;
        rp.elements[e].end_extensions = B.el[e].ext;
    }
    B.heading = ((double)g.range(-180, 180)) * M_PI / 180;
    if (directed) {
        rp.segment(Vec2{20, 0}, NULL, NULL, true);
        B.corner.push_back(0);
        B.desc = "segment";
    } else {
        // first a straight section along the heading
        rp.segment(Vec2{5 * B.Wmax * cos(B.heading), 5 * B.Wmax * sin(B.heading)}, NULL, NULL, true);
        B.corner.push_back(0);
        B.desc = "segment ";
        int ncalls = 1 + (int)g.below(4);
        for (int i = 0; i < ncalls; i++) one_call(B, true);
        em.K("construct", gid);
        em.I(std::to_string(B.construct_checked) + " checks");
        em.P(B.construct_fail.empty() ? "ok" : "FAIL robustpath-construction " + B.construct_fail);
    }
    // transformation of the whole path (the trafo matrix takes part in every query)
    if (!directed && g.chance(30)) {
        rp.translate(Vec2{0.5 * (double)g.range(-20, 20), 0.5 * (double)g.range(-20, 20)});
        if (g.coin()) rp.rotate(((double)g.range(-180, 180)) * M_PI / 180, Vec2{1, 2});
        em.T("transformed");
    }
    // magnification: trafo, offset_scale, end extensions and (with scale_width) width_scale all take part
    if (!directed && g.chance(30)) {
        static const double sfs[] = {2, 0.5, 1.5, 3};
        double sf = sfs[g.below(4)];
        rp.scale_width = g.chance(70);
        rp.scale(sf, Vec2{1, 2});
        B.Wmax *= sf;
        for (auto& c : B.el) c.ext = c.ext * sf;
        em.T(rp.scale_width ? "scaled-with-width" : "scaled-offsets-only");
    }
    em.T("elements-" + std::to_string(B.n));
    em.T("sections-" + std::to_string(rp.subpath_array.count > 6 ? 6 : rp.subpath_array.count));
    if (getenv("C08_TRACE")) {
        fprintf(stderr, "path %s tol %g elements %d: %s\n", gid.c_str(), B.tol, (int)B.n, B.desc.c_str());
        for (uint64_t s = 0; s < rp.subpath_array.count; s++) {
            fprintf(stderr, " section %d type %d corner %g:", (int)s, (int)rp.subpath_array[s].type, B.corner[s]);
            for (uint64_t e = 0; e < B.n; e++) {
                const Interpolation& wi = rp.elements[e].width_array[s];
                const Interpolation& oi = rp.elements[e].offset_array[s];
                fprintf(stderr, "  w[%d %g %g] o[%d %g %g]", (int)wi.type, wi.type == InterpolationType::Constant ? wi.value : wi.initial_value,
                        wi.type == InterpolationType::Constant ? wi.value : wi.final_value, (int)oi.type,
                        oi.type == InterpolationType::Constant ? oi.value : oi.initial_value, oi.type == InterpolationType::Constant ? oi.value : oi.final_value);
            }
            V a = apply(rp.trafo, sec_point(rp.subpath_array[s], 0)), b = apply(rp.trafo, sec_point(rp.subpath_array[s], 1));
            fprintf(stderr, "  from (%.4Lf, %.4Lf) to (%.4Lf, %.4Lf)\n", a.x, a.y, b.x, b.y);
        }
    }
    fd_case(B, gid, em);
    if (getenv("C08_TRACE")) fprintf(stderr, " fd done\n");
    Array<Polygon*> polys = {};
    ErrorCode err = rp.to_polygons(false, 0, polys);
    if (getenv("C08_TRACE")) fprintf(stderr, " to_polygons done err %d\n", (int)err);
    if (polys.count != B.n) {
        em.K("region", gid + ":all");
        em.I("error");
        em.P("FAIL robustpath-to_polygons-error to_polygons produced the wrong number of polygons");
        return;
    }
    if (err != ErrorCode::NoError) em.T("to_polygons-reports-intersection-not-found");
    for (uint64_t e = 0; e < B.n; e++) region_case(B, e, gid, polys[e], em);
    if (directed || g.chance(50)) {
        record_case(B, false, gid, outdir, em);
        record_case(B, true, gid, outdir, em);
    }
}

// ------------------------------------------------------------------ EndType::Function
// The callback records its arguments and returns either k points on a bulge between the two cap points (mode 0) or the
// points of the built-in Flush / HalfWidth / Extended cap (modes 1 - 3) rebuilt from the two cap points alone: the cap
// direction is the normal of first_point - second_point (initial cap: left - right = width x centre normal, the cap points
// backwards; final cap: right - left, the cap points forwards).
struct CapCall {
    Vec2 p0, d0, p1, d1;
    std::vector<Vec2> ret;
};
struct CapData {
    int mode, k;
    double ext0, ext1;
    std::vector<CapCall> calls;
};
static CapData g_cap[4];
static Array<Vec2> cap_fn(const Vec2 p0, const Vec2 d0, const Vec2 p1, const Vec2 d1, void* data) {
    CapData* c = (CapData*)data;
    CapCall call = {p0, d0, p1, d1, {}};
    Vec2 across = p0 - p1;
    double w = across.length();
    Vec2 out = w > 0 ? Vec2{-across.y / w, across.x / w} : Vec2{0, 0};
    double hw = 0.5 * w;
    std::vector<Vec2>& r = call.ret;
    if (c->mode == 1) r = {p0, p1};
    else if (c->mode == 2 || c->mode == 3) {
        double ext = c->mode == 2 ? hw : (c->calls.empty() ? c->ext0 : c->ext1);
        if (ext > 0) r = {p0, p0 + out * ext, p1 + out * ext, p1};
        else r = {p0 + out * ext, p1 + out * ext};
    } else if (c->k <= 1) r = {(p0 + p1) * 0.5 + out * hw};
    else
        for (int i = 0; i < c->k; i++) {
            double t = (double)i / (c->k - 1);
            r.push_back(p0 + (p1 - p0) * t + out * (4 * t * (1 - t) * hw));
        }
    Array<Vec2> a = {};
    for (auto& q : r) a.append(q);
    c->calls.push_back(call);
    return a;
}
// side curves of an element in long double: centre curve displaced along the normal of ITS tangent by half the width
static V centre_tan(const RobustPath& rp, const RobustPathElement& el, uint64_t s, ld u) {
    ld h = 1e-5L;
    ld u0 = u - h < 0 ? 0 : u - h, u1 = u + h > 1 ? 1 : u + h;
    return (centre_at(rp, el, s, u1) - centre_at(rp, el, s, u0)) * (1 / (u1 - u0));
}
static V side_at(const RobustPath& rp, const RobustPathElement& el, uint64_t s, ld u, int sign) {
    V n = unitl(orthol(centre_tan(rp, el, s, u)));
    return centre_at(rp, el, s, u) + n * ((ld)sign * 0.5L * interp_l(el.width_array[s], u) * rp.width_scale);
}
static V side_dir(const RobustPath& rp, const RobustPathElement& el, uint64_t s, ld u, int sign) {
    ld h = 1e-4L;
    ld u0 = u - h < 0 ? 0 : u - h, u1 = u + h > 1 ? 1 : u + h;
    return unitl(side_at(rp, el, s, u1, sign) - side_at(rp, el, s, u0, sign));
}
static bool same_pt(Vec2 a, Vec2 b) { return a.x == b.x && a.y == b.y; }
static std::vector<CentreCurve> g_ccache;
// callback arguments against the side curves; the returned points in the outline: right side, final cap (the points of the
// second call, in the order returned, first argument first), left side backwards, initial cap (first call, at the very end)
static std::string cap_check(Builder& B, uint64_t e, const Polygon* poly, const CapData& cd) {
    const RobustPath& rp = B.rp;
    const RobustPathElement& el = rp.elements[e];
    uint64_t last = rp.subpath_array.count - 1;
    char buf[600];
    if (cd.calls.size() != 2) {
        snprintf(buf, sizeof buf, "FAIL robustpath-end-function-calls element %d: the end function was called %d times by to_polygons (once per end expected)", (int)e, (int)cd.calls.size());
        return buf;
    }
    V want[2][4] = {{side_at(rp, el, 0, 0, +1), side_dir(rp, el, 0, 0, +1) * (-1.0L), side_at(rp, el, 0, 0, -1), side_dir(rp, el, 0, 0, -1)},
                    {side_at(rp, el, last, 1, -1), side_dir(rp, el, last, 1, -1), side_at(rp, el, last, 1, +1), side_dir(rp, el, last, 1, +1) * (-1.0L)}};
    ld hw = std::max(lenl(want[0][0] - want[0][2]), lenl(want[1][0] - want[1][2])) / 2;
    ld scale = 1;
    for (int c = 0; c < 2; c++) scale = std::max(scale, std::max(lenl(want[c][0]), lenl(want[c][2])));
    // the library takes the normals from differences with step 1 / (10 max_evals) = 1e-4, one-sided at the ends: the cap points
    // are off by up to 1e-4 x curvature x (half width + offset); the direction of a side curve is a difference of two points
    // whose normals come from a one-sided and a centred difference (half the turning of the normal is lost: of the order of
    // half width x turning rate / 4, up to 1e-2 rad on the curved sections made here)
    // (a parametric section without gradient function differences its spine as well: at u = 1 the one-sided spine normal enters
    // one of the two points of the one-sided centre difference: up to 4e-3 seen at offset 1.6, offset slope 2.25)
    ld ptol0 = 1e-9L * scale + 1e-3L * (hw + (ld)B.Wmax), dtol = 5e-2L;
    static const char* an[4] = {"first point", "first direction", "second point", "second direction"};
    // precondition as for the region oracle: where the spine curves tighter than the reach of the elements the displaced curves
    // fold over (a side curve then runs backwards): only the order of the points is looked at
    if (B.tight < 0) B.tight = tight_curvature(B) ? 1 : 0;
    for (int c = 0; c < 2 && !B.tight; c++) {
        Vec2 got[4] = {cd.calls[c].p0, cd.calls[c].d0, cd.calls[c].p1, cd.calls[c].d1};
        const SubPath& endsub = rp.subpath_array[c ? last : 0];
        ld ptol = endsub.type == SubPathType::Parametric && endsub.path_gradient == NULL ? 3 * ptol0 : ptol0;
        for (int i = 0; i < 4; i++) {
            ld dev = lenl(tov(got[i]) - want[c][i]);
            bool dirn = i & 1;
            // direction of a side curve: the library differences two side points whose normals come from a one-sided (at the end)
            // and a centred difference (one step inside): half the turning of the centre normal over the step is lost, an error of
            // half width x turning rate / 2 against the speed of the side point
            ld dlim = dtol;
            if (dirn) {
                ld ue = c ? 1 : 0, ui = c ? 1 - 1e-3L : 1e-3L;
                int sg = ((c == 0) == (i < 2)) ? +1 : -1;
                V t0 = unitl(centre_tan(rp, el, c ? last : 0, ue)), t1 = unitl(centre_tan(rp, el, c ? last : 0, ui));
                ld turn = atan2l(fabsl(crossl(t0, t1)), dotl(t0, t1)) / 1e-3L;
                ld speed = lenl(side_at(rp, el, c ? last : 0, ue, sg) - side_at(rp, el, c ? last : 0, ui, sg)) / 1e-3L;
                ld hwe = 0.5L * fabsl(interp_l(el.width_array[c ? last : 0], ue) * rp.width_scale);
                if (speed > 0) dlim += 0.75L * hwe * turn / speed;
            }
            if (dirn && dev > dlim && endsub.type == SubPathType::Parametric && endsub.path_gradient == NULL) {
                // genuine defect (see the demo in the report of this finding): the spine normal of a parametric section without
                // gradient function is a centred difference inside and a one-sided one within 1e-4 of the end; with a tapering
                // offset the centre point moves by offset x 1e-4 x turning rate over the last step, center_gradient (itself a
                // one-sided difference there) turns by about a degree and the side point of a narrow element runs BACKWARDS over
                // the last step: left_gradient / right_gradient are reversed
                snprintf(buf, sizeof buf,
                         "FAIL RobustPath::side-gradient:end-lag element %d, %s cap of a parametric section without gradient function: the end function received %s "
                         "(%.6g, %.6g), the tangent of the %s side curve there is (%.6Lg, %.6Lg): the one-sided differences at the end of the section make the side point run "
                         "sideways or backwards over the last 1e-4 of the parameter",
                         (int)e, c ? "final" : "initial", an[i], got[i].x, got[i].y, ((c == 0) == (i < 2)) ? "left" : "right", want[c][i].x, want[c][i].y);
                return buf;
            }
            if (!(dev <= (dirn ? dlim : ptol)) || (dirn && !(fabsl(lenl(tov(got[i])) - 1) <= 1e-9L))) {
                snprintf(buf, sizeof buf,
                         "FAIL robustpath-end-function-arguments element %d, %s cap: the end function received %s (%.12g, %.12g); the %s side curve at that end gives (%.12Lg, %.12Lg)%s",
                         (int)e, c ? "final" : "initial", an[i], got[i].x, got[i].y, ((c == 0) == (i < 2)) ? "left" : "right", want[c][i].x, want[c][i].y,
                         dirn ? " (unit tangent, pointing out of the path at the first point and into it at the second)" : "");
                return buf;
            }
        }
    }
    const std::vector<Vec2>&r0 = cd.calls[0].ret, &r1 = cd.calls[1].ret;
    uint64_t np = poly->point_array.count;
    if (np < r0.size() + r1.size()) return "FAIL robustpath-end-function-order the outline has fewer vertices than the end function returned";
    for (size_t i = 0; i < r0.size(); i++)
        if (!same_pt(poly->point_array[np - r0.size() + i], r0[i])) {
            snprintf(buf, sizeof buf,
                     "FAIL robustpath-end-function-order element %d: the outline does not end with the %d points returned for the initial cap in the order returned (point %d is (%.12g, %.12g), "
                     "outline vertex %d is (%.12g, %.12g))",
                     (int)e, (int)r0.size(), (int)i, r0[i].x, r0[i].y, (int)(np - r0.size() + i), poly->point_array[np - r0.size() + i].x, poly->point_array[np - r0.size() + i].y);
            return buf;
        }
    uint64_t body = np - r0.size(), j = body;
    for (uint64_t st = 0; st + r1.size() <= body && j == body; st++) {
        bool all = true;
        for (size_t i = 0; i < r1.size() && all; i++) all = same_pt(poly->point_array[st + i], r1[i]);
        if (all) j = st;
    }
    if (j == body) {
        snprintf(buf, sizeof buf, "FAIL robustpath-end-function-order element %d: the %d points returned for the final cap do not appear in the outline as one run in the order returned", (int)e,
                 (int)r1.size());
        return buf;
    }
    // the vertices before the final cap lie right of the centre curve, those between the two caps left of it
    // (one path per child; the sides of the outline are the same in every round: looked at in the first one)
    if (g_ccache.size() <= e) g_ccache.resize(e + 1);
    if (!g_ccache[e].pts.empty()) return "";
    if (B.tight) {
        B.side_skipped++;
        return "";
    }
    g_ccache[e] = centre_curve(rp, el, B.corner, (ld)B.tol / 8);
    const CentreCurve& C = g_ccache[e];
    ld hwmin = 1e300L;
    for (ld h : C.hw) hwmin = std::min(hwmin, h);
    for (uint64_t i = 0; i < body; i++) {
        if (i >= j && i < j + r1.size()) continue;
        V v = tov(poly->point_array[i]);
        ld best = 1e300L, side = 0;
        size_t kb = 0;
        for (size_t k = 0; k + 1 < C.pts.size(); k++) {
            ld d = dist_point_seg(v, C.pts[k], C.pts[k + 1]);
            if (d < best) { best = d; kb = k; }
        }
        {
            // direction of the centre curve around the nearest piece (at the joint of two sections single pieces of rounding
            // size, or a short piece running backwards where two centre curves overlap, have no meaningful direction)
            size_t k1 = kb >= 4 ? kb - 4 : 0, k2 = std::min(kb + 5, C.pts.size() - 1);
            V dir = C.pts[k2] - C.pts[k1], own = C.pts[kb + 1] - C.pts[kb];
            if (lenl(own) >= 1e-4L && dotl(own, dir) > 0) dir = own;  // its own direction when it has one (corners)
            if (lenl(dir) < 1e-6L) continue;
            side = crossl(dir, v - C.pts[kb]) / lenl(dir);
        }
        bool want_left = i > j;
        // signed distance from the line of the nearest piece of the centre curve: clearly on the other side
        if (want_left ? side < -0.3L * hwmin : side > 0.3L * hwmin) {
            snprintf(buf, sizeof buf,
                     "FAIL robustpath-end-function-order element %d: outline vertex %d (%.9Lg, %.9Lg) lies %s of the centre curve; the final cap points start at vertex %d: right side "
                     "before them, left side after them",
                     (int)e, (int)i, v.x, v.y, want_left ? "right" : "left", (int)j);
            return buf;
        }
    }
    return "";
}

// ------------------------------------------------------------------ user-function classes
// a random path as in run_path whose calls take user functions for a share of the sections
static void param_setup(Builder& B, Rng& g, int twin, int gradmode, int max_calls) {
    B.g = &g;
    memset(&B.rp, 0, sizeof B.rp);
    B.param = true;
    B.twin = twin;
    B.gradmode = gradmode;
    RobustPath& rp = B.rp;
    B.tol = g.chance(25) ? 0.001 : 0.01;
    B.n = 1 + g.below(3);
    static const EndType ends[] = {EndType::Flush, EndType::Round, EndType::HalfWidth, EndType::Extended, EndType::Smooth};
    double w0 = 0.25 * (double)(1 + g.below(8)), gap = 0.25 * (double)(1 + g.below(4));
    for (uint64_t e = 0; e < B.n; e++) {
        ElemCfg c = {};
        c.w0 = g.chance(70) ? w0 : 0.25 * (double)(1 + g.below(8));
        double sep = w0 + gap + (B.n > 1 ? 0.5 * w0 : 0);
        c.o0 = B.n == 1 ? (g.chance(50) ? 0 : 0.25 * (double)g.range(-6, 6)) : sep * ((double)e - 0.5 * (double)(B.n - 1));
        static const double wf[] = {0.5, 0.75, 1.5, 2.0, 1.0};
        c.w1 = c.w0 * wf[g.below(5)];
        c.o1 = g.chance(50) ? c.o0 : c.o0 * (g.coin() ? 0.5 : 1.5) + (B.n == 1 && g.chance(30) ? 0.5 : 0);
        if (g.chance(25)) c.o1 = c.o0 + (g.coin() ? 1 : -1) * 0.25 * (double)g.range(4, 12);
        c.end = ends[g.below(5)];
        c.ext = Vec2{0.25 * (double)g.below(9), 0.25 * (double)g.below(9)};
        B.el.push_back(c);
    }
    B.Wmax = 0;
    for (auto& c : B.el) B.Wmax = std::max(B.Wmax, 0.5 * std::max(c.w0, c.w1) + std::max(fabs(c.o0), fabs(c.o1)));
    rp.num_elements = B.n;
    rp.elements = (RobustPathElement*)allocate_clear(B.n * sizeof(RobustPathElement));
    std::vector<Tag> tags;
    std::vector<Spec> sw, so;
    for (uint64_t e = 0; e < B.n; e++) {
        B.hw_end.push_back(B.el[e].w0);
        B.ho_end.push_back(B.el[e].o0);
        sw.push_back(Spec{0, B.el[e].w0, 0});
        so.push_back(Spec{0, B.el[e].o0, 0});
        tags.push_back(make_tag((uint32_t)e, 0));
    }
    rp.init(Vec2{0.125 * (double)g.range(-40, 40), 0.125 * (double)g.range(-40, 40)}, B.hw_end.data(), B.ho_end.data(), B.tol, 1000, tags.data());
    B.capfn.assign(B.n, 0);
    for (uint64_t e = 0; e < B.n; e++) {
        rp.elements[e].end_type = B.el[e].end;
        rp.elements[e].end_extensions = B.el[e].ext;
        // a straight cap realised through the end callback (the region oracle keeps the cap it stands for)
        bool straight_cap = B.el[e].end == EndType::Flush || B.el[e].end == EndType::HalfWidth || B.el[e].end == EndType::Extended;
        if (g.chance(40) && straight_cap && twin == 0 && gradmode == 0) {
            B.capfn[e] = 1;
            g_cap[e] = CapData{B.el[e].end == EndType::Flush ? 1 : (B.el[e].end == EndType::HalfWidth ? 2 : 3), 0, 0, 0, {}};
            rp.elements[e].end_type = EndType::Function;
            rp.elements[e].end_function = cap_fn;
            rp.elements[e].end_function_data = &g_cap[e];
        }
    }
    B.heading = ((double)g.range(-180, 180)) * M_PI / 180;
    rp.segment(Vec2{5 * B.Wmax * cos(B.heading), 5 * B.Wmax * sin(B.heading)}, NULL, NULL, true);
    B.corner.push_back(0);
    B.wspec.push_back(sw);
    B.ospec.push_back(so);
    B.desc = "segment ";
    int ncalls = 1 + (int)g.below(max_calls);
    for (int i = 0; i < ncalls; i++) one_call(B, true);
}

// scale / transform with the factors kept by the harness
struct Affine {
    ld m[6];
    V operator()(V p) const { return V{m[0] * p.x + m[1] * p.y + m[2], m[3] * p.x + m[4] * p.y + m[5]}; }
};
static Affine apply_transform(Builder& B, Rng& g, std::string& what) {
    RobustPath& rp = B.rp;
    Affine A = {{1, 0, 0, 0, 1, 0}};
    static const double sfs[] = {2, 0.5, 1.5, 3, 0.75};
    double sf = sfs[g.below(5)];
    rp.scale_width = g.chance(60);
    int op = (int)g.below(10);
    char buf[200];
    bool refl = false;
    if (op < 4) {
        if (op == 3) sf = -sf;  // point reflection: offsets keep their sign
        Vec2 c = Vec2{0.5 * (double)g.range(-10, 10), 0.5 * (double)g.range(-10, 10)};
        rp.scale(sf, c);
        A = Affine{{(ld)sf, 0, (ld)c.x * (1 - (ld)sf), 0, (ld)sf, (ld)c.y * (1 - (ld)sf)}};
        snprintf(buf, sizeof buf, "scale(%g, (%g, %g)) scale_width=%d", sf, c.x, c.y, (int)rp.scale_width);
    } else {
        refl = g.coin();
        double rot = ((double)g.range(-180, 180)) * M_PI / 180;
        Vec2 o = Vec2{0.5 * (double)g.range(-10, 10), 0.5 * (double)g.range(-10, 10)};
        rp.transform(sf, refl, rot, o);
        ld c = cosl((ld)rot), s = sinl((ld)rot), k = refl ? -1 : 1;
        A = Affine{{c * sf, -s * k * sf, o.x, s * sf, c * k * sf, o.y}};
        snprintf(buf, sizeof buf, "transform(%g, %d, %g, (%g, %g)) scale_width=%d", sf, (int)refl, rot, o.x, o.y, (int)rp.scale_width);
    }
    what = buf;
    B.exp_os *= fabs(sf) * (refl ? -1 : 1);
    if (rp.scale_width) B.exp_ws *= fabs(sf);
    B.Wmax *= fabs(sf);
    for (auto& c : B.el) c.ext = c.ext * fabs(sf);
    return A;
}

struct Snap {
    Vec2 p, gr;
    std::vector<double> w, o;
};
static Snap snap(const RobustPath& rp, uint64_t n, double u, bool fb) {
    Snap s;
    s.p = rp.position(u, fb);
    s.gr = rp.gradient(u, fb);
    s.w.assign(n, 0);
    s.o.assign(n, 0);
    rp.width(u, fb, s.w.data());
    rp.offset(u, fb, s.o.data());
    return s;
}

static void param_path(uint64_t seed, uint64_t idx, int cls, Emit& em) {
    Rng g(seed * 1000003ULL + idx * 7919ULL + 61);
    char gidb[64], buf[900];
    snprintf(gidb, sizeof gidb, "g=%llu:%llu", (unsigned long long)seed, (unsigned long long)idx);
    std::string gid = gidb;
    Builder B;
    param_setup(B, g, 0, 0, 4);
    RobustPath& rp = B.rp;
    uint64_t ns = rp.subpath_array.count;
    em.K("construct", gid);
    em.I(std::to_string(B.construct_checked) + " checks");
    em.P(B.construct_fail.empty() ? "ok" : "FAIL robustpath-construction " + B.construct_fail);
    em.K("cont", gid + ";path");
    em.I(std::to_string(B.cont_checked) + " checks");
    em.P(B.cont_fail.empty() ? "ok" : "FAIL robustpath-null-continuation " + B.cont_fail);
    for (int i = 0; i < B.cont_checked; i++) em.T("cont-checks-in-random-paths");
    for (uint64_t s = 1; s < B.wspec.size(); s++)
        for (uint64_t e = 0; e < B.n; e++) {
            em.T(std::string("section-width-") + spec_name(B.wspec[s][e].kind));
            em.T(std::string("section-offset-") + spec_name(B.ospec[s][e].kind));
        }
    if (g.chance(30)) {
        rp.translate(Vec2{0.5 * (double)g.range(-20, 20), 0.5 * (double)g.range(-20, 20)});
        if (g.coin()) rp.rotate(((double)g.range(-180, 180)) * M_PI / 180, Vec2{1, 2});
        em.T("transformed");
    }
    if (cls == 1 || g.chance(30)) {
        // queries before and after a scale / transform: widths by the factor when scale_width is set and unchanged otherwise,
        // offsets by the factor (sign changed by a reflection), positions and the centre points mapped by the transformation
        std::vector<std::pair<double, bool>> us;
        for (uint64_t s = 0; s <= ns; s++) { us.push_back({(double)s, false}); us.push_back({(double)s, true}); }
        for (int i = 0; i < 8; i++) us.push_back({(double)g.below(ns) + (double)(1 + g.below(63)) / 64.0, g.coin()});
        std::vector<Snap> before;
        for (auto& u : us) before.push_back(snap(rp, B.n, u.first, u.second));
        double ws0 = B.exp_ws, os0 = B.exp_os;
        std::string what, fail;
        Affine A = apply_transform(B, g, what);
        ld fw = B.exp_ws / ws0, fo = B.exp_os / os0;
        ld scale = 1;
        for (auto& b : before) scale = std::max(scale, std::max(lenl(tov(b.p)), lenl(A(tov(b.p)))));
        int exact = 0, total = 0;
        for (size_t i = 0; i < us.size() && fail.empty(); i++) {
            Snap a = snap(rp, B.n, us[i].first, us[i].second);
            const Snap& b = before[i];
            if (lenl(tov(a.p) - A(tov(b.p))) > 1e-11L * scale) {
                snprintf(buf, sizeof buf, "position(%g, %d) = (%.12g, %.12g) after %s, (%.12g, %.12g) before: the image is (%.12Lg, %.12Lg)", us[i].first, (int)us[i].second, a.p.x,
                         a.p.y, what.c_str(), b.p.x, b.p.y, A(tov(b.p)).x, A(tov(b.p)).y);
                fail = std::string("FAIL robustpath-transform-position ") + buf;
            }
            for (uint64_t e = 0; e < B.n && fail.empty(); e++) {
                total += 2;
                exact += (a.w[e] == (double)(b.w[e] * fw)) + (a.o[e] == (double)(b.o[e] * fo));
                if (fabsl(a.w[e] - b.w[e] * fw) > 1e-15L * fabsl(b.w[e] * fw) || fabsl(a.o[e] - b.o[e] * fo) > 1e-15L * fabsl(b.o[e] * fo)) {
                    snprintf(buf, sizeof buf,
                             "element %d at u = %g (%d), section width %s offset %s: width %.17g -> %.17g, offset %.17g -> %.17g under %s: factors %Lg (width) and %Lg (offset) expected",
                             (int)e, us[i].first, (int)us[i].second, spec_name(B.wspec[std::min((uint64_t)us[i].first, ns - 1)][e].kind),
                             spec_name(B.ospec[std::min((uint64_t)us[i].first, ns - 1)][e].kind), b.w[e], a.w[e], b.o[e], a.o[e], what.c_str(), fw, fo);
                    fail = std::string("FAIL robustpath-transform-width-offset ") + buf;
                    break;
                }
                // the centre point spine + offset x unit normal is mapped like every other point
                V cb = tov(b.p) + unitl(orthol(tov(b.gr))) * (ld)b.o[e], ca = tov(a.p) + unitl(orthol(tov(a.gr))) * (ld)a.o[e];
                if (lenl(ca - A(cb)) > 1e-9L * scale) {
                    snprintf(buf, sizeof buf, "element %d at u = %g: centre point (%.12Lg, %.12Lg) before, (%.12Lg, %.12Lg) after %s, the image of the former is (%.12Lg, %.12Lg)", (int)e,
                             us[i].first, cb.x, cb.y, ca.x, ca.y, what.c_str(), A(cb).x, A(cb).y);
                    fail = std::string("FAIL robustpath-transform-centre ") + buf;
                }
            }
        }
        em.K("pscale", gid + ";" + what);
        em.I(fail.empty() ? "ok" : "differs");
        em.P(fail.empty() ? "ok" : fail + " [" + B.desc + "]");
        em.T(rp.scale_width ? "pscale-with-width" : "pscale-offsets-only");
        if (exact == total) em.T("pscale-factors-bit-exact");
    }
    em.T("elements-" + std::to_string(B.n));
    em.T("sections-" + std::to_string(ns > 6 ? 6 : ns));
    if (getenv("C08_TRACE")) {
        fprintf(stderr, "path %s tol %g elements %d: %s\n", gid.c_str(), B.tol, (int)B.n, B.desc.c_str());
        for (uint64_t s = 0; s < ns; s++)
            for (uint64_t e = 0; e < B.n; e++)
                fprintf(stderr, " section %d element %d: width %s (%g, %g) offset %s (%g, %g)\n", (int)s, (int)e, spec_name(B.wspec[s][e].kind), B.wspec[s][e].a, B.wspec[s][e].b,
                        spec_name(B.ospec[s][e].kind), B.ospec[s][e].a, B.ospec[s][e].b);
    }
    fd_case(B, gid, em);
    for (uint64_t e = 0; e < B.n; e++) {
        g_cap[e].calls.clear();
        g_cap[e].ext0 = B.el[e].ext.u;
        g_cap[e].ext1 = B.el[e].ext.v;
    }
    for (int i = 0; i < g_nudata && i < 1024; i++) g_udata[i].calls = 0;
    Array<Polygon*> polys = {};
    ErrorCode err = rp.to_polygons(false, 0, polys);
    if (polys.count != B.n) {
        em.K("region", gid + ":all");
        em.I("error");
        em.P("FAIL robustpath-to_polygons-error to_polygons produced the wrong number of polygons");
        return;
    }
    if (err != ErrorCode::NoError) em.T("to_polygons-reports-intersection-not-found");
    // the user functions are documented to receive 0 <= u <= 1
    {
        std::string fail;
        uint64_t calls = 0;
        for (int i = 0; i < g_nudata && i < 1024; i++) {
            calls += g_udata[i].calls;
            if (g_udata[i].calls && fail.empty() && !(g_udata[i].umin >= 0 && g_udata[i].umax <= 1)) {
                snprintf(buf, sizeof buf, "to_polygons called a width / offset function with parameters from %.17g to %.17g", g_udata[i].umin, g_udata[i].umax);
                fail = std::string("FAIL robustpath-user-function-domain ") + buf;
            }
        }
        em.K("udomain", gid);
        em.I(fail.empty() ? "ok" : "differs");
        em.P(fail.empty() ? "ok" : fail);
        if (calls) em.T("paths-calling-user-functions-in-to_polygons");
    }
    for (uint64_t e = 0; e < B.n; e++) region_case(B, e, gid, polys[e], em);
    for (uint64_t e = 0; e < B.n; e++)
        if (B.capfn[e]) {
            std::string fail = cap_check(B, e, polys[e], g_cap[e]);
            em.K("endfn", gid + ":" + std::to_string(e) + ";cap=" + end_type_name(B.el[e].end));
            em.I(fail.empty() ? "ok" : "differs");
            em.P(fail.empty() ? "ok" : fail + " [" + B.desc + "]");
            em.T(std::string("region-end-function-as-") + end_type_name(B.el[e].end));
        }
}

// ------------------------------------------------------------------ every wrapper that accepts NULL after a taper
static void cont_cases(uint64_t seed, uint64_t idx, Emit& em) {
    Rng g(seed * 1000003ULL + idx * 7919ULL + 59);
    char gidb[64];
    snprintf(gidb, sizeof gidb, "g=%llu:%llu", (unsigned long long)seed, (unsigned long long)idx);
    static const char* wname[13] = {"segment", "horizontal", "vertical", "arc", "turn", "cubic", "cubic_smooth", "quadratic", "quadratic_smooth", "bezier", "interpolation",
                                    "parametric", "commands"};
    for (int w = 0; w < 13; w++) {
        RobustPath rp = {};
        uint64_t n = 1 + g.below(3);
        rp.num_elements = n;
        rp.elements = (RobustPathElement*)allocate_clear(n * sizeof(RobustPathElement));
        std::vector<double> w0(n), o0(n);
        std::vector<Tag> tags(n, 0);
        std::vector<Spec> cw(n), co(n);
        for (uint64_t e = 0; e < n; e++) {
            w0[e] = 0.05 * (double)(1 + g.below(40));
            o0[e] = 0.05 * (double)g.range(-40, 40);
            cw[e] = Spec{0, w0[e], 0};
            co[e] = Spec{0, o0[e], 0};
        }
        rp.init(Vec2{0.1 * (double)g.range(-50, 50), 0.1 * (double)g.range(-50, 50)}, w0.data(), o0.data(), 0.01, 1000, tags.data());
        if (g.coin()) rp.segment(Vec2{3, 1}, NULL, NULL, true);
        // the taper: every kind but the constant; at least one of width / offset through a user function
        int kw = 1 + (int)g.below(5), ko = 1 + (int)g.below(5);
        if (kw < 3 && ko < 3) (g.coin() ? kw : ko) = 3 + (int)g.below(3);
        auto next = [&](int kind, const Spec& cur, double target) {
            double c = (double)spec_eval(cur, 1);
            return kind == 5 ? Spec{5, c, target - c} : Spec{kind, c, target};
        };
        std::vector<Interpolation> wi(n), oi(n);
        for (uint64_t e = 0; e < n; e++) {
            cw[e] = next(kw, cw[e], 0.05 * (double)(1 + g.below(40)));
            co[e] = next(ko, co[e], 0.05 * (double)g.range(-40, 40));
            wi[e] = spec_make(cw[e]);
            oi[e] = spec_make(co[e]);
        }
        int tk = (int)g.below(3);
        if (tk == 0) rp.segment(Vec2{6, 2}, wi.data(), oi.data(), true);
        else if (tk == 1) rp.arc(8, 8, -M_PI / 2, -M_PI / 4, 0, wi.data(), oi.data());
        else rp.quadratic(Vec2{3, 0.5}, Vec2{6, 2}, wi.data(), oi.data(), true);
        std::string fail;
        uint64_t ntaper = rp.subpath_array.count - 1;
        for (uint64_t e = 0; e < n && fail.empty(); e++)
            if (!interp_same(rp.elements[e].width_array[ntaper], wi[e]) || !interp_same(rp.elements[e].offset_array[ntaper], oi[e]))
                fail = "FAIL robustpath-construction the taper section does not store the interpolations it was given";
        ld ws = 1, os = 1;
        if (g.chance(30)) {
            double sf = g.coin() ? 2 : 0.5;
            rp.scale_width = g.coin();
            rp.scale(sf, Vec2{1, 1});
            os = sf;
            if (rp.scale_width) ws = sf;
        }
        // the continuing call: mode 0 neither argument, 1 offset only, 2 width only
        int mode = w == 12 ? 0 : (int)g.below(3);
        std::vector<Spec> gw(n), go(n);
        std::vector<Interpolation> gwi(n), goi(n);
        for (uint64_t e = 0; e < n; e++) {
            gw[e] = next(1 + (int)g.below(5), cw[e], 0.05 * (double)(1 + g.below(40)));
            go[e] = next(1 + (int)g.below(5), co[e], 0.05 * (double)g.range(-40, 40));
            gwi[e] = spec_make(gw[e]);
            goi[e] = spec_make(go[e]);
        }
        const Interpolation* wp = mode == 2 ? gwi.data() : NULL;
        const Interpolation* op = mode == 1 ? goi.data() : NULL;
        bool rel = g.coin();
        Vec2 c = rp.end_point;
        Vec2 gr = rp.subpath_array[rp.subpath_array.count - 1].gradient(1, rp.trafo);
        Vec2 f = gr / gr.length(), l = Vec2{-f.y, f.x};
        auto P = [&](double a, double s) { return (rel ? Vec2{0, 0} : c) + f * a + l * s; };
        uint64_t s1 = rp.subpath_array.count;
        std::vector<Vec2> pts;
        Array<Vec2> arr = {};
        switch (w) {
            case 0: rp.segment(P(5, 1), wp, op, rel); break;
            case 1: rp.horizontal(rel ? 4 : c.x + 4, wp, op, rel); break;
            case 2: rp.vertical(rel ? -4 : c.y - 4, wp, op, rel); break;
            case 3: { double a0 = atan2(f.y, f.x) - M_PI / 2; rp.arc(7, 6, a0, a0 + 0.8, 0, wp, op); } break;
            case 4: rp.turn(6, g.coin() ? 0.9 : -0.9, wp, op); break;
            case 5: rp.cubic(P(2, 0), P(4, 1), P(6, 2), wp, op, rel); break;
            case 6: rp.cubic_smooth(P(4, 1), P(6, 2), wp, op, rel); break;
            case 7: rp.quadratic(P(3, 0), P(6, 2), wp, op, rel); break;
            case 8: rp.quadratic_smooth(P(6, 1), wp, op, rel); break;
            case 9:
                pts = {P(2, 0), P(4, 1), P(6, 1), P(8, 2)};
                arr.items = pts.data();
                arr.count = pts.size();
                rp.bezier(arr, wp, op, rel);
                break;
            case 10: {
                pts = {P(5, 1), P(10, 0)};
                arr.items = pts.data();
                arr.count = pts.size();
                double angles[3] = {0, 0, 0};
                bool cons[3] = {false, false, false};
                Vec2 tension[3] = {Vec2{1, 1}, Vec2{1, 1}, Vec2{1, 1}};
                // with an argument interpolation() would restart the taper in each piece (known finding): NULL on both sides
                mode = 0;
                wp = op = NULL;
                rp.interpolation(arr, angles, cons, tension, 1, 1, false, wp, op, rel);
            } break;
            case 11: {
                ParamData& pd = g_param[g_nparam++ % 64];
                pd = ParamData{f.x, f.y, l.x, l.y, 8, 1.5};
                rp.parametric(param_fn, &pd, g.coin() ? param_grad : NULL, &pd, wp, op, true);
            } break;
            default: {
                std::vector<CurveInstruction> v;
                auto num = [&](double x) { CurveInstruction ci; ci.number = x; v.push_back(ci); };
                auto cmd = [&](char ch) { CurveInstruction ci; ci.number = 0; ci.command = ch; v.push_back(ci); };
                static const char letters[] = "hvlcsqtaAE";
                char ch = letters[g.below(10)];
                cmd(ch);
                switch (ch) {
                    case 'h': case 'v': num(3); break;
                    case 'l': case 't': num(4); num(1); break;
                    case 'c': num(2); num(0); num(4); num(1); num(6); num(2); break;
                    case 's': case 'q': num(3); num(0.5); num(6); num(2); break;
                    case 'a': num(6); num(0.7); break;
                    case 'A': num(6); num(0.2); num(1.1); break;
                    default: num(6); num(5); num(0.2); num(1.1); num(0.1); break;
                }
                if (rp.commands(v.data(), v.size()) != v.size()) fail = "FAIL robustpath-commands-count commands() did not consume all items";
            }
        }
        std::string what = std::string(wname[w]) + (mode == 0 ? ", no width / offset argument" : (mode == 1 ? ", offset argument only" : ", width argument only"));
        int checked = 0;
        auto check_new = [&](uint64_t from, const Interpolation* pw, const Interpolation* po, const std::vector<Spec>& pws, const std::vector<Spec>& pos) {
            if (rp.subpath_array.count <= from && fail.empty()) fail = "FAIL robustpath-construction the call (" + what + ") appended no section";
            for (uint64_t si = from; si < rp.subpath_array.count; si++)
                for (uint64_t e = 0; e < n; e++)
                    for (int which = 0; which < 2; which++) {
                        const Interpolation* passed = which ? po : pw;
                        const Array<Interpolation>& a2 = which ? rp.elements[e].offset_array : rp.elements[e].width_array;
                        std::string cf;
                        if (passed) {
                            if ((a2.count <= si || !interp_same(a2[si], passed[e])) && fail.empty())
                                fail = "FAIL robustpath-construction section " + std::to_string(si) + " (" + what + ") does not store the " + (which ? "offset" : "width") + " interpolation it was given";
                        } else {
                            checked++;
                            if (!cont_check(rp, n, si, e, which, (which ? pos : pws)[e], which ? os : ws, what.c_str(), cf) && fail.empty())
                                fail = "FAIL robustpath-null-continuation " + cf;
                        }
                    }
        };
        check_new(s1, wp, op, cw, co);
        // the junction from below still shows the end of the taper
        {
            std::vector<double> q(n), r(n);
            rp.width((double)s1, true, q.data());
            rp.offset((double)s1, true, r.data());
            for (uint64_t e = 0; e < n && fail.empty(); e++)
                if (fabsl(q[e] - spec_eval(cw[e], 1) * ws) > 1e-14L * spec_mag(cw[e]) * ws || fabsl(r[e] - spec_eval(co[e], 1) * os) > 1e-14L * spec_mag(co[e]) * os) {
                    char buf[400];
                    snprintf(buf, sizeof buf, "element %d: width / offset(%d from below) = %.17g / %.17g, the %s / %s taper ends at %.17Lg / %.17Lg", (int)e, (int)s1, q[e], r[e],
                             spec_name(cw[e].kind), spec_name(co[e].kind), spec_eval(cw[e], 1) * ws, spec_eval(co[e], 1) * os);
                    fail = std::string("FAIL robustpath-width-offset ") + buf;
                }
        }
        // one more section without arguments: both values continue from what the call above was given
        uint64_t s2 = rp.subpath_array.count;
        rp.segment(Vec2{2, 1}, NULL, NULL, true);
        what += ", then segment without arguments";
        check_new(s2, NULL, NULL, wp ? gw : std::vector<Spec>(cw), op ? go : std::vector<Spec>(co));
        em.K("cont", std::string(gidb) + ";" + wname[w] + ";mode=" + std::to_string(mode) + ";taper=" + spec_name(kw) + "/" + spec_name(ko) + ";n=" + std::to_string(n) +
                         (ws != 1 || os != 1 ? ";scaled" : ""));
        em.I(std::to_string(checked) + " checks");
        em.P(fail.empty() ? "ok" : fail);
        em.T(std::string("cont-after-width-") + spec_name(kw));
        em.T(std::string("cont-after-offset-") + spec_name(ko));
        em.T(std::string("cont-wrapper-") + wname[w]);
    }
}

// ------------------------------------------------------------------ twins
static bool same_outlines(const Array<Polygon*>& a, const Array<Polygon*>& b) {
    if (a.count != b.count) return false;
    for (uint64_t i = 0; i < a.count; i++) {
        if (a[i]->point_array.count != b[i]->point_array.count) return false;
        for (uint64_t j = 0; j < a[i]->point_array.count; j++)
            if (!same_pt(a[i]->point_array[j], b[i]->point_array[j])) return false;
    }
    return true;
}
static ld outline_dev(const Array<Polygon*>& a, const Array<Polygon*>& b) {
    if (a.count != b.count) return 1e300L;
    ld m = 0;
    for (uint64_t i = 0; i < a.count; i++) {
        std::vector<V> p, q;
        for (uint64_t j = 0; j <= a[i]->point_array.count; j++) p.push_back(tov(a[i]->point_array[j % a[i]->point_array.count]));
        for (uint64_t j = 0; j <= b[i]->point_array.count; j++) q.push_back(tov(b[i]->point_array[j % b[i]->point_array.count]));
        ld d = poly_dev(p, q);
        if (!(d <= m)) m = d;
    }
    return m;
}
// winding number of a closed polygon around p (p not on the boundary)
static int winding(const std::vector<V>& poly, V p) {
    int w = 0;
    for (size_t i = 0; i + 1 < poly.size(); i++) {
        V a = poly[i], b = poly[i + 1];
        if (a.y <= p.y) {
            if (b.y > p.y && crossl(b - a, p - a) > 0) w++;
        } else if (b.y <= p.y && crossl(b - a, p - a) < 0) w--;
    }
    return w;
}
// the two outlines cover the same region up to lim: where the boundaries are farther apart than lim (one intersection search
// between two sections found its crossing and the other did not: the side pieces then overlap in a small loop INSIDE the region)
// points around the deviating vertices, clear of both boundaries by lim / 2, are covered by both or by neither
static bool same_region(const Array<Polygon*>& a, const Array<Polygon*>& b, ld lim, std::string& why, V* where) {
    if (a.count != b.count) { why = "different numbers of polygons"; return false; }
    for (uint64_t i = 0; i < a.count; i++) {
        std::vector<V> p, q;
        for (uint64_t j = 0; j <= a[i]->point_array.count; j++) p.push_back(tov(a[i]->point_array[j % a[i]->point_array.count]));
        for (uint64_t j = 0; j <= b[i]->point_array.count; j++) q.push_back(tov(b[i]->point_array[j % b[i]->point_array.count]));
        for (int side = 0; side < 2; side++) {
            const std::vector<V>&mine = side ? q : p, &other = side ? p : q;
            for (size_t j = 0; j + 1 < mine.size(); j++) {
                if (!(dist_point_poly(mine[j], other) > lim)) continue;
                for (int k = 0; k < 8; k++) {
                    V s = mine[j] + V{cosl(0.785398163397L * k + 0.3L), sinl(0.785398163397L * k + 0.3L)} * lim;
                    if (dist_point_poly(s, p) < lim / 2 || dist_point_poly(s, q) < lim / 2) continue;
                    if ((winding(p, s) != 0) != (winding(q, s) != 0)) {
                        char buf[300];
                        snprintf(buf, sizeof buf, "element %d: the point (%.9Lg, %.9Lg), %.3Lg or more away from both outlines, is covered by one of them only (winding numbers %d | %d)", (int)i,
                                 s.x, s.y, lim / 2, winding(p, s), winding(q, s));
                        why = buf;
                        if (where) *where = s;
                        return false;
                    }
                }
            }
        }
    }
    return true;
}
static void twin_cases(uint64_t seed, uint64_t idx, Emit& em) {
    char gidb[64], buf[900];
    snprintf(gidb, sizeof gidb, "g=%llu:%llu", (unsigned long long)seed, (unsigned long long)idx);
    for (int t = 0; t < 3; t++) {
        bool grad = t == 2;
        uint64_t sd = seed * 1000003ULL + idx * 7919ULL + 67 + (uint64_t)t * 101;
        Rng g1(sd), g2(sd);
        Builder A, B;
        param_setup(A, g1, grad ? 0 : 1, grad ? 1 : 0, 3);
        param_setup(B, g2, grad ? 0 : 2, grad ? 2 : 0, 3);
        std::string fail;
        uint64_t ns = A.rp.subpath_array.count;
        const char* key = grad ? "robustpath-gradient-function-twin" : "robustpath-parametric-twin";
        if (A.desc != B.desc || B.rp.subpath_array.count != ns || A.n != B.n) fail = "FAIL harness-twin-diverged the two constructions made different calls: " + A.desc + "| " + B.desc;
        if (!A.construct_fail.empty()) fail = "FAIL robustpath-construction " + A.construct_fail;
        if (!B.construct_fail.empty()) fail = "FAIL robustpath-construction " + B.construct_fail;
        if (!A.cont_fail.empty()) fail = "FAIL robustpath-null-continuation " + A.cont_fail;
        if (!B.cont_fail.empty()) fail = "FAIL robustpath-null-continuation " + B.cont_fail;
        Rng g(sd + 13);
        if (fail.empty() && g.coin()) {
            double sf = g.coin() ? 2 : 1.5;
            bool sw = g.chance(70);
            for (Builder* b : {&A, &B}) {
                b->rp.scale_width = sw;
                b->rp.scale(sf, Vec2{1, 2});
                b->Wmax *= sf;
            }
            em.T(grad ? "gtwin-scaled" : "ptwin-scaled");
        }
        ld scale = 1;
        int nuser = 0;
        if (fail.empty()) {
            for (uint64_t s = 0; s < ns; s++)
                for (uint64_t e = 0; e < A.n; e++) nuser += (B.wspec[s][e].kind >= 3) + (B.ospec[s][e].kind >= 3);
            for (uint64_t s = 0; s < ns; s++) scale = std::max(scale, lenl(tov(A.rp.position((double)s + 0.5, false))));
            std::vector<std::pair<double, bool>> us;
            for (uint64_t s = 0; s <= ns; s++) { us.push_back({(double)s, false}); us.push_back({(double)s, true}); }
            for (int i = 0; i < 16; i++) us.push_back({(double)g.below(ns) + (double)g.below(1000001) / 1000000.0, g.coin()});
            for (auto& u : us) {
                Snap a = snap(A.rp, A.n, u.first, u.second), b = snap(B.rp, B.n, u.first, u.second);
                bool okp = same_pt(a.p, b.p) && (grad ? lenl(tov(a.gr) - tov(b.gr)) <= 5e-3L * (1 + lenl(tov(a.gr))) : same_pt(a.gr, b.gr));
                bool okw = true;
                for (uint64_t e = 0; e < A.n; e++) okw = okw && a.w[e] == b.w[e] && a.o[e] == b.o[e];
                if (!okp || !okw) {
                    snprintf(buf, sizeof buf,
                             "at u = %.17g (from_below %d): position (%.17g, %.17g) | (%.17g, %.17g), gradient (%.12g, %.12g) | (%.12g, %.12g), element 0 width %.17g | %.17g offset %.17g | %.17g "
                             "(%s | %s)",
                             u.first, (int)u.second, a.p.x, a.p.y, b.p.x, b.p.y, a.gr.x, a.gr.y, b.gr.x, b.gr.y, a.w[0], b.w[0], a.o[0], b.o[0],
                             grad ? "with gradient function" : "built-in Linear / Smooth", grad ? "without" : "user functions evaluating the same expressions");
                    fail = std::string("FAIL ") + key + " " + buf;
                    break;
                }
            }
        }
        if (fail.empty() && grad && tight_curvature(A)) em.T("gtwin-outlines-not-compared-tight-curvature");
        else if (fail.empty()) {
            Array<Polygon*> pa = {}, pb = {};
            A.rp.to_polygons(false, 0, pa);
            B.rp.to_polygons(false, 0, pb);
            if (same_outlines(pa, pb)) em.T(grad ? "gtwin-outlines-bit-identical" : "ptwin-outlines-bit-identical");
            else {
                // two samplings of the same curve (each checked at two inner points per step against the tolerance: up to 3 tol from the
                // curve seen): 4 tol as in the region oracle, 8 tol where the arithmetic differs; without its gradient function a parametric section takes the spine normal from a difference of step 1e-4, one-sided
                // at the ends: the displaced curves move by up to step / 2 x turning rate (<= 10 rad per unit here) x (offset + half width)
                ld dev = outline_dev(pa, pb), lim = (grad ? 8 : 4) * (ld)A.tol + (grad ? 5e-4L * (ld)A.Wmax : 0);
                std::string why;
                if (dev <= lim) em.T(grad ? "gtwin-outlines-within-tolerance" : "ptwin-outlines-within-tolerance");
                V where = {0, 0};
                if (dev <= lim) {}
                else if (same_region(pa, pb, lim, why, &where)) em.T(grad ? "gtwin-outlines-differ-inside-the-region" : "ptwin-outlines-differ-inside-the-region");
                else {
                    snprintf(buf, sizeof buf, "the outlines of the two paths deviate by %.6Lg (limit %.3Lg, tolerance %g) and do not cover the same region: %s", dev, lim, A.tol, why.c_str());
                    fail = std::string("FAIL ") + key + " " + buf;
                    // genuine defect (finding RobustPath::side-gradient:end-lag): within 1e-4 of the end of a parametric section without
                    // gradient function the spine normal is a one-sided difference; with a tapering offset the centre direction there turns
                    // by about a degree and the corners of the end cap (or the side points handed to the junction search) move by several
                    // tolerances: the difference sits at an end of such a section
                    ld capext = 0;  // the cap corners lie beyond the end of the spine by the extension of the cap
                    for (uint64_t e = 0; e < B.n; e++) capext = std::max(capext, (ld)std::max(B.rp.elements[e].end_extensions.u, B.rp.elements[e].end_extensions.v));
                    for (uint64_t s = 0; s < ns && grad; s++)
                        if (B.rp.subpath_array[s].type == SubPathType::Parametric)
                            for (int en = 0; en < 2; en++)
                                if (lenl(where - tov(B.rp.position((double)(s + en), en == 1))) <= 2 * (ld)A.Wmax + 2 * lim + capext)
                                    fail = std::string("FAIL RobustPath::side-gradient:end-lag at the ") + (en ? "end" : "start") + " of parametric section " + std::to_string(s) +
                                           ", which has no gradient function in the second path: " + buf;
                }
            }
        }
        em.K(grad ? "gtwin" : "ptwin", std::string(gidb) + ";t=" + std::to_string(t) + ";user-interpolations=" + std::to_string(nuser));
        em.I(fail.empty() ? "ok" : "differs");
        em.P(fail.empty() ? "ok" : fail + " [" + A.desc + "]");
        if (nuser == 0 && !grad) em.T("ptwin-without-taper");
    }
}

// ------------------------------------------------------------------ end callback: 1..6 points, twins of the built-in caps
static void endfn_cases(uint64_t seed, uint64_t idx, Emit& em) {
    Rng g(seed * 1000003ULL + idx * 7919ULL + 71);
    char gidb[64], buf[600];
    snprintf(gidb, sizeof gidb, "g=%llu:%llu", (unsigned long long)seed, (unsigned long long)idx);
    Builder B;
    param_setup(B, g, 0, 0, 3);
    RobustPath& rp = B.rp;
    if (g.chance(30)) {
        std::string what;
        apply_transform(B, g, what);
        em.T("endfn-transformed");
    }
    ld scale = 1;
    for (uint64_t s = 0; s < rp.subpath_array.count; s++) scale = std::max(scale, lenl(tov(rp.position((double)s + 0.5, false))));
    auto set_fn = [&](int mode, int k0) {
        for (uint64_t e = 0; e < B.n; e++) {
            g_cap[e] = CapData{mode, ((k0 - 1 + (int)e) % 6) + 1, B.el[e].ext.u, B.el[e].ext.v, {}};
            rp.elements[e].end_type = EndType::Function;
            rp.elements[e].end_function = cap_fn;
            rp.elements[e].end_function_data = &g_cap[e];
        }
    };
    std::string pre;
    if (!B.construct_fail.empty()) pre = "FAIL robustpath-construction " + B.construct_fail;
    else if (!B.cont_fail.empty()) pre = "FAIL robustpath-null-continuation " + B.cont_fail;
    // three rounds per path; element e returns ((k - 1 + e) mod 6) + 1 points: every count at every element position over two
    // consecutive paths of this class
    for (int k = 1 + (int)(((idx - NEW_BASE) / 6) % 2); k <= 6; k += 2) {
        set_fn(0, k);
        Array<Polygon*> polys = {};
        rp.to_polygons(false, 0, polys);
        std::string fail = pre;
        if (polys.count != B.n) fail = "FAIL robustpath-to_polygons-error to_polygons produced the wrong number of polygons";
        for (uint64_t e = 0; e < B.n && fail.empty(); e++) {
            fail = cap_check(B, e, polys[e], g_cap[e]);
            em.T("endfn-points-" + std::to_string(g_cap[e].k));
        }
        em.K("endfn", std::string(gidb) + ";k=" + std::to_string(k) + ";n=" + std::to_string(B.n));
        em.I(fail.empty() ? "ok" : "differs");
        em.P(fail.empty() ? "ok" : fail + " [" + B.desc + "]");
    }
    if (B.side_skipped) em.T("endfn-order-only-tight-curvature");
    static const EndType builtin[4] = {EndType::Flush, EndType::Flush, EndType::HalfWidth, EndType::Extended};
    for (int mode = 1; mode <= 3; mode++) {
        for (uint64_t e = 0; e < B.n; e++) {
            rp.elements[e].end_type = builtin[mode];
            rp.elements[e].end_extensions = B.el[e].ext;
        }
        Array<Polygon*> pa = {}, pb = {};
        rp.to_polygons(false, 0, pa);
        set_fn(mode, 1);
        rp.to_polygons(false, 0, pb);
        std::string fail = pre;
        if (pa.count != B.n || pb.count != B.n) fail = "FAIL robustpath-to_polygons-error to_polygons produced the wrong number of polygons";
        for (uint64_t e = 0; e < B.n && fail.empty(); e++) {
            fail = cap_check(B, e, pb[e], g_cap[e]);
            if (!fail.empty()) break;
            uint64_t na = pa[e]->point_array.count, nb = pb[e]->point_array.count;
            ld worst = 0;
            uint64_t wi = 0;
            for (uint64_t i = 0; i < na && i < nb; i++) {
                ld d = lenl(tov(pa[e]->point_array[i]) - tov(pb[e]->point_array[i]));
                if (!(d <= worst)) { worst = d; wi = i; }
            }
            if (na != nb || !(worst <= 1e-9L * scale)) {
                snprintf(buf, sizeof buf,
                         "element %d: the built-in %s cap gives %d outline vertices, the end function returning the same cap points %d; largest vertex distance %.6Lg at vertex %d "
                         "((%.12g, %.12g) | (%.12g, %.12g))",
                         (int)e, end_type_name(builtin[mode]), (int)na, (int)nb, worst, (int)wi, pa[e]->point_array[wi < na ? wi : 0].x, pa[e]->point_array[wi < na ? wi : 0].y,
                         pb[e]->point_array[wi < nb ? wi : 0].x, pb[e]->point_array[wi < nb ? wi : 0].y);
                fail = std::string("FAIL robustpath-end-function-twin ") + buf;
            }
        }
        em.K("endtwin", std::string(gidb) + ";cap=" + end_type_name(builtin[mode]) + ";n=" + std::to_string(B.n));
        em.I(fail.empty() ? "ok" : "differs");
        em.P(fail.empty() ? "ok" : fail + " [" + B.desc + "]");
    }
}

static void new_case(uint64_t seed, uint64_t idx, Emit& em) {
    em.mark = true;
    switch ((idx - NEW_BASE) % 6) {
        case 0: param_path(seed, idx, 0, em); break;
        case 1: param_path(seed, idx, 1, em); break;
        case 3: twin_cases(seed, idx, em); break;
        case 4: endfn_cases(seed, idx, em); break;
        default: cont_cases(seed, idx, em); break;  // 2 and 5
    }
}

// ------------------------------------------------------------------ parent
// VERIF_KINDS (comma list) restricts the case kinds that are recorded (used when another property's check runs this
// harness for its PATH-record cases only); crashes are always recorded
static bool kind_wanted(const std::string& kind) {
    static int init = 0;
    static std::vector<std::string> want;
    if (!init) {
        init = 1;
        if (const char* k = getenv("VERIF_KINDS")) {
            std::string s(k);
            size_t p = 0;
            while (p <= s.size()) {
                size_t e = s.find(',', p);
                if (e == std::string::npos) e = s.size();
                if (e > p) want.push_back(s.substr(p, e - p));
                p = e + 1;
            }
        }
    }
    if (want.empty()) return true;
    for (auto& w : want)
        if (w == kind) return true;
    return false;
}
static void absorb(Out& out, const std::string& res, const std::string& gid) {
    if (res.compare(0, 4, "HANG") == 0 || res.compare(0, 5, "CRASH") == 0 || res == "PIPEFAIL") {
        std::string id = out.add("crash", gid);
        out.I(id, res);
        out.P(id, "FAIL robustpath-crash the construction / query / to_polygons / record sequence ended with " + res);
        return;
    }
    bool skip = false;
    std::string id;
    size_t pos = 0;
    while (pos < res.size()) {
        size_t nl = res.find('\n', pos);
        if (nl == std::string::npos) nl = res.size();
        std::string line = res.substr(pos, nl - pos);
        pos = nl + 1;
        if (line.size() < 2) continue;
        char tag = line[0];
        std::string rest = line.substr(2);
        if (tag == 'K') {
            size_t t = rest.find('\t');
            skip = !kind_wanted(rest.substr(0, t));
            if (skip) continue;
            id = out.add(rest.substr(0, t), t == std::string::npos ? "" : rest.substr(t + 1));
        } else if (skip) continue;
        else if (tag == 'I') out.I(id, rest);
        else if (tag == 'P') out.P(id, rest);
        else if (tag == 'T') out.count(rest);
    }
}

static bool parse_gid(const std::string& payload, uint64_t& seed, uint64_t& idx) {
    size_t p = payload.find("g=");
    if (p == std::string::npos) return false;
    unsigned long long a = 0, b = 0;
    if (sscanf(payload.c_str() + p, "g=%llu:%llu", &a, &b) != 2) return false;
    seed = a;
    idx = b;
    return true;
}

static void probes(Out& out) {
    struct Pr { int variant; uint64_t me; } prs[] = {{0, 2}, {0, 5}, {0, 10}, {0, 100}, {0, 1000}, {1, 1}, {1, 2}, {1, 1000}, {2, 1000}, {3, 1000}, {4, 1000}};
    for (auto& p : prs) {
        std::string res = in_child([&](FILE* o) { probe_case(p.variant, p.me, o); }, 30);
        static const char* vn[] = {"offset-step", "corner", "interpolation-offset-taper", "interpolation-width-taper", "interpolation-smooth-width-taper"};
        std::string id = out.add("probe", std::string(vn[p.variant]) + " max_evals=" + std::to_string(p.me));
        out.I(id, res);
        if (res == "HANG")
            out.P(id, "FAIL RobustPath::intersection:evals-wrap the intersection search does not return: `while (evals-- > 0 || ...)` on an unsigned counter re-arms after reaching zero (max_evals = " + std::to_string(p.me) + ", " + vn[p.variant] + ": curves that do not meet)");
        else if (res.compare(0, 5, "CRASH") == 0)
            out.P(id, "FAIL RobustPath::to_polygons:max-evals-1-crash max_evals = 1 samples no point at all and to_polygons indexes left_side.count - 2: " + res);
        else if (p.variant >= 2 && res.find("junction") != std::string::npos) {
            double wa, wb, oa, ob;
            if (sscanf(res.c_str(), "junction width %lg|%lg offset %lg|%lg", &wa, &wb, &oa, &ob) == 4 && (fabs(wa - wb) > 1e-9 || fabs(oa - ob) > 1e-9))
                out.P(id, "FAIL RobustPath::interpolation:taper-restarts-per-piece interpolation() hands the same width / offset Interpolation to every cubic piece: "
                          "a taper from a to b restarts at a in each piece, so width / offset jump at the inner points (" + res + ")");
            else out.P(id, "ok");
        } else
            out.P(id, "ok");
    }
}

int main(int argc, char** argv) {
    if (argc < 5) {
        fprintf(stderr, "usage: %s seed tier outdir corpusdir [replayfile]\n", argv[0]);
        return 2;
    }
    uint64_t seed = strtoull(argv[1], NULL, 10);
    std::string tier = argv[2], outdir = argv[3];
    set_error_logger(getenv("C08_TRACE") ? stderr : NULL);
    Out out;
    out.open(argv[3]);
    auto one = [&](uint64_t sd, uint64_t idx) {
        char gidb[64];
        snprintf(gidb, sizeof gidb, "g=%llu:%llu", (unsigned long long)sd, (unsigned long long)idx);
        std::string res = in_child([&](FILE* o) { run_path(sd, idx, outdir, o); }, 60);
        absorb(out, res, gidb);
    };
    if (argc > 5) {
        std::string kind, payload;
        uint64_t sd, idx;
        if (load_replay(argv[5], kind, payload)) {
            if (kind == "probe") probes(out);
            else if (parse_gid(payload, sd, idx)) one(sd, idx);
        }
        out.close();
        return 0;
    }
    for (auto& kp : load_corpus(argv[4])) {
        uint64_t sd, idx;
        if (parse_gid(kp.second, sd, idx)) one(sd, idx);
    }
    if (kind_wanted("probe")) probes(out);
    uint64_t npaths = tier == "thorough" ? 4000 : 160;
    for (uint64_t idx = 0; idx < npaths; idx++) one(seed, idx);
    // user-function classes (Parametric widths / offsets, NULL continuation, end callback, scale / transform)
    bool want_new = false;
    for (const char* k : {"cont", "ptwin", "gtwin", "endfn", "endtwin", "pscale", "udomain"}) want_new = want_new || kind_wanted(k);
    uint64_t nnew = tier == "thorough" ? 1200 : 24;
    if (getenv("C08_NEW")) nnew = strtoull(getenv("C08_NEW"), NULL, 10);  // debug aid: number of user-function indices
    for (uint64_t k = 0; k < nnew && want_new; k++) one(seed, NEW_BASE + k);
    out.close();
    return 0;
}
