// C08 harness: RobustPath sections, queries, outline region, commands(), PATH records.
//
// One forked child (alarm) per generated path / probe.  Records printed by the child become cases:
//   query   : position / gradient / width / offset (and SubPath::eval / gradient outside [0,1]) at
//             dyadic parameters on polynomial sections with small dyadic control points, where double
//             arithmetic is exact: I = hex doubles, the extracted model (PathBook.v) answers M
//   fd      : queries at random parameters on all section kinds against the section formulas in long
//             double and against finite differences; adjacent sections meet; spine() (P-lines)
//   region  : to_polygons outline against the centre curve sampled here in long double
//             (exact oracle: S ok | bad, harness I ok), tolerance multiple 4
//   commands: commands() against the same path built by direct calls (F16)
//   gds/oas : simple path saved as PATH record and read back (F14)
//   probe   : intersection search with small max_evals (hang candidate), max_evals = 1
// Payloads start with g=<seed>:<index>; a replay regenerates exactly that path.
// Grid: doubles are multiplied by 2^30 (exact) and rounded to the nearest integer (error <= 2^-31 per coordinate,
// five orders of magnitude below the guard bands, which are multiples of the path tolerance >= 1e-3).
// Debug aid: C08_TRACE=1 prints the sections of a replayed path to stderr.
#include <algorithm>
#include <cmath>
#include <gdstk/gdstk.hpp>
#include "common.hpp"

using namespace gdstk;
typedef long double ld;

static const double GRID = 1073741824.0;  // 2^30
static inline int64_t togridl(ld x) { return (int64_t)llroundl(x * (ld)GRID); }

struct V {
    ld x, y;
};
static inline V operator+(V a, V b) { return V{a.x + b.x, a.y + b.y}; }
static inline V operator-(V a, V b) { return V{a.x - b.x, a.y - b.y}; }
static inline V operator*(V a, ld k) { return V{a.x * k, a.y * k}; }
static inline ld dotl(V a, V b) { return a.x * b.x + a.y * b.y; }
static inline ld crossl(V a, V b) { return a.x * b.y - a.y * b.x; }
static inline ld lenl(V a) { return sqrtl(dotl(a, a)); }
static inline V orthol(V a) { return V{-a.y, a.x}; }
static inline V unitl(V a) {
    ld l = lenl(a);
    return l > 0 ? a * (1 / l) : a;
}
static inline V tov(Vec2 p) { return V{p.x, p.y}; }

struct Emit {
    FILE* o;
    void K(const std::string& kind, const std::string& payload) { fprintf(o, "K\t%s\t%s\n", kind.c_str(), payload.c_str()); }
    void I(const std::string& s) { fprintf(o, "I\t%s\n", s.c_str()); }
    void P(const std::string& s) { fprintf(o, "P\t%s\n", s.c_str()); }
    void T(const std::string& s) { fprintf(o, "T\t%s\n", s.c_str()); }
};

static ld dist_point_seg(V p, V a, V b) {
    V d = b - a, v = p - a;
    ld L = dotl(d, d), tt = dotl(v, d);
    if (L <= 0 || tt <= 0) return lenl(v);
    if (tt >= L) return lenl(p - b);
    return fabsl(crossl(d, v)) / sqrtl(L);
}
static ld dist_point_poly(V p, const std::vector<V>& pl) {
    ld best = 1e300L;
    if (pl.size() == 1) return lenl(p - pl[0]);
    for (size_t i = 0; i + 1 < pl.size(); i++) best = std::min(best, dist_point_seg(p, pl[i], pl[i + 1]));
    return best;
}
static ld poly_dev(const std::vector<V>& p, const std::vector<V>& q) {
    ld m = 0;
    for (auto& v : p) m = std::max(m, dist_point_poly(v, q));
    for (auto& v : q) m = std::max(m, dist_point_poly(v, p));
    return m;
}
static std::string hexpts(const std::vector<V>& v) {
    std::string s;
    for (size_t i = 0; i < v.size(); i++) {
        if (i) s += " ";
        s += hex_i64(togridl(v[i].x)) + " " + hex_i64(togridl(v[i].y));
    }
    return s;
}

// ------------------------------------------------------------------ section formulas, long double
static ld interp_l(const Interpolation& ip, ld u) {
    u = u < 0 ? 0 : (u > 1 ? 1 : u);
    switch (ip.type) {
        case InterpolationType::Constant: return ip.value;
        case InterpolationType::Linear: return (ld)ip.initial_value + ((ld)ip.final_value - (ld)ip.initial_value) * u;
        case InterpolationType::Smooth: return (ld)ip.initial_value + ((ld)ip.final_value - (ld)ip.initial_value) * (3 - 2 * u) * u * u;
        default: return (*ip.function)((double)u, ip.data);
    }
}
static ld binom(int n, int k) {
    ld r = 1;
    for (int i = 1; i <= k; i++) r = r * (n - k + i) / i;
    return r;
}
// Bernstein form (not de Casteljau) of the control points
static V bern(const std::vector<V>& c, ld u) {
    int n = (int)c.size() - 1;
    V r = {0, 0};
    for (int i = 0; i <= n; i++) r = r + c[i] * (binom(n, i) * powl(1 - u, n - i) * powl(u, i));
    return r;
}
static V bern_d(const std::vector<V>& c, ld u) {
    int n = (int)c.size() - 1;
    std::vector<V> d;
    for (int i = 0; i < n; i++) d.push_back((c[i + 1] - c[i]) * (ld)n);
    return bern(d, u);
}
static std::vector<V> ctrl_of(const SubPath& s) {
    std::vector<V> c;
    switch (s.type) {
        case SubPathType::Segment: c = {tov(s.begin), tov(s.end)}; break;
        case SubPathType::Bezier2: c = {tov(s.p0), tov(s.p1), tov(s.p2)}; break;
        case SubPathType::Bezier3: c = {tov(s.p0), tov(s.p1), tov(s.p2), tov(s.p3)}; break;
        case SubPathType::Bezier:
            for (uint64_t i = 0; i < s.ctrl.count; i++) c.push_back(tov(s.ctrl[i]));
            break;
        default: break;
    }
    return c;
}
// untransformed point / derivative of a section, 0 <= u <= 1
static V sec_point(const SubPath& s, ld u) {
    if (s.type == SubPathType::Arc) {
        ld a = (ld)s.angle_i + ((ld)s.angle_f - (ld)s.angle_i) * u;
        ld x = s.radius_x * cosl(a), y = s.radius_y * sinl(a);
        return V{s.center.x + x * s.cos_rot - y * s.sin_rot, s.center.y + x * s.sin_rot + y * s.cos_rot};
    }
    if (s.type == SubPathType::Parametric) {
        Vec2 p = (*s.path_function)((double)u, s.func_data);
        return V{p.x + s.reference.x, p.y + s.reference.y};
    }
    return bern(ctrl_of(s), u);
}
static V sec_deriv(const SubPath& s, ld u) {
    if (s.type == SubPathType::Arc) {
        ld da = (ld)s.angle_f - (ld)s.angle_i;
        ld a = (ld)s.angle_i + da * u;
        ld dx = -s.radius_x * da * sinl(a), dy = s.radius_y * da * cosl(a);
        return V{dx * s.cos_rot - dy * s.sin_rot, dx * s.sin_rot + dy * s.cos_rot};
    }
    if (s.type == SubPathType::Parametric) {
        ld h = 1e-6L;
        ld u0 = u - h < 0 ? 0 : u - h, u1 = u + h > 1 ? 1 : u + h;
        return (sec_point(s, u1) - sec_point(s, u0)) * (1 / (u1 - u0));
    }
    return bern_d(ctrl_of(s), u);
}
static V apply(const double* tr, V p) { return V{p.x * tr[0] + p.y * tr[1] + tr[2], p.x * tr[3] + p.y * tr[4] + tr[5]}; }
static V apply_lin(const double* tr, V p) { return V{p.x * tr[0] + p.y * tr[1], p.x * tr[3] + p.y * tr[4]}; }

// ------------------------------------------------------------------ builder
struct ElemCfg {
    double w0, o0, w1, o1;  // initial and alternative target values
    EndType end;
    Vec2 ext;
};

struct ParamData {
    double fx, fy, lx, ly, d, e;
};
static Vec2 param_fn(double u, void* data) {
    ParamData* p = (ParamData*)data;
    double a = p->d * u, b = p->e * u * u * (3 - 2 * u);
    return Vec2{a * p->fx + b * p->lx, a * p->fy + b * p->ly};
}
static Vec2 param_grad(double u, void* data) {
    ParamData* p = (ParamData*)data;
    double a = p->d, b = p->e * 6 * u * (1 - u);
    return Vec2{a * p->fx + b * p->lx, a * p->fy + b * p->ly};
}
static ParamData g_param[16];
static int g_nparam = 0;

struct Builder {
    RobustPath rp;
    std::vector<ElemCfg> el;
    uint64_t n;
    double tol, Wmax;
    Rng* g;
    double heading;
    std::vector<double> corner;  // junction angles between consecutive sections (0 = tangent continuous)
    std::string desc;
    std::string construct_fail;  // a construction call did not store the section it was asked for
    std::vector<double> prev_w, prev_o;
    int construct_checked = 0;

    std::vector<Interpolation> wi, oi;
    // width / offset arguments: continuous with the current end values
    void pick(const Interpolation*& wp, const Interpolation*& op, bool no_smooth_off) {
        wi.assign(n, Interpolation{});
        oi.assign(n, Interpolation{});
        int wk = (int)g->below(4), ok = (int)g->below(4);
        if (no_smooth_off && ok == 2) ok = 1;
        for (uint64_t e = 0; e < n; e++) {
            double cw = rp.elements[e].end_width, co = rp.elements[e].end_offset;
            double tw = fabs(cw - el[e].w0) < 1e-12 ? el[e].w1 : el[e].w0;
            double to = fabs(co - el[e].o0) < 1e-12 ? el[e].o1 : el[e].o0;
            if (wk == 1) { wi[e].type = InterpolationType::Linear; wi[e].initial_value = cw; wi[e].final_value = tw; }
            else if (wk == 2) { wi[e].type = InterpolationType::Smooth; wi[e].initial_value = cw; wi[e].final_value = tw; }
            else { wi[e].type = InterpolationType::Constant; wi[e].value = cw; }
            if (ok == 1) { oi[e].type = InterpolationType::Linear; oi[e].initial_value = co; oi[e].final_value = to; }
            else if (ok == 2) { oi[e].type = InterpolationType::Smooth; oi[e].initial_value = co; oi[e].final_value = to; }
            else { oi[e].type = InterpolationType::Constant; oi[e].value = co; }
        }
        wp = wk == 0 ? NULL : wi.data();
        op = ok == 0 ? NULL : oi.data();
    }
    void update_heading() {
        if (rp.subpath_array.count == 0) return;
        Vec2 gr = rp.subpath_array[rp.subpath_array.count - 1].gradient(1, rp.trafo);
        if (gr.length_sq() > 0) heading = atan2(gr.y, gr.x);
    }
};

// one construction call; straight = allowed to make a corner (only after a straight section)
static void one_call(Builder& B, bool allow_corner) {
    Rng& g = *B.g;
    RobustPath& rp = B.rp;
    double W = B.Wmax;
    const Interpolation *wp, *op;
    double h = B.heading;
    bool last_straight = rp.subpath_array.count > 0 && rp.subpath_array[rp.subpath_array.count - 1].type == SubPathType::Segment;
    if (last_straight)
        for (uint64_t e = 0; e < B.n; e++)
            if (rp.elements[e].offset_array[rp.subpath_array.count - 1].type == InterpolationType::Smooth) last_straight = false;
    double turn = 0;
    int kind = (int)g.below(13);
    if ((kind == 0 || kind == 1 || kind == 2) && allow_corner && last_straight && g.chance(60)) turn = ((double)g.range(-60, 60)) * M_PI / 180;
    // a corner is only made between two sections whose centre lines are straight
    B.pick(wp, op, kind <= 2);
    B.prev_w.assign(B.n, 0.0);
    B.prev_o.assign(B.n, 0.0);
    for (uint64_t el = 0; el < B.n; el++) {
        B.prev_w[el] = rp.elements[el].end_width;
        B.prev_o[el] = rp.elements[el].end_offset;
    }
    Vec2 c = rp.end_point;
    bool rel = g.coin();
    double hh = h + turn;
    Vec2 f = Vec2{cos(hh), sin(hh)}, l = Vec2{-sin(hh), cos(hh)};
    double d = (8 + (double)g.below(5)) * W, e = ((double)g.range(-30, 30)) / 10.0 * W;
    Vec2 ref = rel ? Vec2{0, 0} : c;
    auto P = [&](double a, double s) { return ref + f * a + l * s; };
    uint64_t before = rp.subpath_array.count;
    char buf[256];
    // what the call is asked to build (independent of what it stores): control points of a polynomial section / the end point
    std::vector<Vec2> want_ctrl;
    bool smooth_ctrl = false;  // control points that involve the previous section's end gradient: compared to 1e-9, not 1e-12
    bool have_end = false;
    Vec2 want_end = {0, 0};
    auto T = [&](Vec2 p) { return rel ? c + p : p; };
    if (kind == 0) {
        rp.segment(P(d, 0), wp, op, rel);
        want_ctrl = {c, T(P(d, 0))};
        B.desc += "segment ";
    } else if (kind == 1 || kind == 2) {
        // horizontal / vertical only when the heading allows a small turn
        bool horiz = kind == 1;
        double hx = cos(h), hy = sin(h);
        double comp = horiz ? hx : hy;
        if (fabs(comp) > 0.5 && (last_straight || fabs(fabs(comp) - 1) < 1e-12) && allow_corner) {
            double sgn = comp >= 0 ? 1 : -1;
            double dd = sgn * d;
            if (horiz) rp.horizontal(rel ? dd : c.x + dd, wp, op, rel);
            else rp.vertical(rel ? dd : c.y + dd, wp, op, rel);
            want_ctrl = {c, horiz ? Vec2{c.x + dd, c.y} : Vec2{c.x, c.y + dd}};
            turn = 0;
            B.desc += horiz ? "horizontal " : "vertical ";
        } else {
            rp.segment(P(d, 0), wp, op, rel);
            want_ctrl = {c, T(P(d, 0))};
            B.desc += "segment ";
        }
    } else if (kind == 3) {
        double r = (5 + (double)g.below(5)) * W, ang = ((double)g.range(20, 100)) * M_PI / 180 * (g.coin() ? 1 : -1);
        rp.turn(r, ang, wp, op);
        {
            double a0t = h + (ang < 0 ? 0.5 * M_PI : -0.5 * M_PI);
            want_end = Vec2{c.x - r * cos(a0t) + r * cos(a0t + ang), c.y - r * sin(a0t) + r * sin(a0t + ang)};
            have_end = true;
        }
        B.desc += "turn ";
    } else if (kind == 4) {
        double r = (5 + (double)g.below(5)) * W, ang = ((double)g.range(20, 100)) * M_PI / 180 * (g.coin() ? 1 : -1);
        double a0 = h + (ang < 0 ? 0.5 * M_PI : -0.5 * M_PI);
        double ry = g.chance(30) ? r * (0.9 + 0.2 * (double)g.below(101) / 100.0) : r;
        rp.arc(r, ry, a0, a0 + ang, 0, wp, op);
        if (ry == r) {
            want_end = Vec2{c.x - r * cos(a0) + r * cos(a0 + ang), c.y - r * sin(a0) + r * sin(a0 + ang)};
            have_end = true;
        }
        B.desc += ry == r ? "arc " : "elliptical-arc ";
    } else if (kind == 5) {
        rp.cubic(P(d / 3, 0), P(2 * d / 3, e / 2), P(d, e), wp, op, rel);
        want_ctrl = {c, T(P(d / 3, 0)), T(P(2 * d / 3, e / 2)), T(P(d, e))};
        B.desc += "cubic ";
    } else if (kind == 6) {
        // smooth continuation: the implied first control point continues the end tangent of the previous section (a cubic's start
        // derivative is 3 (p1 - p0))
        Vec2 gprev = rp.subpath_array[before - 1].gradient(1, rp.trafo);
        rp.cubic_smooth(P(2 * d / 3, e / 2), P(d, e), wp, op, rel);
        want_ctrl = {c, c + gprev / 3, T(P(2 * d / 3, e / 2)), T(P(d, e))};
        smooth_ctrl = true;
        B.desc += "cubic_smooth ";
    } else if (kind == 7) {
        rp.quadratic(P(d / 2, 0), P(d, e), wp, op, rel);
        want_ctrl = {c, T(P(d / 2, 0)), T(P(d, e))};
        B.desc += "quadratic ";
    } else if (kind == 8) {
        Vec2 gprev = rp.subpath_array[before - 1].gradient(1, rp.trafo);  // a quadratic's start derivative is 2 (p1 - p0)
        rp.quadratic_smooth(P(d, e / 2), wp, op, rel);
        want_ctrl = {c, c + gprev / 2, T(P(d, e / 2))};
        smooth_ctrl = true;
        B.desc += "quadratic_smooth ";
    } else if (kind == 9) {
        std::vector<Vec2> pts = {P(d / 4, 0), P(d / 2, e / 2), P(3 * d / 4, e), P(d, e)};
        Array<Vec2> arr = {};
        arr.items = pts.data();
        arr.count = pts.size();
        rp.bezier(arr, wp, op, rel);
        want_ctrl = {c};
        for (auto& q : pts) want_ctrl.push_back(T(q));
        B.desc += "bezier ";
    } else if (kind == 10) {
        std::vector<Vec2> pts = {P(d, e / 2), P(2 * d, e)};
        Array<Vec2> arr = {};
        arr.items = pts.data();
        arr.count = pts.size();
        std::vector<double> angles(3, 0.0);
        bool cons[3] = {true, false, false};
        angles[0] = h;
        std::vector<Vec2> tension(3, Vec2{1, 1});
        // width / offset changes are not passed here: RobustPath::interpolation applies the same Interpolation to
        // every cubic piece (see the `taper` probe)
        rp.interpolation(arr, angles.data(), cons, tension.data(), 1, 1, false, NULL, NULL, rel);
        want_end = T(pts.back());
        have_end = true;
        B.desc += "interpolation ";
    } else if (kind == 11) {
        ParamData& pd = g_param[g_nparam++ % 16];
        pd = ParamData{f.x, f.y, l.x, l.y, d, e};
        rp.parametric(param_fn, &pd, g.coin() ? param_grad : NULL, &pd, wp, op, true);
        B.desc += "parametric ";
    } else {
        // commands: one or two instructions (widths / offsets stay constant)
        std::vector<CurveInstruction> v;
        auto num = [&](double x) { CurveInstruction ci; ci.number = x; v.push_back(ci); };
        auto cmd = [&](char ch) { CurveInstruction ci; ci.number = 0; ci.command = ch; v.push_back(ci); };
        int t = (int)g.below(5);
        Vec2 p1 = f * (d / 3), p2 = f * (2 * d / 3) + l * (e / 2), p3 = f * d + l * e;
        if (t == 0) { cmd('l'); num(f.x * d); num(f.y * d); }
        else if (t == 1) { cmd('q'); num(p1.x * 1.5); num(p1.y * 1.5); num(p3.x); num(p3.y); }
        else if (t == 2) { cmd('s'); num(p2.x); num(p2.y); num(p3.x); num(p3.y); }
        else if (t == 3) { cmd('a'); num(6 * W); num((g.coin() ? 1 : -1) * ((double)g.range(20, 90)) * M_PI / 180); }
        else { cmd('t'); num(p3.x); num(p3.y); }
        rp.commands(v.data(), v.size());
        B.desc += "commands ";
    }
    // construction oracle, widths and offsets: every section the call appended carries, per element, the interpolation that was
    // passed (or, with no argument, the constant value the element ended with before the call)
    if (B.construct_fail.empty() && kind != 10 && kind < 12)
        for (uint64_t si = before; si < rp.subpath_array.count && B.construct_fail.empty(); si++)
            for (uint64_t el = 0; el < B.n && B.construct_fail.empty(); el++)
                for (int which = 0; which < 2; which++) {
                    const Array<Interpolation>& arr2 = which == 0 ? rp.elements[el].width_array : rp.elements[el].offset_array;
                    const Interpolation* passed = which == 0 ? wp : op;
                    if (arr2.count != rp.subpath_array.count) {
                        snprintf(buf, sizeof buf, "element %d holds %d %s interpolations for %d sections", (int)el, (int)arr2.count, which ? "offset" : "width", (int)rp.subpath_array.count);
                        B.construct_fail = buf;
                        break;
                    }
                    const Interpolation& got = arr2[si];
                    bool okw;
                    if (passed) {
                        const Interpolation& w0 = passed[el];
                        okw = got.type == w0.type && (w0.type == InterpolationType::Constant ? got.value == w0.value
                                                                                            : (got.initial_value == w0.initial_value && got.final_value == w0.final_value));
                    } else {
                        double prev = which == 0 ? B.prev_w[el] : B.prev_o[el];
                        okw = got.type == InterpolationType::Constant && got.value == prev;
                    }
                    if (!okw) {
                        snprintf(buf, sizeof buf, "section %d element %d: the %s interpolation stored is not the one the call (%s, last word) was given", (int)si, (int)el,
                                 which ? "offset" : "width", B.desc.c_str());
                        B.construct_fail = buf;
                    }
                }
    // construction oracle: the stored section / the new end point against the arguments of the call
    if (B.construct_fail.empty() && rp.subpath_array.count > before) {
        double sc = 1;
        for (auto& q : want_ctrl) sc = std::max(sc, std::max(fabs(q.x), fabs(q.y)));
        sc = std::max(sc, std::max(fabs(c.x), fabs(c.y)));
        if (!want_ctrl.empty()) {
            std::vector<V> got = ctrl_of(rp.subpath_array[rp.subpath_array.count - 1]);
            B.construct_checked++;
            if (got.size() != want_ctrl.size() || rp.subpath_array.count != before + 1) {
                snprintf(buf, sizeof buf, "call %d (%s): the section stored has %d control points, %d asked for", (int)before, B.desc.c_str(), (int)got.size(), (int)want_ctrl.size());
                B.construct_fail = buf;
            } else
                for (size_t i = 0; i < got.size(); i++)
                    if (fabsl(got[i].x - (ld)want_ctrl[i].x) > (smooth_ctrl ? 1e-9L : 1e-12L) * sc ||
                        fabsl(got[i].y - (ld)want_ctrl[i].y) > (smooth_ctrl ? 1e-9L : 1e-12L) * sc) {
                        snprintf(buf, sizeof buf, "control point %d of the section stored is (%.12Lg, %.12Lg), the call (%s, last word; %s) asks for (%.12g, %.12g)", (int)i,
                                 got[i].x, got[i].y, B.desc.c_str(), rel ? "relative" : "absolute", want_ctrl[i].x, want_ctrl[i].y);
                        B.construct_fail = buf;
                        break;
                    }
            want_end = want_ctrl.back();
            have_end = true;
        }
        if (have_end && B.construct_fail.empty()) {
            B.construct_checked++;
            if (fabs(rp.end_point.x - want_end.x) > 1e-9 * sc || fabs(rp.end_point.y - want_end.y) > 1e-9 * sc) {
                snprintf(buf, sizeof buf, "after the call (%s, last word; %s) the end point is (%.12g, %.12g), the call asks for (%.12g, %.12g)", B.desc.c_str(),
                         rel ? "relative" : "absolute", rp.end_point.x, rp.end_point.y, want_end.x, want_end.y);
                B.construct_fail = buf;
            }
        }
    }
    for (uint64_t i = before; i < rp.subpath_array.count; i++) B.corner.push_back(i == before ? turn : 0.0);
    B.update_heading();
}

// ------------------------------------------------------------------ centre curve of an element, long double
struct CentreCurve {
    std::vector<V> pts;
    std::vector<ld> hw;
    V t_first, t_last;
    ld theta_max = 0, slope_max = 0;
};
static V centre_at(const RobustPath& rp, const RobustPathElement& el, uint64_t s, ld u) {
    const SubPath& sub = rp.subpath_array[s];
    V p = apply(rp.trafo, sec_point(sub, u));
    V gr = apply_lin(rp.trafo, sec_deriv(sub, u));
    ld off = interp_l(el.offset_array[s], u) * rp.offset_scale;
    return p + unitl(orthol(gr)) * off;
}
static void flatten(const RobustPath& rp, const RobustPathElement& el, uint64_t s, ld u0, V p0, ld u1, V p1, ld sag, int depth,
                    std::vector<V>& out, std::vector<ld>& us) {
    ld um = (u0 + u1) / 2;
    V pm = centre_at(rp, el, s, um);
    V q1 = centre_at(rp, el, s, u0 + (u1 - u0) * 0.25L), q3 = centre_at(rp, el, s, u0 + (u1 - u0) * 0.75L);
    ld dev = std::max(dist_point_seg(pm, p0, p1), std::max(dist_point_seg(q1, p0, p1), dist_point_seg(q3, p0, p1)));
    if (dev > sag && depth < 14) {
        flatten(rp, el, s, u0, p0, um, pm, sag, depth + 1, out, us);
        flatten(rp, el, s, um, pm, u1, p1, sag, depth + 1, out, us);
    } else {
        out.push_back(p1);
        us.push_back(u1);
    }
}
static CentreCurve centre_curve(const RobustPath& rp, const RobustPathElement& el, const std::vector<double>& corner, ld sag) {
    CentreCurve C;
    uint64_t ns = rp.subpath_array.count;
    for (uint64_t s = 0; s < ns; s++) {
        std::vector<V> pts;
        std::vector<ld> us;
        V p0 = centre_at(rp, el, s, 0);
        pts.push_back(p0);
        us.push_back(0);
        const int N0 = 8;
        V prev = p0;
        for (int i = 0; i < N0; i++) {
            ld u0 = (ld)i / N0, u1 = (ld)(i + 1) / N0;
            V p1 = centre_at(rp, el, s, u1);
            flatten(rp, el, s, u0, prev, u1, p1, sag, 0, pts, us);
            prev = p1;
        }
        size_t start = 0;
        bool keep_first = false;
        if (s > 0) {
            // kink between the end of the previous centre curve and the start of this one
            V a1 = C.pts[C.pts.size() - 1], a0 = C.pts[C.pts.size() - 2];
            V t0 = unitl(a1 - a0), t1 = unitl(pts[1] - pts[0]);
            ld den = crossl(t0, t1);
            ld th = atan2l(fabsl(den), dotl(t0, t1));
            bool straight = rp.subpath_array[s - 1].type == SubPathType::Segment && rp.subpath_array[s].type == SubPathType::Segment &&
                            el.offset_array[s - 1].type != InterpolationType::Smooth && el.offset_array[s].type != InterpolationType::Smooth &&
                            el.offset_array[s - 1].type != InterpolationType::Parametric && el.offset_array[s].type != InterpolationType::Parametric;
            if (th > 1e-3L) {
                C.theta_max = std::max(C.theta_max, th);
                if (straight && fabsl(den) > 1e-9L) {
                    // corner between two straight sections: on the inner side the two displaced lines cross inside
                    // the sections; on the outer side SubPath::eval continues the spine straight and interp clamps the
                    // offset, so the continuations are parallel to the spines
                    ld u = crossl(pts[0] - a1, t1) / den, v = crossl(pts[0] - a1, t0) / den;
                    if (u <= 0 && v >= 0) {
                        C.pts[C.pts.size() - 1] = a1 + t0 * u;
                    } else {
                        V s0 = unitl(apply_lin(rp.trafo, sec_deriv(rp.subpath_array[s - 1], 1)));
                        V s1 = unitl(apply_lin(rp.trafo, sec_deriv(rp.subpath_array[s], 0)));
                        ld den2 = crossl(s0, s1);
                        if (fabsl(den2) > 1e-9L) {
                            ld u2 = crossl(pts[0] - a1, s1) / den2;
                            C.pts.push_back(a1 + s0 * u2);
                            C.hw.push_back(C.hw.back());
                            keep_first = true;
                        }
                    }
                } else if (lenl(pts[0] - a1) > 1e-9L) {
                    C.pts.push_back(pts[0]);  // a gap between the two centre curves is bridged by a straight piece
                    C.hw.push_back(0.5L * interp_l(el.width_array[s], 0) * rp.width_scale);
                }
            }
            start = keep_first ? 0 : 1;  // the first point coincides with (or is replaced by) the last one of the previous section
        }
        for (size_t i = start; i < pts.size(); i++) {
            C.pts.push_back(pts[i]);
            C.hw.push_back(0.5L * interp_l(el.width_array[s], us[i]) * rp.width_scale);
        }
        if (s == 0) C.hw[0] = 0.5L * interp_l(el.width_array[0], 0) * rp.width_scale;
    }
    ld h = 1e-6L;
    C.t_first = unitl(centre_at(rp, el, 0, h) - centre_at(rp, el, 0, 0));
    C.t_last = unitl(centre_at(rp, el, ns - 1, 1) - centre_at(rp, el, ns - 1, 1 - h));
    for (size_t i = 0; i + 1 < C.pts.size(); i++) {
        ld l = lenl(C.pts[i + 1] - C.pts[i]);
        if (l > 1e-9L) C.slope_max = std::max(C.slope_max, fabsl(C.hw[i + 1] - C.hw[i]) / l);
    }
    return C;
}

// ------------------------------------------------------------------ region
static void region_case(Builder& B, uint64_t e, const std::string& gid, Polygon* poly, Emit& em) {
    RobustPath& rp = B.rp;
    const ElemCfg& cfg = B.el[e];
    for (uint64_t i = 0; i < poly->point_array.count; i++)
        if (!std::isfinite(poly->point_array[i].x) || !std::isfinite(poly->point_array[i].y)) {
            em.K("outline", gid + ":" + std::to_string(e));
            em.I("nan");
            em.P("FAIL robustpath-outline-nan the outline has NaN or infinite vertices (" + B.desc + ")");
            return;
        }
    ld tol = B.tol;
    // precondition: the spine never curves tighter than twice the lateral reach of the elements (inside that
    // radius the displaced curve has cusps and "within half the width of the centre curve" is ambiguous)
    for (uint64_t s = 0; s < rp.subpath_array.count; s++)
        for (int i = 0; i <= 64; i++) {
            ld u = (ld)i / 64, hh = 1e-4L;
            ld ua = u - hh < 0 ? 0 : u - hh, ub = u + hh > 1 ? 1 : u + hh;
            V d1 = sec_deriv(rp.subpath_array[s], u);
            V d2 = (sec_deriv(rp.subpath_array[s], ub) - sec_deriv(rp.subpath_array[s], ua)) * (1 / (ub - ua));
            ld sp = lenl(d1);
            if (sp <= 0) continue;
            ld kappa = fabsl(crossl(d1, d2)) / (sp * sp * sp);
            if (kappa * 2 * (ld)B.Wmax > 1) {
                em.T("region-skipped-tight-curvature");
                return;
            }
        }
    CentreCurve C = centre_curve(rp, rp.elements[e], B.corner, tol / 8);
    ld tolc = 4 * tol + 1e-6L, tolf = 4 * tol + 1e-6L;
    ld reach = (1 / cosl(C.theta_max / 2)) * (1 + C.slope_max);
    size_t m = C.pts.size();
    std::vector<ld> rc(m - 1), rf(m - 1);
    for (size_t i = 0; i + 1 < m; i++) {
        ld lo = std::min(C.hw[i], C.hw[i + 1]), hi = std::max(C.hw[i], C.hw[i + 1]);
        ld c = lo * (1 - C.slope_max) - tolc;
        rc[i] = c > 0 ? c : 0;
        rf[i] = reach * hi + tolf;
    }
    ld hw0 = C.hw[0], hw1 = C.hw[m - 1];
    ld ext0 = 0, ext1 = 0;
    bool plane_needed = true;
    bool straight_cap = cfg.end == EndType::Flush || cfg.end == EndType::HalfWidth || cfg.end == EndType::Extended;
    switch (cfg.end) {
        case EndType::Flush: break;
        case EndType::HalfWidth: ext0 = hw0; ext1 = hw1; break;
        case EndType::Extended: ext0 = cfg.ext.u; ext1 = cfg.ext.v; break;
        case EndType::Round: plane_needed = false; break;
        default: ext0 = 1.5L * hw0; ext1 = 1.5L * hw1; break;
    }
    std::vector<V> cext, ccov;
    std::vector<ld> rfe, rcc;
    ld capf = (cfg.end == EndType::Smooth ? 1.5L : 1.0L);
    if (ext0 > 0) {
        cext.push_back(C.pts[0] - C.t_first * ext0);
        rfe.push_back(capf * hw0 * (1 + C.slope_max) + tolf);
        if (straight_cap) {
            ccov.push_back(C.pts[0] - C.t_first * ext0);
            rcc.push_back(hw0 - tolc > 0 ? hw0 - tolc : 0);
        }
    }
    for (size_t i = 0; i < m; i++) {
        cext.push_back(C.pts[i]);
        ccov.push_back(C.pts[i]);
        if (i + 1 < m) {
            rfe.push_back(rf[i]);
            rcc.push_back(rc[i]);
        }
    }
    if (ext1 > 0) {
        cext.push_back(C.pts[m - 1] + C.t_last * ext1);
        rfe.push_back(capf * hw1 * (1 + C.slope_max) + tolf);
        if (straight_cap) {
            ccov.push_back(C.pts[m - 1] + C.t_last * ext1);
            rcc.push_back(hw1 - tolc > 0 ? hw1 - tolc : 0);
        }
    }
    const ld S20 = 1048576.0L;
    auto plane_str = [&](V ep, V td, ld margin) {
        int64_t mg = (int64_t)ceill(margin * (ld)GRID * S20);
        return hex_i64(togridl(ep.x)) + " " + hex_i64(togridl(ep.y)) + " " + hex_i64((int64_t)llroundl(td.x * S20)) + " " +
               hex_i64((int64_t)llroundl(td.y * S20)) + " " + hex_i64(mg);
    };
    V cap0 = C.pts[0] - C.t_first * (straight_cap ? ext0 : 0), cap1 = C.pts[m - 1] + C.t_last * (straight_cap ? ext1 : 0);
    std::string planes;
    if (plane_needed) planes = plane_str(cap0, C.t_first * (-1.0L), tolc) + " " + plane_str(cap1, C.t_last, tolc);
    std::string capstr[2];
    if (straight_cap) {
        for (int side = 0; side < 2; side++) {
            V ep = side ? cap1 : cap0;
            V td = side ? C.t_last : C.t_first * (-1.0L);
            ld clear = 2.5L * (side ? rfe.back() : rfe.front()) + (side ? ext1 : ext0);
            V endp = side ? C.pts[m - 1] : C.pts[0];
            std::vector<bool> keep(cext.size() - 1);
            for (size_t i = 0; i + 1 < cext.size(); i++) keep[i] = lenl(cext[i] - endp) > clear && lenl(cext[i + 1] - endp) > clear;
            // the dropped pieces must be one run at that end
            size_t first_keep = 0, last_keep = 0;
            bool any = false;
            for (size_t i = 0; i < keep.size(); i++)
                if (keep[i]) {
                    if (!any) first_keep = i;
                    last_keep = i;
                    any = true;
                }
            bool simple = true;
            if (any)
                for (size_t i = first_keep; i <= last_keep; i++)
                    if (!keep[i]) simple = false;
            if (any && (side == 0 ? last_keep + 1 != keep.size() : first_keep != 0)) simple = false;
            if (!simple) continue;
            std::vector<V> rest;
            std::string rr;
            if (any) {
                for (size_t i = first_keep; i <= last_keep; i++) {
                    rest.push_back(cext[i]);
                    rr += (rr.empty() ? "" : " ") + hex_i64((int64_t)floorl(rfe[i] * (ld)GRID));
                }
                rest.push_back(cext[last_keep + 1]);
            }
            capstr[side] = plane_str(ep, td, tolf) + "|" + hexpts(rest) + "|" + rr;
        }
    }
    // samples
    std::vector<V> smp;
    Rng& g = *B.g;
    auto lat = [&](size_t i, ld f, ld dist) {
        V p = C.pts[i] + (C.pts[i + 1] - C.pts[i]) * f;
        V nn = orthol(unitl(C.pts[i + 1] - C.pts[i]));
        smp.push_back(p + nn * dist);
        smp.push_back(p - nn * dist);
    };
    size_t stride = m > 8 ? (m + 6) / 7 : 1;
    for (size_t i = (m > 8 ? g.below(stride) : 0); i + 1 < m; i += stride) {
        ld f = 0.05L + 0.9L * (ld)g.below(1001) / 1000.0L;
        ld hwl = C.hw[i] + (C.hw[i + 1] - C.hw[i]) * f;
        smp.push_back(C.pts[i] + (C.pts[i + 1] - C.pts[i]) * f);
        lat(i, f, (0.2L + 0.6L * (ld)g.below(101) / 100.0L) * hwl);
        lat(i, f, 0.97L * rc[i]);
        lat(i, f, rf[i] * 1.03L);
        lat(i, f, rf[i] * 1.3L + (ld)g.below(100) / 100.0L * hwl);
    }
    for (int side = 0; side < 2; side++) {
        V ep = side ? C.pts[m - 1] : C.pts[0];
        V td = side ? C.t_last : C.t_first * (-1.0L);
        V nn = orthol(td);
        ld hwl = side ? hw1 : hw0, ex = side ? ext1 : ext0;
        ld along[5] = {-0.5L * hwl, ex * 0.5L + 0.05L * hwl, ex + 0.4L * hwl, ex + 1.15L * hwl, ex + 2.2L * hwl};
        ld lats[3] = {0.1L, 0.8L, -1.25L};
        for (ld al : along)
            for (ld lt : lats) smp.push_back(ep + td * al + nn * (lt * hwl));
    }
    {
        ld x0 = 1e300L, y0 = 1e300L, x1 = -1e300L, y1 = -1e300L;
        for (auto& p : cext) {
            x0 = std::min(x0, p.x); y0 = std::min(y0, p.y); x1 = std::max(x1, p.x); y1 = std::max(y1, p.y);
        }
        ld mg = 3 * std::max(hw0, hw1);
        for (int i = 0; i < 8; i++)
            smp.push_back(V{x0 - mg + (x1 - x0 + 2 * mg) * (ld)g.below(10001) / 10000.0L,
                            y0 - mg + (y1 - y0 + 2 * mg) * (ld)g.below(10001) / 10000.0L});
    }
    std::vector<V> outline;
    for (uint64_t i = 0; i < poly->point_array.count; i++) outline.push_back(tov(poly->point_array[i]));
    auto radii = [&](const std::vector<ld>& r) {
        std::string s;
        for (size_t i = 0; i < r.size(); i++) {
            if (i) s += " ";
            s += hex_i64((int64_t)floorl(r[i] * (ld)GRID));
        }
        return s;
    };
    std::string payload = gid + ":" + std::to_string(e) + ";band=0;O=" + hexpts(outline) + ";C=" + hexpts(ccov) + ";E=" + hexpts(cext) +
                          ";RC=" + radii(rcc) + ";RF=" + radii(rfe) + ";PL=" + planes + ";K0=" + capstr[0] + ";K1=" + capstr[1] +
                          ";S=" + hexpts(smp);
    em.K("region", payload);
    em.I("ok");
    em.T(std::string("region-end-") + end_type_name(cfg.end));
    if (C.theta_max > 1e-6L) em.T("region-with-corner");
    if (C.slope_max > 1e-9L) em.T("region-with-tapering-width");
}

// ------------------------------------------------------------------ queries against formulas and finite differences
static void fd_case(Builder& B, const std::string& gid, Emit& em) {
    RobustPath& rp = B.rp;
    Rng& g = *B.g;
    uint64_t ns = rp.subpath_array.count;
    std::string fail;
    char buf[300];
    ld scale = 1;
    for (uint64_t s = 0; s < ns; s++) scale = std::max(scale, lenl(apply(rp.trafo, sec_point(rp.subpath_array[s], 0.5L))));
    for (int it = 0; it < 24 && fail.empty(); it++) {
        uint64_t s = g.below(ns);
        ld ul = (ld)g.below(1000001) / 1000000.0L;
        if (it < 4) ul = it == 0 ? 0 : (it == 1 ? 1 : (it == 2 ? 0.5L : 0.25L));
        double u = (double)((ld)s + ul);
        bool from_below = g.coin();
        // which section the query uses
        uint64_t idx = (uint64_t)u;
        ld ulq = (ld)u - idx;
        if (u >= (double)ns) { idx = ns - 1; ulq = 1; }
        else if (from_below && ulq == 0 && idx > 0) { idx--; ulq = 1; }
        const SubPath& sub = rp.subpath_array[idx];
        V want = apply(rp.trafo, sec_point(sub, ulq));
        Vec2 got = rp.position(u, from_below);
        if (lenl(tov(got) - want) > 1e-10L * scale) {
            snprintf(buf, sizeof buf, "position(%.17g, %d) = (%.12g, %.12g), section formula gives (%.12Lg, %.12Lg)", u, (int)from_below, got.x, got.y, want.x, want.y);
            fail = std::string("FAIL robustpath-position ") + buf;
            break;
        }
        V wantg = apply_lin(rp.trafo, sec_deriv(sub, ulq));
        Vec2 gotg = rp.gradient(u, from_below);
        // without a gradient function SubPath::gradient is a one-sided difference with step 1 / (10 max_evals) at the ends
        ld gtol = sub.type == SubPathType::Parametric ? (sub.path_gradient == NULL ? 5e-3L : 1e-4L) : 1e-9L;
        if (lenl(tov(gotg) - wantg) > gtol * (1 + lenl(wantg))) {
            snprintf(buf, sizeof buf, "gradient(%.17g, %d) = (%.12g, %.12g), derivative of the section is (%.12Lg, %.12Lg)", u, (int)from_below, gotg.x, gotg.y, wantg.x, wantg.y);
            fail = std::string("FAIL robustpath-gradient ") + buf;
            break;
        }
        // finite difference of position inside the section
        if (ulq > 1e-3L && ulq < 1 - 1e-3L) {
            double hq = 1e-6;
            Vec2 pa = rp.position(u - hq, false), pb = rp.position(u + hq, false);
            V fdv = (tov(pb) - tov(pa)) * (1 / (2 * (ld)hq));
            if (lenl(fdv - tov(gotg)) > 1e-4L * (1 + lenl(wantg))) {
                snprintf(buf, sizeof buf, "gradient(%.17g) = (%.9g, %.9g), central difference of position gives (%.9Lg, %.9Lg)", u, gotg.x, gotg.y, fdv.x, fdv.y);
                fail = std::string("FAIL robustpath-gradient-fd ") + buf;
                break;
            }
        }
        std::vector<double> wv(B.n), ov(B.n);
        rp.width(u, from_below, wv.data());
        rp.offset(u, from_below, ov.data());
        for (uint64_t e = 0; e < B.n; e++) {
            ld ww = interp_l(rp.elements[e].width_array[idx], ulq) * rp.width_scale;
            ld wo = interp_l(rp.elements[e].offset_array[idx], ulq) * rp.offset_scale;
            if (fabsl(ww - wv[e]) > 1e-12L * (1 + fabsl(ww)) || fabsl(wo - ov[e]) > 1e-12L * (1 + fabsl(wo))) {
                snprintf(buf, sizeof buf, "width/offset(%.17g, %d) element %d = %.12g / %.12g, interpolation of section %d gives %.12Lg / %.12Lg", u,
                         (int)from_below, (int)e, wv[e], ov[e], (int)idx, ww, wo);
                fail = std::string("FAIL robustpath-width-offset ") + buf;
                break;
            }
        }
    }
    // adjacent sections meet
    for (uint64_t s = 1; s < ns && fail.empty(); s++) {
        Vec2 a = rp.position((double)s, true), b = rp.position((double)s, false);
        if (lenl(tov(a) - tov(b)) > 1e-9L * scale) {
            snprintf(buf, sizeof buf, "section %d ends at (%.12g, %.12g), section %d starts at (%.12g, %.12g)", (int)s - 1, a.x, a.y, (int)s, b.x, b.y);
            fail = std::string("FAIL robustpath-sections-gap ") + buf;
        }
    }
    // spine(): every vertex on the exact spine within the tolerance, and conversely
    if (fail.empty()) {
        Array<Vec2> sp = {};
        rp.spine(sp);
        std::vector<V> got, ref;
        for (uint64_t i = 0; i < sp.count; i++) got.push_back(tov(sp[i]));
        sp.clear();
        for (uint64_t s = 0; s < ns; s++)
            for (int i = (s ? 1 : 0); i <= 200; i++) ref.push_back(apply(rp.trafo, sec_point(rp.subpath_array[s], (ld)i / 200)));
        bool cornered = false;
        for (double c : B.corner) if (fabs(c) > 1e-9) cornered = true;
        ld dev = poly_dev(got, ref);
        if (dev > 2 * (ld)B.tol + 1e-3L * (ld)B.Wmax && !cornered) {
            snprintf(buf, sizeof buf, "spine() deviates %.6Lg from the exact spine (tolerance %g)", dev, B.tol);
            fail = std::string("FAIL robustpath-spine ") + buf;
        }
    }
    em.K("fd", gid);
    em.I(fail.empty() ? "ok" : "differs");
    em.P(fail.empty() ? "ok" : fail + " [" + B.desc + "]");
}

// ------------------------------------------------------------------ PATH records
static void record_case(Builder& B, bool oas, const std::string& gid, const std::string& outdir, Emit& em) {
    RobustPath& rp = B.rp;
    char fname[512];
    snprintf(fname, sizeof fname, "%s/c08_%d.%s", outdir.c_str(), (int)getpid(), oas ? "oas" : "gds");
    Library lib = {};
    lib.init("L", 1e-6, 1e-9);
    Cell cell = {};
    cell.init("C");
    lib.cell_array.append(&cell);
    rp.simple_path = true;
    cell.robustpath_array.append(&rp);
    ErrorCode werr = oas ? lib.write_oas(fname, 0, 0, 0) : lib.write_gds(fname, 0, NULL);
    rp.simple_path = false;
    cell.robustpath_array.count = 0;
    lib.cell_array.count = 0;
    em.K(oas ? "oas" : "gds", gid);
    // IntersectionNotFound is advisory: the junction search between two sections stopped a few tolerances short (the same code
    // is tolerated from to_polygons); the record is written all the same and is judged below like any other
    if (werr == ErrorCode::IntersectionNotFound) em.T(oas ? "oas-write-reports-intersection-not-found" : "gds-write-reports-intersection-not-found");
    else if (werr != ErrorCode::NoError) {
        em.I("write-error");
        em.P("FAIL robustpath-record-write write returned an error code");
        unlink(fname);
        return;
    }
    ErrorCode rerr = ErrorCode::NoError;
    Library back = oas ? read_oas(fname, 0, B.tol, &rerr) : read_gds(fname, 0, B.tol, NULL, &rerr);
    unlink(fname);
    std::string fail;
    char buf[300];
    if (back.cell_array.count != 1 || back.cell_array[0]->flexpath_array.count != B.n) {
        fail = "FAIL robustpath-record-count the file does not hold one PATH per element";
    } else {
        for (uint64_t e = 0; e < B.n && fail.empty(); e++) {
            FlexPath* fp = back.cell_array[0]->flexpath_array[e];
            CentreCurve C = centre_curve(rp, rp.elements[e], B.corner, (ld)B.tol / 8);
            std::vector<V> got;
            for (uint64_t i = 0; i < fp->spine.point_array.count; i++) got.push_back(tov(fp->spine.point_array[i]));
            ld dev = poly_dev(got, C.pts);
            // the intersection search at a junction stops once the two curve points are within tol of each other; at a
            // shallow kink that point is a few tol away from the crossing itself; 3e-3 = database grid of the file
            ld lim = 8 * (ld)B.tol + 3e-3L;
            if (getenv("C08_TRACE")) {
                fprintf(stderr, " element %d record centre (read back):", (int)e);
                for (auto& p : got) fprintf(stderr, " (%.4Lf,%.4Lf)", p.x, p.y);
                fprintf(stderr, "\n  centre curve here:");
                for (auto& p : C.pts) fprintf(stderr, " (%.4Lf,%.4Lf)", p.x, p.y);
                fprintf(stderr, "\n  deviation %.6Lg\n", dev);
            }
            if (dev > lim) {
                snprintf(buf, sizeof buf, "element %d: PATH centre line deviates %.6Lg from the centre curve (limit %.3Lg)", (int)e, dev, lim);
                fail = std::string("FAIL robustpath-record-centre ") + buf;
                break;
            }
            double w_back = 2 * fp->elements[0].half_width_and_offset[0].u;
            double w_orig = interp_l(rp.elements[e].width_array[0], 0) * rp.width_scale;
            if (fabs(w_back - w_orig) > 1.5e-3) {
                snprintf(buf, sizeof buf, "element %d: width %.9g written, %.9g read back", (int)e, w_orig, w_back);
                if (oas && fabs(w_back - 2 * w_orig) <= 3e-3)
                    fail = std::string("FAIL RobustPath::to_oas:half-width to_oas stores the full width in the half-width field: ") + buf;
                else
                    fail = std::string("FAIL robustpath-record-width ") + buf;
                break;
            }
            EndType want = B.el[e].end == EndType::Smooth ? EndType::Round : B.el[e].end;
            EndType have = fp->elements[0].end_type;
            if (want != EndType::Extended && have != want) {
                if (oas && want == EndType::Round && have == EndType::Flush)
                    fail = "FAIL RobustPath::to_oas:round-end-flush a round-ended path is written to OASIS with flush ends (the format has no round ends)";
                else {
                    snprintf(buf, sizeof buf, "element %d: end type %s written, %s read back", (int)e, end_type_name(B.el[e].end), end_type_name(have));
                    fail = std::string("FAIL robustpath-record-end ") + buf;
                }
            }
        }
    }
    back.free_all();
    em.I(fail.empty() ? "ok" : "differs");
    em.P(fail.empty() ? "ok" : fail);
}

// ------------------------------------------------------------------ exact query cases (model correspondence)
static std::string hx(double d) { return hex_dbl(d == 0 ? 0.0 : d); }  // -0 printed as 0

static void query_cases(uint64_t seed, uint64_t idx, Emit& em) {
    Rng g(seed * 1000003ULL + idx * 7919ULL + 31);
    std::string construct_fail;
    RobustPath rp = {};
    uint64_t n = 1 + g.below(2);
    rp.num_elements = n;
    rp.elements = (RobustPathElement*)allocate_clear(n * sizeof(RobustPathElement));
    std::vector<double> w, o;
    std::vector<Tag> tags;
    for (uint64_t e = 0; e < n; e++) {
        w.push_back(0.25 * (double)(1 + g.below(16)));
        o.push_back(0.25 * (double)g.range(-16, 16));
        tags.push_back(0);
    }
    auto dy = [&]() { return 0.25 * (double)g.range(-200, 200); };
    rp.init(Vec2{dy(), dy()}, w.data(), o.data(), 0.01, 1000, tags.data());
    // description of the path for the model: sections and interpolations
    std::string secs;
    std::vector<std::string> wdesc(n), odesc(n);
    int nsec = 1 + (int)g.below(4);
    for (int i = 0; i < nsec; i++) {
        std::vector<Interpolation> wi(n), oi(n);
        bool give_w = g.coin(), give_o = g.coin();
        for (uint64_t e = 0; e < n; e++) {
            for (int k = 0; k < 2; k++) {
                Interpolation ip = {};
                int t = (int)g.below(3);
                double cur = k == 0 ? rp.elements[e].end_width : rp.elements[e].end_offset;
                double nv = k == 0 ? 0.25 * (double)(1 + g.below(16)) : 0.25 * (double)g.range(-16, 16);
                std::string d;
                if (!(k == 0 ? give_w : give_o)) {
                    d = "c " + hx(cur);
                } else if (t == 0) {
                    ip.type = InterpolationType::Constant; ip.value = nv;
                    d = "c " + hx(nv);
                } else {
                    ip.type = t == 1 ? InterpolationType::Linear : InterpolationType::Smooth;
                    ip.initial_value = cur; ip.final_value = nv;
                    d = std::string(t == 1 ? "l " : "s ") + hx(cur) + " " + hx(nv);
                }
                if (k == 0) { wi[e] = ip; wdesc[e] += (wdesc[e].empty() ? "" : ",") + d; }
                else { oi[e] = ip; odesc[e] += (odesc[e].empty() ? "" : ",") + d; }
            }
        }
        const Interpolation* wp = give_w ? wi.data() : NULL;
        const Interpolation* op = give_o ? oi.data() : NULL;
        int kind = (int)g.below(6);
        bool rel = g.coin();
        Vec2 c = rp.end_point;
        auto pt = [&]() { return Vec2{dy(), dy()}; };
        auto T = [&](Vec2 p) { return rel ? c + p : p; };
        std::vector<Vec2> want;  // the control points the call asks for (dyadic: the additions are exact)
        if (kind == 0) { Vec2 a = pt(); rp.segment(a, wp, op, rel); want = {c, T(a)}; }
        else if (kind == 1) { double x = dy(); rp.horizontal(x, wp, op, rel); want = {c, Vec2{rel ? c.x + x : x, c.y}}; }
        else if (kind == 2) { double y = dy(); rp.vertical(y, wp, op, rel); want = {c, Vec2{c.x, rel ? c.y + y : y}}; }
        else if (kind == 3) { Vec2 a = pt(), b2 = pt(); rp.quadratic(a, b2, wp, op, rel); want = {c, T(a), T(b2)}; }
        else if (kind == 4) { Vec2 a = pt(), b2 = pt(), c3 = pt(); rp.cubic(a, b2, c3, wp, op, rel); want = {c, T(a), T(b2), T(c3)}; }
        else {
            std::vector<Vec2> pts;
            int m = 1 + (int)g.below(5);
            for (int j = 0; j < m; j++) pts.push_back(pt());
            Array<Vec2> arr = {};
            arr.items = pts.data();
            arr.count = pts.size();
            rp.bezier(arr, wp, op, rel);
            want = {c};
            for (auto& q : pts) want.push_back(T(q));
        }
        if (construct_fail.empty()) {
            std::vector<V> got = ctrl_of(rp.subpath_array[rp.subpath_array.count - 1]);
            bool okc = got.size() == want.size();
            for (size_t j = 0; okc && j < got.size(); j++) okc = got[j].x == (ld)want[j].x && got[j].y == (ld)want[j].y;
            if (!okc || rp.end_point.x != want.back().x || rp.end_point.y != want.back().y) {
                char cb[200];
                snprintf(cb, sizeof cb, "section %d (call kind %d, %s): the stored control points / end point (%.9g, %.9g) are not those the call asks for (end (%.9g, %.9g))",
                         (int)rp.subpath_array.count - 1, kind, rel ? "relative" : "absolute", rp.end_point.x, rp.end_point.y, want.back().x, want.back().y);
                construct_fail = cb;
            }
        }
    }
    // dyadic transformation: translate, scale by a power of two
    if (g.coin()) rp.translate(Vec2{dy(), dy()});
    if (g.coin()) {
        rp.scale_width = g.coin();
        rp.scale(g.coin() ? 2 : 0.5, Vec2{dy(), dy()});
    }
    // serialise the sections as stored
    for (uint64_t s = 0; s < rp.subpath_array.count; s++) {
        const SubPath& sub = rp.subpath_array[s];
        std::vector<V> c = ctrl_of(sub);
        std::string t = sub.type == SubPathType::Segment ? "S" : (sub.type == SubPathType::Bezier2 ? "Q" : (sub.type == SubPathType::Bezier3 ? "C" : "B"));
        for (auto& p : c) t += " " + hx((double)p.x) + " " + hx((double)p.y);
        secs += (secs.empty() ? "" : ",") + t;
    }
    std::string tr;
    for (int i = 0; i < 6; i++) tr += (i ? " " : "") + hx(rp.trafo[i]);
    std::string common = "T=" + tr + ";WS=" + hx(rp.width_scale) + ";OS=" + hx(rp.offset_scale) + ";SEC=" + secs;
    for (uint64_t e = 0; e < n; e++) common += ";W" + std::to_string(e) + "=" + wdesc[e] + ";O" + std::to_string(e) + "=" + odesc[e];
    char gidb[64];
    snprintf(gidb, sizeof gidb, "g=%llu:%llu", (unsigned long long)seed, (unsigned long long)idx);
    em.K("construct", std::string(gidb) + ";exact");
    em.I("exact");
    em.P(construct_fail.empty() ? "ok" : "FAIL robustpath-construction " + construct_fail);
    uint64_t ns = rp.subpath_array.count;
    for (int q = 0; q < 12; q++) {
        double u;
        int r = (int)g.below(6);
        if (r == 0) u = (double)g.below(ns + 1);                       // an integer
        else if (r == 1) u = -0.25 * (double)(1 + g.below(4));         // below the path
        else if (r == 2) u = (double)ns + 0.25 * (double)g.below(5);   // at / beyond the end
        else u = (double)g.below(ns * 16 + 1) / 16.0;
        bool fb = g.coin();
        Vec2 p = rp.position(u, fb), gr = rp.gradient(u, fb);
        std::vector<double> wv(n), ov(n);
        rp.width(u, fb, wv.data());
        rp.offset(u, fb, ov.data());
        std::string res = hx(p.x) + " " + hx(p.y) + " " + hx(gr.x) + " " + hx(gr.y);
        for (uint64_t e = 0; e < n; e++) res += " " + hx(wv[e]) + " " + hx(ov[e]);
        em.K("query", std::string(gidb) + ";" + common + ";N=" + std::to_string(n) + ";U=" + hx(u) + ";FB=" + (fb ? "1" : "0"));
        em.I(res);
    }
    // SubPath::eval / gradient outside [0, 1]
    for (int q = 0; q < 4; q++) {
        uint64_t s = g.below(ns);
        double u = g.coin() ? -0.25 * (double)(1 + g.below(6)) : 1 + 0.25 * (double)(1 + g.below(6));
        Vec2 p = rp.subpath_array[s].eval(u, rp.trafo), gr = rp.subpath_array[s].gradient(u, rp.trafo);
        em.K("subeval", std::string(gidb) + ";" + common + ";SI=" + std::to_string(s) + ";U=" + hx(u));
        em.I(hx(p.x) + " " + hx(p.y) + " " + hx(gr.x) + " " + hx(gr.y));
    }
}

// ------------------------------------------------------------------ commands() against direct calls
static void commands_cases(uint64_t seed, uint64_t idx, Emit& em) {
    Rng g(seed * 1000003ULL + idx * 7919ULL + 43);
    char gidb[64];
    snprintf(gidb, sizeof gidb, "g=%llu:%llu", (unsigned long long)seed, (unsigned long long)idx);
    const char letters[] = "hHvVlLcCsSqQtTaAE";
    for (int it = 0; it < 17; it++) {
        char ch = letters[it];
        RobustPath a = {}, b = {};
        for (RobustPath* rp : {&a, &b}) {
            rp->num_elements = 1;
            rp->elements = (RobustPathElement*)allocate_clear(sizeof(RobustPathElement));
            rp->init(Vec2{1.5, -2.25}, 1.0, 0.0, 0.01, 1000, 0);
            rp->segment(Vec2{4, 1}, NULL, NULL, true);  // defines a direction for turn / smooth
        }
        double x[6];
        for (int i = 0; i < 6; i++) x[i] = 0.125 * (double)g.range(-80, 80);
        if (it == 7 && idx == 0) { x[0] = 1; x[1] = 2; x[2] = 3; x[3] = 4; x[4] = 5; x[5] = 6; }
        std::vector<CurveInstruction> v;
        auto num = [&](double t) { CurveInstruction ci; ci.number = t; v.push_back(ci); };
        CurveInstruction ci;
        ci.number = 0;
        ci.command = ch;
        v.push_back(ci);
        bool rel = ch >= 'a' && ch <= 'z';
        switch (ch) {
            case 'h': case 'H': num(x[0]); b.horizontal(x[0], NULL, NULL, rel); break;
            case 'v': case 'V': num(x[0]); b.vertical(x[0], NULL, NULL, rel); break;
            case 'l': case 'L': num(x[0]); num(x[1]); b.segment(Vec2{x[0], x[1]}, NULL, NULL, rel); break;
            case 'c': case 'C':
                for (int i = 0; i < 6; i++) num(x[i]);
                b.cubic(Vec2{x[0], x[1]}, Vec2{x[2], x[3]}, Vec2{x[4], x[5]}, NULL, NULL, rel);
                break;
            case 's': case 'S':
                for (int i = 0; i < 4; i++) num(x[i]);
                b.cubic_smooth(Vec2{x[0], x[1]}, Vec2{x[2], x[3]}, NULL, NULL, rel);
                break;
            case 'q': case 'Q':
                for (int i = 0; i < 4; i++) num(x[i]);
                b.quadratic(Vec2{x[0], x[1]}, Vec2{x[2], x[3]}, NULL, NULL, rel);
                break;
            case 't': case 'T': num(x[0]); num(x[1]); b.quadratic_smooth(Vec2{x[0], x[1]}, NULL, NULL, rel); break;
            case 'a': num(fabs(x[0]) + 1); num(x[1] / 8); b.turn(fabs(x[0]) + 1, x[1] / 8, NULL, NULL); break;
            case 'A': num(fabs(x[0]) + 1); num(x[1] / 8); num(x[2] / 8); b.arc(fabs(x[0]) + 1, fabs(x[0]) + 1, x[1] / 8, x[2] / 8, 0, NULL, NULL); break;
            default:
                num(fabs(x[0]) + 1); num(fabs(x[1]) + 1); num(x[2] / 8); num(x[3] / 8); num(x[4] / 8);
                b.arc(fabs(x[0]) + 1, fabs(x[1]) + 1, x[2] / 8, x[3] / 8, x[4] / 8, NULL, NULL);
        }
        uint64_t used = a.commands(v.data(), v.size());
        std::string pay = std::string(gidb) + ";" + ch;
        for (size_t i = 1; i < v.size(); i++) pay += " " + hx(v[i].number);
        em.K("commands", pay);
        std::string fail;
        char buf[300];
        if (used != v.size()) fail = "FAIL robustpath-commands-count commands() did not consume all items";
        else if (a.subpath_array.count != b.subpath_array.count) fail = "FAIL robustpath-commands-sections different number of sections";
        else {
            ld worst = 0;
            double wu = 0;
            for (int i = 0; i <= 8; i++) {
                double u = 1 + (double)i / 8;
                Vec2 pa = a.position(u, false), pb = b.position(u, false);
                ld dd = lenl(tov(pa) - tov(pb));
                if (dd > worst) { worst = dd; wu = u; }
            }
            if (worst > 1e-12L || lenl(tov(a.end_point) - tov(b.end_point)) > 1e-12L) {
                snprintf(buf, sizeof buf, "commands(\"%c ...\") ends at (%.9g, %.9g), the direct call at (%.9g, %.9g); positions differ by %.6Lg at u = %g",
                         ch, a.end_point.x, a.end_point.y, b.end_point.x, b.end_point.y, worst, wu);
                if (ch == 'c' || ch == 'C')
                    fail = std::string("FAIL RobustPath::commands:c-third-point ") + buf + " (the third point is built from item[4] twice)";
                else
                    fail = std::string("FAIL robustpath-commands-differ ") + buf;
            }
        }
        em.I(fail.empty() ? "ok" : "differs");
        em.P(fail.empty() ? "ok" : fail);
    }
}

// ------------------------------------------------------------------ probes
static void probe_case(int variant, uint64_t max_evals, FILE* o) {
    RobustPath rp = {};
    rp.num_elements = 1;
    rp.elements = (RobustPathElement*)allocate_clear(sizeof(RobustPathElement));
    rp.init(Vec2{0, 0}, 1.0, 0.0, 0.01, max_evals, 0);
    if (variant == 0) {
        // the offset steps from 0 to 3 at the junction: the two centre curves do not meet
        rp.segment(Vec2{10, 1}, NULL, NULL, false);
        Interpolation off = {InterpolationType::Constant};
        off.value = 3;
        rp.arc(5, 5, -M_PI / 2, 0, 0, NULL, &off);
    } else if (variant == 1) {
        rp.segment(Vec2{10, 0}, NULL, NULL, false);
        rp.segment(Vec2{10, 10}, NULL, NULL, false);
    } else if (variant == 4) {
        // default max_evals: a smooth width taper 1 -> 2 handed to interpolation() through two points restarts in the
        // second cubic piece; the side curves of the two pieces never meet and the search never returns
        rp.end_point = Vec2{1.25, -4};
        rp.segment(Vec2{4.7230, 15.6962}, NULL, NULL, false);
        Interpolation ip = {InterpolationType::Smooth};
        ip.initial_value = 1;
        ip.final_value = 2;
        Vec2 pts[2] = {Vec2{5.8533, 52.0522}, Vec2{6.9836, 88.4083}};
        Array<Vec2> arr = {};
        arr.items = pts;
        arr.count = 2;
        double angles[3] = {1.396, 0, 0};
        bool cons[3] = {true, false, false};
        Vec2 tension[3] = {Vec2{1, 1}, Vec2{1, 1}, Vec2{1, 1}};
        rp.interpolation(arr, angles, cons, tension, 1, 1, false, &ip, NULL, false);
    } else {
        // interpolation through two points with a taper: variant 2 offset 0 -> 2, variant 3 width 1 -> 2
        Interpolation ip = {InterpolationType::Linear};
        ip.initial_value = variant == 2 ? 0 : 1;
        ip.final_value = 2;
        Vec2 pts[2] = {Vec2{10, 2}, Vec2{20, 0}};
        Array<Vec2> arr = {};
        arr.items = pts;
        arr.count = 2;
        double angles[3] = {0, 0, 0};
        bool cons[3] = {false, false, false};
        Vec2 tension[3] = {Vec2{1, 1}, Vec2{1, 1}, Vec2{1, 1}};
        rp.interpolation(arr, angles, cons, tension, 1, 1, false, variant == 3 ? &ip : NULL, variant == 2 ? &ip : NULL, false);
        double wa, wb, oa, ob;
        rp.width(1, true, &wa);
        rp.width(1, false, &wb);
        rp.offset(1, true, &oa);
        rp.offset(1, false, &ob);
        fprintf(o, "junction width %g|%g offset %g|%g ", wa, wb, oa, ob);
        fflush(o);
    }
    Array<Polygon*> out = {};
    ErrorCode e = rp.to_polygons(false, 0, out);
    fprintf(o, "returned %d", (int)e);
}

// ------------------------------------------------------------------ one path
static void run_path(uint64_t seed, uint64_t idx, const std::string& outdir, FILE* o) {
    Emit em{o};
    Rng g(seed * 1000003ULL + idx * 7919ULL + 17);
    char gidb[64];
    snprintf(gidb, sizeof gidb, "g=%llu:%llu", (unsigned long long)seed, (unsigned long long)idx);
    std::string gid = gidb;
    if (idx % 4 == 1) {
        query_cases(seed, idx, em);
        return;
    }
    if (idx % 16 == 2 || idx == 0) {
        commands_cases(seed, idx, em);
        return;
    }
    Builder B;
    B.g = &g;
    memset(&B.rp, 0, sizeof B.rp);
    RobustPath& rp = B.rp;
    bool directed = idx == 4;  // F14: width 4, flush ends, one segment
    B.tol = g.chance(25) ? 0.001 : 0.01;
    B.n = directed ? 1 : 1 + g.below(3);
    static const EndType ends[] = {EndType::Flush, EndType::Round, EndType::HalfWidth, EndType::Extended, EndType::Smooth};
    double w0 = 0.25 * (double)(1 + g.below(8)), gap = 0.25 * (double)(1 + g.below(4));
    for (uint64_t e = 0; e < B.n; e++) {
        ElemCfg c = {};
        c.w0 = g.chance(70) ? w0 : 0.25 * (double)(1 + g.below(8));
        double sep = w0 + gap + (B.n > 1 ? 0.5 * w0 : 0);
        c.o0 = B.n == 1 ? (g.chance(50) ? 0 : 0.25 * (double)g.range(-6, 6)) : sep * ((double)e - 0.5 * (double)(B.n - 1));
        static const double wf[] = {0.5, 0.75, 1.5, 2.0, 1.0};
        c.w1 = c.w0 * wf[g.below(5)];
        c.o1 = g.chance(50) ? c.o0 : c.o0 * (g.coin() ? 0.5 : 1.5) + (B.n == 1 && g.chance(30) ? 0.5 : 0);
        // steep offset tapers: the centre curve then leaves the spine at a marked angle (its own normal, not the spine's,
        // carries the width)
        if (g.chance(25)) c.o1 = c.o0 + (g.coin() ? 1 : -1) * 0.25 * (double)g.range(4, 12);
        c.end = ends[g.below(5)];
        c.ext = Vec2{0.25 * (double)g.below(9), 0.25 * (double)g.below(9)};
        if (directed) { c.w0 = c.w1 = 4; c.o0 = c.o1 = 0; c.end = EndType::Flush; }
        B.el.push_back(c);
    }
    B.Wmax = 0;
    for (auto& c : B.el) B.Wmax = std::max(B.Wmax, 0.5 * std::max(c.w0, c.w1) + std::max(fabs(c.o0), fabs(c.o1)));
    rp.num_elements = B.n;
    rp.elements = (RobustPathElement*)allocate_clear(B.n * sizeof(RobustPathElement));
    std::vector<double> w, off;
    std::vector<Tag> tags;
    for (uint64_t e = 0; e < B.n; e++) {
        w.push_back(B.el[e].w0);
        off.push_back(B.el[e].o0);
        tags.push_back(make_tag((uint32_t)e, 0));
    }
    Vec2 p0 = Vec2{0.125 * (double)g.range(-40, 40), 0.125 * (double)g.range(-40, 40)};
    bool uniform = B.n > 1;  // equal widths, evenly spaced offsets centred on the spine: the (count, width, separation) form
    for (uint64_t e = 0; e < B.n && uniform; e++)
        uniform = w[e] == w[0] && fabs(off[e] - (off[1] - off[0]) * ((double)e - 0.5 * (double)(B.n - 1))) < 1e-12;
    if (B.n == 1 && g.coin()) rp.init(p0, w[0], off[0], B.tol, 1000, tags[0]);
    else if (uniform && g.coin()) {
        // this form allocates the elements itself and gives every element the same tag
        free_allocation(rp.elements);
        rp.elements = NULL;
        rp.init(p0, B.n, w[0], off[1] - off[0], B.tol, 1000, tags[0]);
        em.T("init-by-separation");
    } else rp.init(p0, w.data(), off.data(), B.tol, 1000, tags.data());
    for (uint64_t e = 0; e < B.n; e++)
        if (B.construct_fail.empty() && (rp.elements[e].end_width != w[e] || rp.elements[e].end_offset != off[e])) {
            char ib[200];
            snprintf(ib, sizeof ib, "init: element %d starts with width %.12g and offset %.12g, asked for %.12g and %.12g", (int)e, rp.elements[e].end_width,
                     rp.elements[e].end_offset, w[e], off[e]);
            B.construct_fail = ib;
        }
    for (uint64_t e = 0; e < B.n; e++) {
        rp.elements[e].end_type = B.el[e].end;
        rp.elements[e].end_extensions = B.el[e].ext;
    }
    B.heading = ((double)g.range(-180, 180)) * M_PI / 180;
    if (directed) {
        rp.segment(Vec2{20, 0}, NULL, NULL, true);
        B.corner.push_back(0);
        B.desc = "segment";
    } else {
        // first a straight section along the heading
        rp.segment(Vec2{5 * B.Wmax * cos(B.heading), 5 * B.Wmax * sin(B.heading)}, NULL, NULL, true);
        B.corner.push_back(0);
        B.desc = "segment ";
        int ncalls = 1 + (int)g.below(4);
        for (int i = 0; i < ncalls; i++) one_call(B, true);
        em.K("construct", gid);
        em.I(std::to_string(B.construct_checked) + " checks");
        em.P(B.construct_fail.empty() ? "ok" : "FAIL robustpath-construction " + B.construct_fail);
    }
    // transformation of the whole path (the trafo matrix takes part in every query)
    if (!directed && g.chance(30)) {
        rp.translate(Vec2{0.5 * (double)g.range(-20, 20), 0.5 * (double)g.range(-20, 20)});
        if (g.coin()) rp.rotate(((double)g.range(-180, 180)) * M_PI / 180, Vec2{1, 2});
        em.T("transformed");
    }
    // magnification: trafo, offset_scale, end extensions and (with scale_width) width_scale all take part
    if (!directed && g.chance(30)) {
        static const double sfs[] = {2, 0.5, 1.5, 3};
        double sf = sfs[g.below(4)];
        rp.scale_width = g.chance(70);
        rp.scale(sf, Vec2{1, 2});
        B.Wmax *= sf;
        for (auto& c : B.el) c.ext = c.ext * sf;
        em.T(rp.scale_width ? "scaled-with-width" : "scaled-offsets-only");
    }
    em.T("elements-" + std::to_string(B.n));
    em.T("sections-" + std::to_string(rp.subpath_array.count > 6 ? 6 : rp.subpath_array.count));
    if (getenv("C08_TRACE")) {
        fprintf(stderr, "path %s tol %g elements %d: %s\n", gid.c_str(), B.tol, (int)B.n, B.desc.c_str());
        for (uint64_t s = 0; s < rp.subpath_array.count; s++) {
            fprintf(stderr, " section %d type %d corner %g:", (int)s, (int)rp.subpath_array[s].type, B.corner[s]);
            for (uint64_t e = 0; e < B.n; e++) {
                const Interpolation& wi = rp.elements[e].width_array[s];
                const Interpolation& oi = rp.elements[e].offset_array[s];
                fprintf(stderr, "  w[%d %g %g] o[%d %g %g]", (int)wi.type, wi.type == InterpolationType::Constant ? wi.value : wi.initial_value,
                        wi.type == InterpolationType::Constant ? wi.value : wi.final_value, (int)oi.type,
                        oi.type == InterpolationType::Constant ? oi.value : oi.initial_value, oi.type == InterpolationType::Constant ? oi.value : oi.final_value);
            }
            V a = apply(rp.trafo, sec_point(rp.subpath_array[s], 0)), b = apply(rp.trafo, sec_point(rp.subpath_array[s], 1));
            fprintf(stderr, "  from (%.4Lf, %.4Lf) to (%.4Lf, %.4Lf)\n", a.x, a.y, b.x, b.y);
        }
    }
    fd_case(B, gid, em);
    if (getenv("C08_TRACE")) fprintf(stderr, " fd done\n");
    Array<Polygon*> polys = {};
    ErrorCode err = rp.to_polygons(false, 0, polys);
    if (getenv("C08_TRACE")) fprintf(stderr, " to_polygons done err %d\n", (int)err);
    if (polys.count != B.n) {
        em.K("region", gid + ":all");
        em.I("error");
        em.P("FAIL robustpath-to_polygons-error to_polygons produced the wrong number of polygons");
        return;
    }
    if (err != ErrorCode::NoError) em.T("to_polygons-reports-intersection-not-found");
    for (uint64_t e = 0; e < B.n; e++) region_case(B, e, gid, polys[e], em);
    if (directed || g.chance(50)) {
        record_case(B, false, gid, outdir, em);
        record_case(B, true, gid, outdir, em);
    }
}

// ------------------------------------------------------------------ parent
// VERIF_KINDS (comma list) restricts the case kinds that are recorded (used when another property's check runs this
// harness for its PATH-record cases only); crashes are always recorded
static bool kind_wanted(const std::string& kind) {
    static int init = 0;
    static std::vector<std::string> want;
    if (!init) {
        init = 1;
        if (const char* k = getenv("VERIF_KINDS")) {
            std::string s(k);
            size_t p = 0;
            while (p <= s.size()) {
                size_t e = s.find(',', p);
                if (e == std::string::npos) e = s.size();
                if (e > p) want.push_back(s.substr(p, e - p));
                p = e + 1;
            }
        }
    }
    if (want.empty()) return true;
    for (auto& w : want)
        if (w == kind) return true;
    return false;
}
static void absorb(Out& out, const std::string& res, const std::string& gid) {
    if (res.compare(0, 4, "HANG") == 0 || res.compare(0, 5, "CRASH") == 0 || res == "PIPEFAIL") {
        std::string id = out.add("crash", gid);
        out.I(id, res);
        out.P(id, "FAIL robustpath-crash the construction / query / to_polygons / record sequence ended with " + res);
        return;
    }
    bool skip = false;
    std::string id;
    size_t pos = 0;
    while (pos < res.size()) {
        size_t nl = res.find('\n', pos);
        if (nl == std::string::npos) nl = res.size();
        std::string line = res.substr(pos, nl - pos);
        pos = nl + 1;
        if (line.size() < 2) continue;
        char tag = line[0];
        std::string rest = line.substr(2);
        if (tag == 'K') {
            size_t t = rest.find('\t');
            skip = !kind_wanted(rest.substr(0, t));
            if (skip) continue;
            id = out.add(rest.substr(0, t), t == std::string::npos ? "" : rest.substr(t + 1));
        } else if (skip) continue;
        else if (tag == 'I') out.I(id, rest);
        else if (tag == 'P') out.P(id, rest);
        else if (tag == 'T') out.count(rest);
    }
}

static bool parse_gid(const std::string& payload, uint64_t& seed, uint64_t& idx) {
    size_t p = payload.find("g=");
    if (p == std::string::npos) return false;
    unsigned long long a = 0, b = 0;
    if (sscanf(payload.c_str() + p, "g=%llu:%llu", &a, &b) != 2) return false;
    seed = a;
    idx = b;
    return true;
}

static void probes(Out& out) {
    struct Pr { int variant; uint64_t me; } prs[] = {{0, 2}, {0, 5}, {0, 10}, {0, 100}, {0, 1000}, {1, 1}, {1, 2}, {1, 1000}, {2, 1000}, {3, 1000}, {4, 1000}};
    for (auto& p : prs) {
        std::string res = in_child([&](FILE* o) { probe_case(p.variant, p.me, o); }, 30);
        static const char* vn[] = {"offset-step", "corner", "interpolation-offset-taper", "interpolation-width-taper", "interpolation-smooth-width-taper"};
        std::string id = out.add("probe", std::string(vn[p.variant]) + " max_evals=" + std::to_string(p.me));
        out.I(id, res);
        if (res == "HANG")
            out.P(id, "FAIL RobustPath::intersection:evals-wrap the intersection search does not return: `while (evals-- > 0 || ...)` on an unsigned counter re-arms after reaching zero (max_evals = " + std::to_string(p.me) + ", " + vn[p.variant] + ": curves that do not meet)");
        else if (res.compare(0, 5, "CRASH") == 0)
            out.P(id, "FAIL RobustPath::to_polygons:max-evals-1-crash max_evals = 1 samples no point at all and to_polygons indexes left_side.count - 2: " + res);
        else if (p.variant >= 2 && res.find("junction") != std::string::npos) {
            double wa, wb, oa, ob;
            if (sscanf(res.c_str(), "junction width %lg|%lg offset %lg|%lg", &wa, &wb, &oa, &ob) == 4 && (fabs(wa - wb) > 1e-9 || fabs(oa - ob) > 1e-9))
                out.P(id, "FAIL RobustPath::interpolation:taper-restarts-per-piece interpolation() hands the same width / offset Interpolation to every cubic piece: "
                          "a taper from a to b restarts at a in each piece, so width / offset jump at the inner points (" + res + ")");
            else out.P(id, "ok");
        } else
            out.P(id, "ok");
    }
}

int main(int argc, char** argv) {
    if (argc < 5) {
        fprintf(stderr, "usage: %s seed tier outdir corpusdir [replayfile]\n", argv[0]);
        return 2;
    }
    uint64_t seed = strtoull(argv[1], NULL, 10);
    std::string tier = argv[2], outdir = argv[3];
    set_error_logger(getenv("C08_TRACE") ? stderr : NULL);
    Out out;
    out.open(argv[3]);
    auto one = [&](uint64_t sd, uint64_t idx) {
        char gidb[64];
        snprintf(gidb, sizeof gidb, "g=%llu:%llu", (unsigned long long)sd, (unsigned long long)idx);
        std::string res = in_child([&](FILE* o) { run_path(sd, idx, outdir, o); }, 60);
        absorb(out, res, gidb);
    };
    if (argc > 5) {
        std::string kind, payload;
        uint64_t sd, idx;
        if (load_replay(argv[5], kind, payload)) {
            if (kind == "probe") probes(out);
            else if (parse_gid(payload, sd, idx)) one(sd, idx);
        }
        out.close();
        return 0;
    }
    for (auto& kp : load_corpus(argv[4])) {
        uint64_t sd, idx;
        if (parse_gid(kp.second, sd, idx)) one(sd, idx);
    }
    if (kind_wanted("probe")) probes(out);
    uint64_t npaths = tier == "thorough" ? 4000 : 160;
    for (uint64_t idx = 0; idx < npaths; idx++) one(seed, idx);
    out.close();
    return 0;
}
