// Specification-level random OASIS encoder (C04 forward direction).  Written from the record layouts of the
// format, independent of gdstk's writer and of the Coq model: it draws an abstract layout, writes it with random
// encoding alternatives and returns the bytes together with the layout dump a correct reader must produce.
// Alternatives exercised: explicit field vs modal variable for every info-byte bit, XYABSOLUTE / XYRELATIVE,
// repetition types 0-11, point-list types 0-5, real types 0-7, RECTANGLE (square bit), POLYGON, PATH (extension
// schemes), TRAPEZOID (3 codes, both orientations), the 26 CTRAPEZOID types, CIRCLE, TEXT, PLACEMENT (2 codes),
// names inline or through CELLNAME / TEXTSTRING / PROPNAME / PROPSTRING tables with implicit or explicit numbering
// placed before or after their use, PROPERTY / LAST_PROPERTY with modal name and value list, PAD, CBLOCK,
// table offsets in START or in END, validation none / CRC32 / CHECKSUM32.
#pragma once
#include <zlib.h>
#include "oas_layout.hpp"
#include "oas_scan.hpp"

namespace oasenc {
using namespace oasl;

struct CircleRef {
    std::string cell;
    size_t index;
    int64_t cx, cy, r;
};
struct Encoded {
    std::vector<uint8_t> file;   // what gdstk reads (may contain CBLOCKs)
    std::vector<uint8_t> plain;  // same records without CBLOCK wrapping (what spec_oas_decode reads)
    Dump expected;
    double unit_real = 1000;
    std::vector<CircleRef> circles;
    bool has_missing_refs = false;
    unsigned validation = 0;  // scheme written in END: 0 none, 1 CRC32, 2 CHECKSUM32
    std::map<std::string, long> stats;
};

typedef std::vector<uint8_t> Bytes;

struct W {
    Bytes b;
    Rng* g;
    void byte(unsigned v) { b.push_back((uint8_t)v); }
    void uint(uint64_t v) {
        // a non-minimal encoding: one more group of zeros (kept within the 10 bytes a 64-bit reader accepts)
        bool pad = g && v < (1ULL << 49) && g->chance(4);
        while (true) {
            uint8_t c = v & 0x7f;
            v >>= 7;
            if (v || pad) {
                b.push_back(c | 0x80);
                if (!v) {
                    b.push_back(0);
                    break;
                }
            } else {
                b.push_back(c);
                break;
            }
        }
    }
    void packed(uint64_t mag, unsigned nbits, unsigned bits) {  // magnitude with nbits low flag bits
        // value = (mag << nbits) | bits, as an unsigned-integer byte sequence
        unsigned first_cap = 7 - nbits;
        uint8_t c = (uint8_t)(bits | ((mag & ((1u << first_cap) - 1)) << nbits));
        mag >>= first_cap;
        if (mag) {
            b.push_back(c | 0x80);
            while (true) {
                uint8_t d = mag & 0x7f;
                mag >>= 7;
                if (mag) b.push_back(d | 0x80);
                else {
                    b.push_back(d);
                    break;
                }
            }
        } else b.push_back(c);
    }
    void sint(int64_t v) { packed(v < 0 ? (uint64_t)(-v) : (uint64_t)v, 1, v < 0 ? 1 : 0); }
    void str(const std::string& s) {
        uint(s.size());
        b.insert(b.end(), s.begin(), s.end());
    }
    // directions: 0 E 1 N 2 W 3 S 4 NE 5 NW 6 SW 7 SE
    static int dir_of(int64_t x, int64_t y) {
        if (y == 0) return x >= 0 ? 0 : 2;
        if (x == 0) return y > 0 ? 1 : 3;
        if (x == y) return x > 0 ? 4 : 6;
        if (x == -y) return x > 0 ? 7 : 5;
        return -1;
    }
    void delta2(int64_t x, int64_t y) { packed((uint64_t)llabs(x + y), 2, (unsigned)dir_of(x, y)); }
    void delta3(int64_t x, int64_t y) { packed((uint64_t)(x ? llabs(x) : llabs(y)), 3, (unsigned)dir_of(x, y)); }
    void gdelta(int64_t x, int64_t y) {
        int d = dir_of(x, y);
        if (d >= 0 && !(g && g->chance(25))) {
            packed((uint64_t)(x ? llabs(x) : llabs(y)), 4, (unsigned)d << 1);  // form 1: bit 0 clear
        } else {
            packed((uint64_t)llabs(x), 2, 1u | (x < 0 ? 2u : 0u));  // form 2: bit 0 set, bit 1 = west
            sint(y);
        }
    }
    void raw(const Bytes& o) { b.insert(b.end(), o.begin(), o.end()); }
};

// a real number in one of the eight encodings, with the value a reader computes from it
struct Real {
    unsigned type = 0;
    uint64_t a = 0, b = 1;
    float f = 0;
    double d = 0;
    double value() const {
        switch (type) {
            case 0: return (double)a;
            case 1: return -(double)a;
            case 2: return 1.0 / (double)a;
            case 3: return -1.0 / (double)a;
            case 4: return (double)a / (double)b;
            case 5: return -(double)a / (double)b;
            case 6: return (double)f;
            default: return d;
        }
    }
    void write(W& w) const {
        w.byte(type);
        switch (type) {
            case 0: case 1: case 2: case 3: w.uint(a); break;
            case 4: case 5: w.uint(a); w.uint(b); break;
            case 6: {
                uint32_t u;
                memcpy(&u, &f, 4);
                for (int k = 0; k < 4; k++) w.byte((u >> (8 * k)) & 0xff);
            } break;
            default: {
                uint64_t u = dbl_bits(d);
                for (int k = 0; k < 8; k++) w.byte((unsigned)((u >> (8 * k)) & 0xff));
            }
        }
    }
};

struct Enc {
    Rng& g;
    Encoded out;
    explicit Enc(Rng& r) : g(r) {}
    void stat(const std::string& k, long d = 1) { out.stats[k] += d; }

    // ---- modal variables, as the format defines them
    template <class T>
    struct MV {
        bool def = false;
        T v;
        void set(const T& x) { def = true; v = x; }
        bool is(const T& x) const { return def && v == x; }
    };
    struct Modal {
        bool absolute = true;
        MV<uint32_t> layer, datatype, textlayer, texttype;
        int64_t px = 0, py = 0, tx = 0, ty = 0, gx = 0, gy = 0;
        MV<uint64_t> gw, gh, hw, ctype, radius;
        MV<int64_t> exs, exe;
        MV<ARep> rep;
        MV<std::string> textstring, placecell, propname;
        MV<std::vector<P2>> polypts, pathpts;
        MV<AProp> propvalues;  // only .v used
    } m;
    static bool rep_eq(const ARep& a, const ARep& b) {
        return a.kind == b.kind && a.cols == b.cols && a.rows == b.rows && a.sx == b.sx && a.sy == b.sy && a.v1x == b.v1x &&
               a.v1y == b.v1y && a.v2x == b.v2x && a.v2y == b.v2y && a.offs == b.offs && a.coords == b.coords;
    }
    bool reuse() { return g.chance(65); }

    // ---- name tables
    struct Table {
        std::vector<std::string> strings;   // entry i
        std::vector<uint64_t> number;       // reference number of entry i
        std::vector<int> slot;              // where its record is emitted (index of the cell it precedes; ncells = before END)
        std::vector<AProps> props;          // properties attached to the name record (cell names only)
        bool explicit_numbers = false;
        int find(const std::string& s) const {
            for (size_t i = 0; i < strings.size(); i++)
                if (strings[i] == s) return (int)i;
            return -1;
        }
    };
    Table cellnames, textstrings, propnames, propstrings;
    int ncells = 0;

    void finish_table(Table& t) {
        // emission order = entry order; implicit numbers follow it, explicit numbers are random distinct values
        t.explicit_numbers = g.coin();
        std::set<uint64_t> used;
        int s = 0;
        for (size_t i = 0; i < t.strings.size(); i++) {
            uint64_t n = i;
            if (t.explicit_numbers) {
                do { n = g.chance(70) ? g.below(2 * t.strings.size() + 2) : g.below(300); } while (used.count(n));
                used.insert(n);
            }
            t.number.push_back(n);
            // non-decreasing slots so that implicit numbering follows file order
            s += g.chance(60) ? 0 : (int)g.below((uint64_t)ncells + 1);
            if (s > ncells) s = ncells;
            t.slot.push_back(g.chance(25) ? ncells : s);
            if (t.slot.back() < s) t.slot.back() = s;
            s = t.slot.back();
        }
    }

    // ---- value generators
    uint32_t tag() {
        static const uint32_t pool[] = {0, 1, 2, 63, 127, 128, 255, 70000, 0xFFFFFFFFu};
        return pool[g.below(9)];
    }
    int64_t coord() {
        switch (g.below(6)) {
            case 0: return g.range(-40, 40);
            case 1: return g.range(-70000, 70000);
            case 2: return g.range(-(1LL << 33), 1LL << 33);
            default: return g.range(-3000, 3000);
        }
    }
    std::string nstr(size_t lo, size_t hi) {
        static const char* a = "ABCDEFGHIJKLMNOPQRSTUVWXYZabcdefghijklmnopqrstuvwxyz0123456789_$.";
        std::string s;
        size_t n = (size_t)g.range((int64_t)lo, (int64_t)hi);
        for (size_t i = 0; i < n; i++) s += a[g.below(65)];
        return s;
    }
    std::string astr(size_t lo, size_t hi) {
        std::string s;
        size_t n = (size_t)g.range((int64_t)lo, (int64_t)hi);
        for (size_t i = 0; i < n; i++) s += (char)g.range(0x20, 0x7e);
        return s;
    }
    Real real_any() {
        Real r;
        r.type = (unsigned)g.below(8);
        r.a = (uint64_t)g.range(1, 5000);
        r.b = (uint64_t)g.range(1, 5000);
        if (g.chance(10)) r.a = g.next() >> (g.below(40));
        r.f = (float)g.range(-100000, 100000) / 64.0f;
        r.d = bits_dbl(0x3ff0000000000000ULL + g.below(1ULL << 52)) * (g.coin() ? 1 : -1) * (double)(1 << g.below(8));
        return r;
    }
    Real real_positive() {
        Real r = real_any();
        if (r.type == 1 || r.type == 3 || r.type == 5) r.type--;
        if (r.type == 6) r.f = (float)g.range(1, 100000) / 64.0f;
        if (r.type == 7) r.d = fabs(r.d);
        if (r.type == 0 && r.a == 0) r.a = 3;
        return r;
    }
    // an angle that is a whole number of 1/64 degree
    Real real_angle(int64_t& q) {
        Real r;
        q = g.range(-64 * 400, 64 * 400);
        switch (g.below(5)) {
            case 0: q = (q / 64) * 64; r.type = q < 0 ? 1 : 0; r.a = (uint64_t)llabs(q / 64); break;
            case 1: r.type = q < 0 ? 5 : 4; r.a = (uint64_t)llabs(q); r.b = 64; break;
            case 2: r.type = 6; r.f = (float)q / 64.0f; break;
            case 3: r.type = q < 0 ? 5 : 4; r.a = (uint64_t)llabs(q) * 3; r.b = 192; break;
            default: r.type = 7; r.d = (double)q / 64.0;
        }
        return r;
    }

    // ---- fields
    void write_rep(W& w, const ARep& r, int oas_type, uint64_t grid) {
        w.byte((unsigned)oas_type);
        switch (oas_type) {
            case 1: w.uint(r.cols - 2); w.uint(r.rows - 2); w.uint((uint64_t)r.sx); w.uint((uint64_t)r.sy); break;
            case 2: w.uint(r.cols - 2); w.uint((uint64_t)r.sx); break;
            case 3: w.uint(r.rows - 2); w.uint((uint64_t)r.sy); break;
            case 4: case 5: case 6: case 7: {
                w.uint(r.coords.size() - 1);
                if (oas_type == 5 || oas_type == 7) w.uint(grid);
                int64_t prev = 0;
                for (auto c : r.coords) { w.uint((uint64_t)((c - prev) / (int64_t)grid)); prev = c; }
            } break;
            case 8: w.uint(r.cols - 2); w.uint(r.rows - 2); w.gdelta(r.v1x, r.v1y); w.gdelta(r.v2x, r.v2y); break;
            case 9: w.uint(r.cols - 2); w.gdelta(r.v1x, r.v1y); break;
            case 10: case 11: {
                w.uint(r.offs.size() - 1);
                if (oas_type == 11) w.uint(grid);
                P2 prev(0, 0);
                for (auto& o : r.offs) {
                    w.gdelta((o.first - prev.first) / (int64_t)grid, (o.second - prev.second) / (int64_t)grid);
                    prev = o;
                }
            } break;
        }
    }
    // draws a repetition in one of the 11 record forms; returns the abstract repetition and writes nothing
    struct RepChoice { ARep rep; int type; uint64_t grid; };
    RepChoice draw_rep() {
        RepChoice c;
        c.grid = 1;
        c.type = 1 + (int)g.below(11);
        ARep& r = c.rep;
        auto sp = [&]() { return g.chance(15) ? g.range(1, 100000) : g.range(0, 60); };
        auto sv = [&]() { return g.chance(15) ? g.range(-100000, 100000) : g.range(-60, 60); };
        switch (c.type) {
            case 1: r.kind = 1; r.cols = (uint64_t)g.range(2, 5); r.rows = (uint64_t)g.range(2, 4); r.sx = sp(); r.sy = sp(); break;
            case 2: r.kind = 1; r.cols = (uint64_t)g.range(2, 6); r.rows = 1; r.sx = sp(); r.sy = 0; break;
            case 3: r.kind = 1; r.cols = 1; r.rows = (uint64_t)g.range(2, 6); r.sx = 0; r.sy = sp(); break;
            case 4: case 5: case 6: case 7: {
                r.kind = c.type <= 5 ? 4 : 5;
                if (c.type == 5 || c.type == 7) c.grid = (uint64_t)g.range(1, 25);
                int n = (int)g.range(1, 6);
                int64_t acc = 0;
                for (int i = 0; i < n; i++) { acc += (int64_t)c.grid * sp(); r.coords.push_back(acc); }
            } break;
            case 8: r.kind = 2; r.cols = (uint64_t)g.range(2, 5); r.rows = (uint64_t)g.range(2, 4); r.v1x = sv(); r.v1y = sv(); r.v2x = sv(); r.v2y = sv(); break;
            case 9: r.kind = 2; r.cols = (uint64_t)g.range(2, 6); r.rows = 1; r.v1x = sv(); r.v1y = sv(); break;
            default: {
                r.kind = 3;
                if (c.type == 11) c.grid = (uint64_t)g.range(1, 25);
                int n = (int)g.range(1, 6);
                P2 acc(0, 0);
                for (int i = 0; i < n; i++) { acc.first += (int64_t)c.grid * sv(); acc.second += (int64_t)c.grid * sv(); r.offs.push_back(acc); }
            }
        }
        return c;
    }
    // repetition field of an element: returns whether the element has one; writes into `tail`
    bool rep_field(W& tail, ARep& result) {
        if (!g.chance(35)) return false;
        if (m.rep.def && g.chance(40)) {
            tail.byte(0);  // re-use the previous repetition
            result = m.rep.v;
            stat("rep:type0");
            return true;
        }
        RepChoice c = draw_rep();
        write_rep(tail, c.rep, c.type, c.grid);
        result = c.rep;
        m.rep.set(c.rep);
        stat("rep:type" + std::to_string(c.type));
        return true;
    }
    // position fields; returns info bits (xbit, ybit)
    void pos_fields(W& tail, int64_t& mx, int64_t& my, int64_t x, int64_t y, bool& xb, bool& yb) {
        xb = !(mx == x && reuse());
        yb = !(my == y && reuse());
        if (xb) tail.sint(m.absolute ? x : x - mx);
        if (yb) tail.sint(m.absolute ? y : y - my);
        mx = x;
        my = y;
    }
    template <class T>
    bool fld(MV<T>& mv, const T& v) {  // true = explicit
        bool ex = !(mv.is(v) && reuse());
        mv.set(v);
        return ex;
    }
    // point list: `pts` are the vertices after the initial (0,0), relative to it
    void write_plist(W& w, const std::vector<P2>& pts, bool closed) {
        std::vector<P2> d;
        P2 prev(0, 0);
        for (auto& p : pts) { d.push_back(P2(p.first - prev.first, p.second - prev.second)); prev = p; }
        bool manh = true, oct = true;
        for (auto& v : d) {
            if (v.first != 0 && v.second != 0) manh = false;
            if (W::dir_of(v.first, v.second) < 0) oct = false;
        }
        // types 0 / 1: strictly alternating horizontal / vertical moves; for a polygon the last vertex is implied
        int alt = -1;
        {
            std::vector<P2> dd = d;
            bool okalt = manh && !dd.empty();
            if (closed && okalt) {
                // the final listed vertex must be reachable implicitly: drop it when the closing edges are axis-parallel
                if (dd.size() < 3) okalt = false;
            }
            if (okalt) {
                size_t n = closed ? dd.size() - 1 : dd.size();
                bool h0 = dd[0].second == 0 && dd[0].first != 0;
                bool v0 = dd[0].first == 0 && dd[0].second != 0;
                if (!h0 && !v0) okalt = false;
                bool horiz = h0;
                for (size_t i = 0; okalt && i < n; i++) {
                    bool ish = dd[i].second == 0 && dd[i].first != 0, isv = dd[i].first == 0 && dd[i].second != 0;
                    if (horiz ? !ish : !isv) okalt = false;
                    horiz = !horiz;
                }
                if (okalt && closed) {
                    // implied vertex: after n moves, move along the next axis so that the remaining edge returns to the start
                    P2 last = pts[n - 1], fin = pts[n];
                    P2 implied = horiz ? P2(0, last.second) : P2(last.first, 0);
                    if (implied != fin) okalt = false;
                }
                if (okalt) alt = h0 ? 0 : 1;
            }
        }
        std::vector<int> types = {4, 5};
        if (manh) types.push_back(2);
        if (oct) types.push_back(3);
        if (alt >= 0) { types.push_back(alt); types.push_back(alt); types.push_back(alt); }
        int ty = types[g.below(types.size())];
        stat("plist:type" + std::to_string(ty));
        w.byte((unsigned)ty);
        switch (ty) {
            case 0: case 1: {
                size_t n = closed ? d.size() - 1 : d.size();
                w.uint(n);
                for (size_t i = 0; i < n; i++) w.sint(d[i].first ? d[i].first : d[i].second);
            } break;
            case 2: w.uint(d.size()); for (auto& v : d) w.delta2(v.first, v.second); break;
            case 3: w.uint(d.size()); for (auto& v : d) w.delta3(v.first, v.second); break;
            case 4: w.uint(d.size()); for (auto& v : d) w.gdelta(v.first, v.second); break;
            default: {
                w.uint(d.size());
                P2 pd(0, 0);
                for (auto& v : d) { w.gdelta(v.first - pd.first, v.second - pd.second); pd = v; }
            }
        }
    }

    // ---- properties
    struct Item { Bytes bytes; bool body; };   // body: may be wrapped into a CBLOCK
    std::vector<Item> items;
    void emit(const W& w, bool body) {
        if (g.chance(6)) items.push_back({Bytes{0}, body});  // PAD
        items.push_back({w.b, body});
    }
    AProps draw_props(int pct) {
        AProps ps;
        if (!g.chance(pct)) return ps;
        int n = (int)g.range(1, 3);
        for (int i = 0; i < n; i++) {
            AProp p;
            p.name = g.chance(50) ? std::string("PN") + std::to_string(g.below(3)) : nstr(1, 10);
            int nv = g.chance(6) ? (int)g.range(15, 18) : (int)g.range(0, 3);
            for (int k = 0; k < nv; k++) {
                APV v;
                v.t = (int)g.below(4);
                v.u = g.chance(20) ? g.next() : g.below(100000);
                v.i = g.range(-100000, 100000);
                v.s = g.chance(40) ? "str" + std::to_string(g.below(3)) : astr(0, 12);
                p.v.push_back(v);
            }
            ps.push_back(p);
        }
        return ps;
    }
    // writes PROPERTY records for ps (and fixes the real values to what the chosen encodings denote)
    void write_props(AProps& ps, bool body) {
        for (auto& p : ps) {
            bool same_name = m.propname.is(p.name);
            bool same_vals = m.propvalues.def && m.propvalues.v.v.size() == p.v.size();
            if (same_vals)
                for (size_t i = 0; i < p.v.size(); i++) {
                    const APV &a = m.propvalues.v.v[i], &b = p.v[i];
                    if (a.t != b.t || (a.t == 0 && a.u != b.u) || (a.t == 1 && a.i != b.i) || (a.t == 3 && a.s != b.s) || a.t == 2) same_vals = false;
                }
            W w;
            w.g = &g;
            if (same_name && same_vals && g.chance(50)) {
                w.byte(29);  // LAST_PROPERTY: name and values of the previous property
                emit(w, body);
                stat("prop:last");
                continue;
            }
            w.byte(28);
            bool cbit = !(same_name && reuse());
            bool vbit = same_vals && reuse();
            int pn = propnames.find(p.name);
            bool nbit = cbit && pn >= 0;
            unsigned info = (vbit ? 0x08 : 0) | (cbit ? 0x04 : 0) | (nbit ? 0x02 : 0) | (g.coin() ? 0x01 : 0);
            size_t nv = p.v.size();
            if (!vbit) info |= (nv >= 15 ? 15u : (unsigned)nv) << 4;
            w.byte(info);
            if (cbit) {
                if (nbit) w.uint(propnames.number[pn]);
                else w.str(p.name);
            }
            if (!vbit) {
                if (nv >= 15) w.uint(nv);
                for (auto& v : p.v) {
                    switch (v.t) {
                        case 0: w.byte(8); w.uint(v.u); break;
                        case 1: w.byte(9); w.sint(v.i); break;
                        case 2: {
                            Real r = real_any();
                            r.write(w);
                            v.r = r.value();
                            stat("real:type" + std::to_string(r.type));
                        } break;
                        default: {
                            int ps_i = propstrings.find(v.s);
                            bool printable = true, space = false;
                            for (unsigned char ch : v.s) { if (ch < 0x20 || ch > 0x7e) printable = false; if (ch == 0x20) space = true; }
                            unsigned kind = !printable ? 11 : (space || v.s.empty()) ? 10 : (g.coin() ? 12 : 10);
                            if (g.chance(20)) kind = 11;
                            if (ps_i >= 0) { w.byte(kind + 3); w.uint(propstrings.number[ps_i]); }
                            else { w.byte(kind); w.str(v.s); }
                        }
                    }
                }
                stat("prop:explicit-values");
            } else stat("prop:modal-values");
            stat(cbit ? (nbit ? "prop:name-ref" : "prop:name-inline") : "prop:name-modal");
            m.propname.set(p.name);
            AProp keep = p;
            m.propvalues.set(keep);
            emit(w, body);
        }
    }

    // ---- elements
    void maybe_switch_mode() {
        if (g.chance(15)) {
            W w;
            w.g = &g;
            m.absolute = !m.absolute;
            w.byte(m.absolute ? 15 : 16);
            emit(w, true);
            stat(m.absolute ? "xyabsolute" : "xyrelative");
        }
    }
    uint64_t dim() { return g.chance(20) ? (uint64_t)g.range(1, 100000) : (uint64_t)g.range(1, 200); }
    // a value that, a third of the time, repeats the modal variable so that the field can be left implicit
    uint64_t dim_or(const MV<uint64_t>& mv) { return (mv.def && g.chance(35)) ? mv.v : dim(); }

    void geometry(ACell& cell, const std::string& cellname) {
        APoly ap;
        ap.layer = tag();
        ap.type = tag();
        int64_t x = coord(), y = coord();
        int kind = (int)g.below(7);
        W w, tail;
        w.g = tail.g = &g;
        bool lb = fld(m.layer, ap.layer), db = fld(m.datatype, ap.type);
        W head;  // layer / datatype
        head.g = &g;
        if (lb) head.uint(ap.layer);
        if (db) head.uint(ap.type);
        bool xb, yb;
        ARep rep;
        bool rb;
        switch (kind) {
            case 0: {  // RECTANGLE
                uint64_t wd = dim_or(m.gw), ht = g.chance(30) ? wd : dim_or(m.gh);
                bool square = wd == ht && g.chance(60);
                bool wb = fld(m.gw, wd);
                bool hb = false;
                if (square) m.gh.set(wd);   // a square defines the height as well
                else hb = fld(m.gh, ht);
                W f;
                f.g = &g;
                if (wb) f.uint(wd);
                if (hb) f.uint(ht);
                pos_fields(tail, m.gx, m.gy, x, y, xb, yb);
                rb = rep_field(tail, rep);
                w.byte(20);
                w.byte((square ? 0x80 : 0) | (wb ? 0x40 : 0) | (hb ? 0x20 : 0) | (xb ? 0x10 : 0) | (yb ? 0x08 : 0) | (rb ? 0x04 : 0) | (db ? 0x02 : 0) | (lb ? 0x01 : 0));
                w.raw(head.b); w.raw(f.b); w.raw(tail.b);
                ap.pts = {{x, y}, {x + (int64_t)wd, y}, {x + (int64_t)wd, y + (int64_t)ht}, {x, y + (int64_t)ht}};
                stat(square ? "rec:square" : "rec:rectangle");
            } break;
            case 1: case 2: {  // POLYGON
                std::vector<P2> rel;
                int style = (int)g.below(4);
                if (style == 0) {  // staircase: alternating moves, implied closing vertex
                    int steps = (int)g.range(1, 4);
                    bool hfirst = g.coin();
                    P2 p(0, 0);
                    int64_t sx = g.coin() ? 1 : -1, sy = g.coin() ? 1 : -1;
                    for (int i = 0; i < steps; i++) {
                        if (hfirst) { p.first += sx * g.range(1, 40); rel.push_back(p); p.second += sy * g.range(1, 40); rel.push_back(p); }
                        else { p.second += sy * g.range(1, 40); rel.push_back(p); p.first += sx * g.range(1, 40); rel.push_back(p); }
                    }
                    // close along the axes: one more vertex
                    if (hfirst) rel.push_back(P2(0, p.second)); else rel.push_back(P2(p.first, 0));
                    // (the listed vertices before it end with a move along the second axis, so the implied one differs)
                    if (rel.size() >= 2 && rel[rel.size() - 1] == rel[rel.size() - 2]) rel.pop_back();
                } else if (style == 1) {  // octangular
                    int64_t a = g.range(10, 100), b = g.range(10, 100), c = g.range(1, 9);
                    rel = {{a, 0}, {a + c, c}, {a + c, c + b}, {a, 2 * c + b}, {0, 2 * c + b}, {-c, c + b}, {-c, c}};
                } else {
                    Gen gen(g, false);
                    std::vector<P2> s = gen.star_polygon((int)g.range(3, 9), 0, 0, 300);
                    for (size_t i = 1; i < s.size(); i++) rel.push_back(P2(s[i].first - s[0].first, s[i].second - s[0].second));
                }
                // occasionally the previous polygon shape again
                if (m.polypts.def && g.chance(25)) rel = m.polypts.v;
                bool pb = !(m.polypts.is(rel) && reuse());
                W f;
                f.g = &g;
                if (pb) write_plist(f, rel, true);
                m.polypts.set(rel);
                pos_fields(tail, m.gx, m.gy, x, y, xb, yb);
                rb = rep_field(tail, rep);
                w.byte(21);
                w.byte((pb ? 0x20 : 0) | (xb ? 0x10 : 0) | (yb ? 0x08 : 0) | (rb ? 0x04 : 0) | (db ? 0x02 : 0) | (lb ? 0x01 : 0));
                w.raw(head.b); w.raw(f.b); w.raw(tail.b);
                ap.pts.push_back(P2(x, y));
                for (auto& p : rel) ap.pts.push_back(P2(x + p.first, y + p.second));
                stat(pb ? "rec:polygon" : "rec:polygon-modal-points");
            } break;
            case 3: {  // TRAPEZOID
                bool vertical = g.coin();
                uint64_t wd = dim(), ht = dim();
                // deltas bounded so that both parallel sides keep a positive length
                int64_t span = (int64_t)(vertical ? ht : wd);
                int64_t da = g.chance(30) ? 0 : g.range(-span + 1, span - 1);
                int64_t dbv = g.chance(30) ? 0 : g.range(-span + 1, span - 1);
                // near side insets: lo(da)+lo'(db) and hi... must leave room: keep |da| + |db| < span
                if (llabs(da) + llabs(dbv) >= span) { da = da / 2; dbv = dbv / 2; if (llabs(da) + llabs(dbv) >= span) da = dbv = 0; }
                unsigned code = 23;
                if (dbv == 0 && g.chance(60)) code = 24;
                else if (da == 0 && g.chance(60)) code = 25;
                bool wb = fld(m.gw, wd), hb = fld(m.gh, ht);
                W f;
                f.g = &g;
                if (wb) f.uint(wd);
                if (hb) f.uint(ht);
                if (code != 25) f.sint(da);
                if (code != 24) f.sint(dbv);
                pos_fields(tail, m.gx, m.gy, x, y, xb, yb);
                rb = rep_field(tail, rep);
                w.byte(code);
                w.byte((vertical ? 0x80 : 0) | (wb ? 0x40 : 0) | (hb ? 0x20 : 0) | (xb ? 0x10 : 0) | (yb ? 0x08 : 0) | (rb ? 0x04 : 0) | (db ? 0x02 : 0) | (lb ? 0x01 : 0));
                w.raw(head.b); w.raw(f.b); w.raw(tail.b);
                int64_t W_ = (int64_t)wd, H_ = (int64_t)ht;
                if (!vertical) {
                    // bottom side on y, top side on y+h; delta-a = x(top-left) - x(bottom-left), delta-b = x(top-right) - x(bottom-right)
                    int64_t bl = da < 0 ? -da : 0, tl = da < 0 ? 0 : da;
                    int64_t br = dbv < 0 ? W_ : W_ - dbv, tr = dbv < 0 ? W_ + dbv : W_;
                    ap.pts = {{x + bl, y}, {x + br, y}, {x + tr, y + H_}, {x + tl, y + H_}};
                } else {
                    // left side on x, right side on x+w; delta-a = y(left-bottom) - y(right-bottom), delta-b = y(left-top) - y(right-top)
                    int64_t rb_ = da < 0 ? -da : 0, lb_ = da < 0 ? 0 : da;
                    int64_t rt = dbv < 0 ? H_ : H_ - dbv, lt = dbv < 0 ? H_ + dbv : H_;
                    ap.pts = {{x, y + lb_}, {x + W_, y + rb_}, {x + W_, y + rt}, {x, y + lt}};
                }
                stat("rec:trapezoid" + std::to_string(code) + (vertical ? "v" : "h"));
            } break;
            case 4: {  // CTRAPEZOID
                uint64_t type = g.below(26);
                int64_t a = g.range(1, 120), b = g.range(1, 120);
                int64_t wd, ht;
                if (type <= 3) { ht = a; wd = a + b; }
                else if (type <= 5) { ht = a; wd = 2 * a + b; }
                else if (type <= 7) { ht = a; wd = a + b; }
                else if (type <= 11) { wd = a; ht = a + b; }
                else if (type <= 13) { wd = a; ht = 2 * a + b; }
                else if (type <= 15) { wd = a; ht = a + b; }
                else { wd = a; ht = b; }
                bool uses_w = !(type == 20 || type == 21);
                bool uses_h = type < 16 || type == 20 || type == 21 || type == 24;
                bool tb = fld(m.ctype, type);
                bool wb = false, hb = false;
                W f;
                f.g = &g;
                if (tb) f.byte((unsigned)type);
                // a dimension the type does not use is neither written nor relied upon afterwards
                if (uses_w) { wb = fld(m.gw, (uint64_t)wd); if (wb) f.uint((uint64_t)wd); } else m.gw.def = false;
                if (uses_h) { hb = fld(m.gh, (uint64_t)ht); if (hb) f.uint((uint64_t)ht); } else m.gh.def = false;
                pos_fields(tail, m.gx, m.gy, x, y, xb, yb);
                rb = rep_field(tail, rep);
                w.byte(26);
                w.byte((tb ? 0x80 : 0) | (wb ? 0x40 : 0) | (hb ? 0x20 : 0) | (xb ? 0x10 : 0) | (yb ? 0x08 : 0) | (rb ? 0x04 : 0) | (db ? 0x02 : 0) | (lb ? 0x01 : 0));
                w.raw(head.b); w.raw(f.b); w.raw(tail.b);
                ap.pts = ctrapezoid_vertices((int)type, wd, ht);
                for (auto& p : ap.pts) { p.first += x; p.second += y; }
                stat("rec:ctrapezoid" + std::to_string(type));
            } break;
            case 5: {  // CIRCLE
                uint64_t r = (m.radius.def && g.chance(35)) ? m.radius.v : (uint64_t)g.range(20, 3000);
                if (llabs(x) > (1LL << 30)) x %= (1LL << 20);
                if (llabs(y) > (1LL << 30)) y %= (1LL << 20);
                bool cb = fld(m.radius, r);
                W f;
                f.g = &g;
                if (cb) f.uint(r);
                pos_fields(tail, m.gx, m.gy, x, y, xb, yb);
                rb = rep_field(tail, rep);
                w.byte(27);
                w.byte((cb ? 0x20 : 0) | (xb ? 0x10 : 0) | (yb ? 0x08 : 0) | (rb ? 0x04 : 0) | (db ? 0x02 : 0) | (lb ? 0x01 : 0));
                w.raw(head.b); w.raw(f.b); w.raw(tail.b);
                ap.circle = true;
                ap.cx = x; ap.cy = y; ap.cr = (int64_t)r;
                out.circles.push_back({cellname, cell.polys.size(), x, y, (int64_t)r});
                stat("rec:circle");
            } break;
            default: {  // PATH (goes to the path list)
                APath pa;
                APathEl el;
                el.layer = ap.layer;
                el.type = ap.type;
                uint64_t hw = (m.hw.def && g.chance(35)) ? m.hw.v : (g.chance(15) ? 0 : (uint64_t)g.range(1, 60));
                bool wb = fld(m.hw, hw);
                // extension scheme
                int64_t es, ee;
                unsigned cs, ce;
                auto pick = [&](MV<int64_t>& mv, int64_t& val, unsigned& code) {
                    if (mv.def && g.chance(35)) { code = 0; val = mv.v; return; }
                    switch (g.below(3)) {
                        case 0: code = 1; val = 0; break;
                        case 1: code = 2; val = (int64_t)hw; break;
                        default: code = 3; val = g.chance(15) ? 0 : g.range(-20, 60);
                    }
                };
                pick(m.exs, es, cs);
                pick(m.exe, ee, ce);
                bool eb = !(cs == 0 && ce == 0 && g.coin());
                if (!m.exs.def || !m.exe.def) eb = true;
                W f;
                f.g = &g;
                if (wb) f.uint(hw);
                if (eb) {
                    f.byte((cs << 2) | ce);
                    if (cs == 3) f.sint(es);
                    if (ce == 3) f.sint(ee);
                } else { es = m.exs.v; ee = m.exe.v; }
                m.exs.set(es);
                m.exe.set(ee);
                std::vector<P2> rel;
                {
                    int n = (int)g.range(1, 6);
                    int style = (int)g.below(4);
                    P2 p(0, 0);
                    bool horiz = g.coin();
                    for (int i = 0; i < n; i++) {
                        int64_t a2 = 0, b2 = 0;
                        while (a2 == 0) a2 = g.range(-40, 40);
                        while (b2 == 0) b2 = g.range(-40, 40);
                        switch (style) {
                            case 0: if (horiz) p.first += a2; else p.second += a2; horiz = !horiz; break;
                            case 1: if (g.coin()) p.first += a2; else p.second += a2; break;
                            case 2: if (g.coin()) { p.first += a2; p.second += g.coin() ? a2 : -a2; } else p.first += a2; break;
                            default: p.first += a2; p.second += b2;
                        }
                        if (!rel.empty() && rel.back() == p) p.first += 7;
                        if (rel.empty() && p == P2(0, 0)) p.first += 7;
                        rel.push_back(p);
                    }
                }
                if (m.pathpts.def && g.chance(25)) rel = m.pathpts.v;
                bool pb = !(m.pathpts.is(rel) && reuse());
                if (pb) write_plist(f, rel, false);
                m.pathpts.set(rel);
                pos_fields(tail, m.gx, m.gy, x, y, xb, yb);
                rb = rep_field(tail, rep);
                w.byte(22);
                w.byte((eb ? 0x80 : 0) | (wb ? 0x40 : 0) | (pb ? 0x20 : 0) | (xb ? 0x10 : 0) | (yb ? 0x08 : 0) | (rb ? 0x04 : 0) | (db ? 0x02 : 0) | (lb ? 0x01 : 0));
                w.raw(head.b); w.raw(f.b); w.raw(tail.b);
                el.width = 2 * (int64_t)hw;
                el.end = 3;
                el.e0 = es;
                el.e1 = ee;
                pa.els.push_back(el);
                pa.pts.push_back(P2(x, y));
                for (auto& p : rel) pa.pts.push_back(P2(x + p.first, y + p.second));
                if (rb) pa.rep = rep;
                emit(w, true);
                pa.props = draw_props(25);
                write_props(pa.props, true);
                cell.paths.push_back(pa);
                stat(eb ? "rec:path" : "rec:path-modal-extensions");
                return;
            }
        }
        if (rb) ap.rep = rep;
        emit(w, true);
        ap.props = draw_props(25);
        write_props(ap.props, true);
        cell.polys.push_back(ap);
    }

    void text(ACell& cell) {
        ALabel t;
        // strings that live in the TEXTSTRING table are referenced by number, the others are written inline
        if (!textstrings.strings.empty() && g.chance(50)) t.text = textstrings.strings[g.below(textstrings.strings.size())];
        else t.text = g.chance(40) ? std::string("inline") + std::to_string(g.below(3)) : astr(1, 12);
        t.layer = tag();
        t.type = tag();
        t.x = coord();
        t.y = coord();
        W w, f, tail;
        w.g = f.g = tail.g = &g;
        bool cb = fld(m.textstring, t.text);
        int ti = textstrings.find(t.text);
        bool nb = cb && ti >= 0;
        if (cb) { if (nb) f.uint(textstrings.number[ti]); else f.str(t.text); }
        bool lb = fld(m.textlayer, t.layer), tb = fld(m.texttype, t.type);
        if (lb) f.uint(t.layer);
        if (tb) f.uint(t.type);
        bool xb, yb;
        pos_fields(tail, m.tx, m.ty, t.x, t.y, xb, yb);
        ARep rep;
        bool rb = rep_field(tail, rep);
        w.byte(19);
        w.byte((cb ? 0x40 : 0) | (nb ? 0x20 : 0) | (xb ? 0x10 : 0) | (yb ? 0x08 : 0) | (rb ? 0x04 : 0) | (tb ? 0x02 : 0) | (lb ? 0x01 : 0));
        w.raw(f.b); w.raw(tail.b);
        if (rb) t.rep = rep;
        emit(w, true);
        t.props = draw_props(20);
        write_props(t.props, true);
        cell.labels.push_back(t);
        stat(cb ? (nb ? "rec:text-ref" : "rec:text-inline") : "rec:text-modal");
    }

    void placement(ACell& cell, const std::vector<std::string>& targets) {
        ARef r;
        r.how = 1;
        r.target = targets[g.below(targets.size())];
        r.x = coord();
        r.y = coord();
        r.refl = g.coin();
        W w, f, tail;
        w.g = f.g = tail.g = &g;
        bool cb = fld(m.placecell, r.target);
        int ci = cellnames.find(r.target);
        bool nb = cb && ci >= 0 && g.chance(70);
        if (cb) { if (nb) f.uint(cellnames.number[ci]); else f.str(r.target); }
        bool general = g.coin();
        unsigned info = (cb ? 0x80 : 0) | (nb ? 0x40 : 0) | (r.refl ? 0x01 : 0);
        if (!general) {
            r.quarter = true;
            r.k = (int)g.below(4);
            r.mag = 1.0;
            info |= (unsigned)r.k << 1;
        } else {
            r.quarter = false;
            r.q = 0;
            r.mag = 1.0;
            if (g.chance(65)) {
                Real mg = real_positive();
                mg.write(f);
                r.mag = mg.value();
                info |= 0x04;
                stat("real:type" + std::to_string(mg.type));
            }
            if (g.chance(65)) {
                Real an = real_angle(r.q);
                an.write(f);
                info |= 0x02;
                stat("real:type" + std::to_string(an.type));
            }
        }
        bool xb, yb;
        pos_fields(tail, m.px, m.py, r.x, r.y, xb, yb);
        ARep rep;
        bool rb = rep_field(tail, rep);
        info |= (xb ? 0x20 : 0) | (yb ? 0x10 : 0) | (rb ? 0x08 : 0);
        w.byte(general ? 18 : 17);
        w.byte(info);
        w.raw(f.b); w.raw(tail.b);
        if (rb) r.rep = rep;
        emit(w, true);
        r.props = draw_props(20);
        write_props(r.props, true);
        cell.refs.push_back(r);
        stat(general ? "rec:placement18" : "rec:placement17");
        stat(cb ? (nb ? "placement:ref" : "placement:inline") : "placement:modal");
    }

    void table_records(Table& t, unsigned implicit_id, int slot) {
        for (size_t i = 0; i < t.strings.size(); i++) {
            if (t.slot[i] != slot) continue;
            W w;
            w.g = &g;
            w.byte(t.explicit_numbers ? implicit_id + 1 : implicit_id);
            w.str(t.strings[i]);
            if (t.explicit_numbers) w.uint(t.number[i]);
            emit(w, false);
            // properties do not carry over the name record: the modal name / value list may still be used, but the
            // encoder keeps to explicit forms after a name record of another table
            if (&t == &cellnames && i < t.props.size() && !t.props[i].empty()) write_props(t.props[i], false);
            stat("table:" + std::to_string(implicit_id) + (t.explicit_numbers ? "-explicit" : "-implicit"));
        }
    }

    Encoded run() {
        ALib L;
        // unit: grid steps per micron
        Real unit;
        switch (g.below(6)) {
            case 0: unit.type = 0; unit.a = 1000; break;
            case 1: unit.type = 0; unit.a = 1; break;
            case 2: unit.type = 4; unit.a = 2000; unit.b = 2; break;
            case 3: unit.type = 6; unit.f = 200.0f; break;
            case 4: unit.type = 7; unit.d = 1000.0; break;
            default: unit.type = 2; unit.a = 4; break;   // 4 microns per grid step
        }
        out.unit_real = unit.value();
        L.unit = 1e-6;
        L.precision = 1e-6 / out.unit_real;

        ncells = (int)g.range(1, 4);
        std::vector<std::string> names, missing;
        std::set<std::string> used;
        for (int i = 0; i < ncells; i++) {
            std::string n;
            do { n = g.chance(50) ? std::string("C") + std::to_string(g.below(30)) : nstr(1, 14); } while (used.count(n));
            used.insert(n);
            names.push_back(n);
        }
        for (int i = 0; i < (int)g.below(3); i++) {
            std::string n;
            do { n = std::string("EXT") + std::to_string(g.below(30)); } while (used.count(n));
            used.insert(n);
            missing.push_back(n);
        }
        // which cells are declared by reference number (need a CELLNAME entry); extra entries for placements
        std::vector<bool> by_number(ncells);
        for (int i = 0; i < ncells; i++) {
            by_number[i] = g.coin();
            if (by_number[i] || g.chance(40)) {
                cellnames.strings.push_back(names[i]);
                cellnames.props.push_back(by_number[i] ? draw_props(35) : AProps());
            }
        }
        for (auto& n : missing)
            if (g.coin()) { cellnames.strings.push_back(n); cellnames.props.push_back(AProps()); }
        // shuffle the cell-name entries
        for (size_t i = cellnames.strings.size(); i > 1; i--) {
            size_t j = g.below(i);
            std::swap(cellnames.strings[i - 1], cellnames.strings[j]);
            std::swap(cellnames.props[i - 1], cellnames.props[j]);
        }
        for (int i = 0; i < (int)g.below(4); i++) textstrings.strings.push_back(std::string("tab text ") + std::to_string(i));
        for (int i = 0; i < (int)g.below(4); i++) propnames.strings.push_back(std::string("PN") + std::to_string(i));
        for (int i = 0; i < (int)g.below(4); i++) propstrings.strings.push_back(std::string("str") + std::to_string(i));
        finish_table(cellnames);
        finish_table(textstrings);
        finish_table(propnames);
        finish_table(propstrings);

        // START
        W start;
        start.g = NULL;  // fixed-form header
        static const char magic[] = "%SEMI-OASIS\r\n";
        for (int i = 0; i < 13; i++) start.byte((unsigned char)magic[i]);
        start.byte(1);
        start.str("1.0");
        start.g = &g;
        unit.write(start);
        bool offsets_in_start = g.coin();
        start.byte(offsets_in_start ? 0 : 1);
        if (offsets_in_start)
            for (int i = 0; i < 12; i++) start.byte(0);
        stat("real:type" + std::to_string(unit.type));
        items.push_back({start.b, false});
        // file-level properties
        L.props = draw_props(40);
        m = Modal();
        write_props(L.props, false);

        for (int ci = 0; ci <= ncells; ci++) {
            table_records(cellnames, 3, ci);
            table_records(textstrings, 5, ci);
            table_records(propnames, 7, ci);
            table_records(propstrings, 9, ci);
            if (ci == ncells) break;
            ACell cell;
            cell.name = names[ci];
            W w;
            w.g = &g;
            if (by_number[ci]) { w.byte(13); w.uint(cellnames.number[cellnames.find(names[ci])]); }
            else { w.byte(14); w.str(names[ci]); }
            emit(w, false);
            stat(by_number[ci] ? "rec:cell-ref" : "rec:cell-name");
            m = Modal();  // CELL resets every modal variable
            AProps own = draw_props(30);
            write_props(own, true);
            // the properties of the CELLNAME record come first
            int tix = cellnames.find(names[ci]);
            if (by_number[ci] && tix >= 0) cell.props = cellnames.props[tix];
            for (auto& p : own) cell.props.push_back(p);
            // references go to later cells or to cells that are not in the file
            std::vector<std::string> targets;
            for (int k = ci + 1; k < ncells; k++) targets.push_back(names[k]);
            for (auto& n : missing) targets.push_back(n);
            int nel = g.chance(10) ? 0 : (int)g.range(1, 9);
            for (int e = 0; e < nel; e++) {
                maybe_switch_mode();
                switch (g.below(10)) {
                    case 0: case 1: text(cell); break;
                    case 2: case 3: if (!targets.empty()) { placement(cell, targets); break; }  // fall through
                    default: geometry(cell, names[ci]);
                }
            }
            for (auto& r : cell.refs)
                for (auto& n : missing)
                    if (r.target == n) out.has_missing_refs = true;
            L.cells.push_back(cell);
        }
        // table-record properties of CELLNAME entries were written with values fixed at that time: the cell property
        // lists were copied before table_records ran for later slots, so rebuild them now
        for (auto& c : L.cells) {
            int tix = cellnames.find(c.name);
            bool num = false;
            for (int i = 0; i < ncells; i++)
                if (names[i] == c.name) num = by_number[i];
            if (num && tix >= 0) {
                size_t k = cellnames.props[tix].size();
                // c.props = [table props (k entries, possibly stale reals)] ++ own
                for (size_t i = 0; i < k && i < c.props.size(); i++) c.props[i] = cellnames.props[tix][i];
            }
        }

        // END
        unsigned scheme = (unsigned)g.below(3);
        W end;
        end.g = NULL;
        end.byte(2);
        if (!offsets_in_start)
            for (int i = 0; i < 12; i++) end.byte(0);
        size_t fixed = end.b.size() + 1 + (scheme ? 4 : 0);  // + scheme byte (+ signature)
        // padding string: length header 1 or 2 bytes
        size_t pad = 256 - fixed - 1;
        if (pad >= 128) pad = 256 - fixed - 2;
        end.g = NULL;
        {
            // minimal-length encoding of the string length
            uint64_t v = pad;
            while (true) { uint8_t c = v & 0x7f; v >>= 7; if (v) end.byte(c | 0x80); else { end.byte(c); break; } }
        }
        for (size_t i = 0; i < pad; i++) end.byte(0);
        end.byte(scheme);
        stat("end:validation" + std::to_string(scheme));
        out.validation = scheme;
        stat(offsets_in_start ? "start:offsets-in-start" : "start:offsets-in-end");

        // assemble: plain stream, and the file with CBLOCKs around runs of cell-body records
        auto assemble = [&](bool with_cblocks) {
            Bytes o;
            size_t i = 0;
            while (i < items.size()) {
                if (with_cblocks && items[i].body && g.chance(30)) {
                    size_t j = i;
                    Bytes inner;
                    size_t maxrun = (size_t)g.range(1, 12);
                    while (j < items.size() && items[j].body && j - i < maxrun) { inner.insert(inner.end(), items[j].bytes.begin(), items[j].bytes.end()); j++; }
                    Bytes comp = oscan::deflate_raw(inner, (int)g.range(1, 9));
                    W w;
                    w.g = NULL;
                    w.byte(34);
                    w.byte(0);
                    w.uint(inner.size());
                    w.uint(comp.size());
                    w.raw(comp);
                    o.insert(o.end(), w.b.begin(), w.b.end());
                    out.stats["cblock"]++;
                    i = j;
                } else {
                    o.insert(o.end(), items[i].bytes.begin(), items[i].bytes.end());
                    i++;
                }
            }
            o.insert(o.end(), end.b.begin(), end.b.end());
            if (scheme == 1) {
                uint32_t s = (uint32_t)crc32(crc32(0, NULL, 0), o.data(), (unsigned)o.size());
                for (int k = 0; k < 4; k++) o.push_back((s >> (8 * k)) & 0xff);
            } else if (scheme == 2) {
                uint32_t s = 0;
                for (auto c : o) s += c;
                for (int k = 0; k < 4; k++) o.push_back((s >> (8 * k)) & 0xff);
            }
            return o;
        };
        out.plain = assemble(false);
        out.file = g.chance(50) ? assemble(true) : out.plain;
        out.expected = expected_dump(L);
        // expectation for CIRCLE records: "circle cx cy r"
        for (auto& l : out.expected.lines) {
            std::vector<std::string> sec = split_sections(l.text);
            (void)sec;
        }
        // rewrite circle lines
        {
            std::map<std::string, std::vector<const APoly*>> by_cell;
            ALib L2 = L;
            Dump d;
            // expected_dump prints "circle" for circle polygons; substitute the parameters by rebuilding the lines
            d = expected_dump(L2);
            // collect circle parameter strings per cell in polygon order, then patch lines of that cell greedily by layer/type
            for (auto& c : L.cells)
                for (auto& p : c.polys)
                    if (p.circle) {
                        std::string from = "POLY " + hex_u64(p.layer) + " " + hex_u64(p.type) + "|circle|" + rep_text(p.rep.offsets()) + "|" + props_text(p.props);
                        std::string to = "POLY " + hex_u64(p.layer) + " " + hex_u64(p.type) + "|circle " + hex_i64(p.cx) + " " + hex_i64(p.cy) + " " + hex_u64((uint64_t)p.cr) + "|" + rep_text(p.rep.offsets()) + "|" + props_text(p.props);
                        // patch inside the block of this cell
                        bool in_cell = false;
                        for (auto& l : d.lines) {
                            if (l.text.compare(0, 5, "CELL ") == 0) in_cell = l.text.compare(5, show_str(c.name).size() + 1, show_str(c.name) + "|") == 0;
                            else if (in_cell && l.text == from) { l.text = to; break; }
                        }
                    }
            // keep each cell's element lines sorted
            size_t i = 0;
            while (i < d.lines.size()) {
                if (d.lines[i].text.compare(0, 5, "CELL ") == 0) {
                    size_t j = i + 1;
                    while (j < d.lines.size() && d.lines[j].text.compare(0, 5, "CELL ") != 0) j++;
                    std::sort(d.lines.begin() + i + 1, d.lines.begin() + j, [](const Line& a, const Line& b) { return a.text < b.text; });
                    i = j;
                } else i++;
            }
            out.expected = d;
        }
        return out;
    }
};

static inline Encoded encode_random(Rng& g) {
    Enc e(g);
    return e.run();
}

}  // namespace oasenc
