// C04 harness: OASIS against the specification-level model.
//  (a) kind "gdstk": a library is saved by gdstk (every option set; CBLOCKs inflated and spliced by the harness);
//      the extracted spec_oas_decode decodes the bytes (S line), the harness prints the dump of the library that was
//      saved (I line).  The END record, table offsets and standard properties are checked by the harness alone (P line).
//  (c) kind "detect": the static shape detection of polygon.cpp (is_rectangle, is_trapezoid) on 3 / 4 integer points
//      against the extracted Gallina model OasisDetect.v (M line); payload "n x0 y0 x1 y1 ...".
//  (b) kind "spec": a specification-level random OASIS encoder (oas_encoder.hpp) emits a file; gdstk's read_oas loads
//      it (I line = dump of the loaded library), spec_oas_decode decodes the same records (S line), and the encoder's
//      own expectation is compared with what gdstk loaded (P line).
// Each case runs in a forked child; the child reports through a pipe.
#include <fcntl.h>
#include <gdstk/gdstk.hpp>
#include "polygon.cpp"  // static is_rectangle / is_trapezoid (kind "detect"); listed in include_cpp
#include "oas_layout.hpp"
#include "oas_scan.hpp"
#include "oas_encoder.hpp"

using namespace gdstk;
using namespace oasl;

static std::string g_outdir;
static std::string g_params;  // generator parameters of the current case: first words of the case payload

static std::vector<uint8_t> slurp(const std::string& path) {
    std::vector<uint8_t> v;
    FILE* f = fopen(path.c_str(), "rb");
    if (!f) return v;
    uint8_t buf[65536];
    size_t r;
    while ((r = fread(buf, 1, sizeof buf, f)) > 0) v.insert(v.end(), buf, buf + r);
    fclose(f);
    return v;
}
static void spit(const std::string& path, const std::vector<uint8_t>& v) {
    FILE* f = fopen(path.c_str(), "wb");
    if (!f) return;
    fwrite(v.data(), 1, v.size(), f);
    fclose(f);
}

static std::string run_child(std::function<void(FILE*)> f, std::string& status, unsigned seconds = 60) {
    int fd[2];
    status = "ok";
    if (pipe(fd) != 0) {
        status = "PIPEFAIL";
        return "";
    }
    fflush(NULL);
    pid_t pid = fork();
    if (pid == 0) {
        ::close(fd[0]);
        alarm(seconds);
        int dn = open("/dev/null", O_WRONLY);
        if (dn >= 0 && !getenv("C04_VERBOSE")) dup2(dn, 2);
        FILE* o = fdopen(fd[1], "w");
        f(o);
        fflush(o);
        VERIF_COV_DUMP();
        _exit(0);
    }
    ::close(fd[1]);
    std::string res;
    char buf[65536];
    ssize_t r;
    while ((r = read(fd[0], buf, sizeof buf)) > 0) res.append(buf, (size_t)r);
    ::close(fd[0]);
    int st = 0;
    waitpid(pid, &st, 0);
    if (WIFSIGNALED(st)) {
        char b[32];
        if (WTERMSIG(st) == SIGALRM) snprintf(b, sizeof b, "HANG");
        else snprintf(b, sizeof b, "CRASH(%d)", WTERMSIG(st));
        status = b;
    } else if (WIFEXITED(st) && WEXITSTATUS(st) != 0) {
        char b[32];
        snprintf(b, sizeof b, "CRASH(exit%d)", WEXITSTATUS(st));
        status = b;
    }
    return res;
}

static bool circle_like_poly(const Polygon* p, double scaling) {
    if (p->point_array.count < 5) return false;
    double cx = 0, cy = 0;
    for (uint64_t i = 0; i < p->point_array.count; i++) { cx += p->point_array[i].x; cy += p->point_array[i].y; }
    cx /= (double)p->point_array.count;
    cy /= (double)p->point_array.count;
    double rmin = 1e300, rmax = 0;
    for (uint64_t i = 0; i < p->point_array.count; i++) {
        double r = hypot(p->point_array[i].x - cx, p->point_array[i].y - cy) * scaling;
        rmin = std::min(rmin, r);
        rmax = std::max(rmax, r);
    }
    return rmax - rmin < 1.5;
}

// ---------------------------------------------------------------- (a) END-record truth
struct Truth {
    std::vector<std::string> fails;
    std::set<std::string> keys;
    void fail(const std::string& s) { fails.push_back(s); }
};

static void end_truth(const ALib& L, Built& b, const std::vector<uint8_t>& file, const oscan::Scan& sc, unsigned flags, Truth& t) {
    using namespace oscan;
    // END: 256 bytes from its record byte to the end of the file
    if (file.size() - sc.end_offset != 256) t.fail("END record is " + std::to_string(file.size() - sc.end_offset) + " bytes");
    unsigned want_scheme = (flags & OASIS_CONFIG_INCLUDE_CRC32) ? 1 : (flags & OASIS_CONFIG_INCLUDE_CHECKSUM32) ? 2 : 0;
    if (sc.validation != want_scheme) t.fail("validation scheme " + std::to_string(sc.validation));
    if (sc.offset_flag != 1) t.fail("offset flag");
    // table offsets: first record of each name class, 0 when the class is absent; strict flag 1 means every record
    // of the class sits in one run starting there
    static const unsigned cls[4][2] = {{3, 4}, {5, 6}, {7, 8}, {9, 10}};
    static const char* cname[4] = {"CELLNAME", "TEXTSTRING", "PROPNAME", "PROPSTRING"};
    for (int k = 0; k < 4; k++) {
        size_t first = 0;
        bool found = false, in_run = false, run_over = false, contiguous = true;
        for (auto& r : sc.records) {
            bool is = r.id == cls[k][0] || r.id == cls[k][1];
            if (is) {
                if (!found) { found = true; first = r.file_offset; }
                if (run_over) contiguous = false;
                in_run = true;
            } else if (in_run && r.id != 28 && r.id != 29 && r.id != 0) {
                in_run = false;
                run_over = true;
            }
        }
        uint64_t flag = sc.table[2 * k], off = sc.table[2 * k + 1];
        if (found) {
            if (first == (size_t)-1) t.fail(std::string(cname[k]) + " records inside a CBLOCK");
            else if (off != first) t.fail(std::string(cname[k]) + " table offset " + std::to_string(off) + " but first record at " + std::to_string(first));
            if (flag == 1 && !contiguous) t.fail(std::string(cname[k]) + " table marked strict but not contiguous");
        } else if (off != 0) t.fail(std::string(cname[k]) + " table offset " + std::to_string(off) + " without records");
    }
    for (int k = 4; k < 6; k++)
        if (sc.table[2 * k + 1] != 0) t.fail("LAYERNAME/XNAME offset not 0");

    // property name table of the file: reference number -> name; property strings
    std::map<uint64_t, std::string> propname, propstring, cellname;
    uint64_t ps_next = 0, cn_next = 0, pn_next = 0;
    size_t max_string = 0;
    for (auto& r : sc.records) {
        if (r.id == 3) cellname[cn_next++] = r.name;
        if (r.id == 4) cellname[r.ref] = r.name;
        if (r.id == 7) propname[pn_next++] = r.name;
        if (r.id == 8) propname[r.ref] = r.name;
        if (r.id == 9) propstring[ps_next++] = r.name;
        if (r.id == 10) propstring[r.ref] = r.name;
        if (r.id >= 3 && r.id <= 10) max_string = std::max(max_string, r.name.size());
    }
    auto pname = [&](const RawProp& p) { return p.name_is_ref ? (propname.count(p.name_ref) ? propname[p.name_ref] : std::string("?")) : p.name; };

    // CELL records in file order and their offsets; cell names through the table
    std::vector<size_t> cell_offsets;
    std::vector<std::string> cell_names;
    for (auto& r : sc.records)
        if (r.id == 13 || r.id == 14) {
            cell_offsets.push_back(r.file_offset);
            cell_names.push_back(r.id == 14 ? r.name : (cellname.count(r.ref) ? cellname[r.ref] : std::string("?")));
        }
    if (cell_names.size() != L.cells.size()) t.fail("number of CELL records");

    // library-level properties follow START (record index 0); cell-level standard properties follow CELLNAME records
    std::vector<std::string> top_listed;
    std::map<std::string, uint64_t> lib_uint;
    for (auto& p : sc.props) {
        std::string n = pname(p);
        const Rec& host = sc.records[p.after_record];
        if (host.id == 1) {
            if (n == "S_TOP_CELL")
                for (auto& v : p.values) top_listed.push_back(v.type >= 13 ? (propstring.count(v.u) ? propstring[v.u] : "?") : v.s);
            if (n.compare(0, 2, "S_") == 0 && p.values.size() == 1 && p.values[0].type == 8) lib_uint[n] = p.values[0].u;
        }
    }
    // S_TOP_CELL: the cells of the file that no PLACEMENT of the file refers to
    if (flags & OASIS_CONFIG_PROPERTY_TOP_LEVEL) {
        std::set<std::string> referenced, referenced_by_pointer;
        for (auto& c : L.cells)
            for (auto& r : c.refs) {
                referenced.insert(r.target);
                if (r.how == 0) referenced_by_pointer.insert(r.target);
            }
        std::multiset<std::string> want, want_ptr_only, got(top_listed.begin(), top_listed.end());
        for (auto& c : L.cells) {
            if (!referenced.count(c.name)) want.insert(c.name);
            if (!referenced_by_pointer.count(c.name)) want_ptr_only.insert(c.name);
        }
        if (got != want) {
            if (got == want_ptr_only) t.keys.insert("write_oas:top-cell-ignores-name-references");
            else t.fail("S_TOP_CELL lists " + std::to_string(got.size()) + " cells, " + std::to_string(want.size()) + " are unreferenced");
        }
    } else if (!top_listed.empty()) t.fail("S_TOP_CELL without the flag");

    // per cell: S_CELL_OFFSET and S_BOUNDING_BOX on the CELLNAME record of the cell
    double sc_ = L.scaling();
    for (size_t pi = 0; pi < sc.props.size(); pi++) {
        const RawProp& p = sc.props[pi];
        const Rec& host = sc.records[p.after_record];
        if (host.id != 3 && host.id != 4) continue;
        std::string n = pname(p);
        // which cell
        size_t ci = (size_t)-1;
        for (size_t k = 0; k < cell_names.size(); k++)
            if (cell_names[k] == host.name) ci = k;
        if (ci == (size_t)-1) continue;
        if (n == "S_CELL_OFFSET") {
            if (!(flags & OASIS_CONFIG_PROPERTY_CELL_OFFSET)) t.fail("S_CELL_OFFSET without the flag");
            if (p.values.size() != 1 || p.values[0].type != 8 || p.values[0].u != cell_offsets[ci])
                t.fail("S_CELL_OFFSET of " + host.name + " = " + (p.values.empty() ? "?" : std::to_string(p.values[0].u)) +
                       " but the CELL record is at " + std::to_string(cell_offsets[ci]));
        }
        if (n == "S_BOUNDING_BOX") {
            Cell* cell = NULL;
            for (uint64_t k = 0; k < b.lib.cell_array.count; k++)
                if (host.name == b.lib.cell_array[k]->name) cell = b.lib.cell_array[k];
            if (!cell || p.values.size() != 5) { t.fail("S_BOUNDING_BOX shape"); continue; }
            Vec2 mn, mx;
            cell->bounding_box(mn, mx);
            int64_t xmin = 0, ymin = 0;
            uint64_t w = 0, h = 0;
            if (mn.x <= mx.x) {
                xmin = llround(mn.x * sc_);
                ymin = llround(mn.y * sc_);
                w = (uint64_t)(llround(mx.x * sc_) - xmin);
                h = (uint64_t)(llround(mx.y * sc_) - ymin);
            }
            bool okb = p.values[0].type == 8 && p.values[0].u == 0 && p.values[1].type == 9 && p.values[1].i == xmin &&
                       p.values[2].type == 9 && p.values[2].i == ymin && p.values[3].type == 8 && p.values[3].u == w &&
                       p.values[4].type == 8 && p.values[4].u == h;
            if (!okb)
                t.fail("S_BOUNDING_BOX of " + host.name + " = (" + hex_i64(p.values[1].i) + "," + hex_i64(p.values[2].i) + "," +
                       hex_u64(p.values[3].u) + "," + hex_u64(p.values[4].u) + ") but Cell::bounding_box gives (" + hex_i64(xmin) + "," +
                       hex_i64(ymin) + "," + hex_u64(w) + "," + hex_u64(h) + ")");
        }
    }
    if (flags & OASIS_CONFIG_PROPERTY_CELL_OFFSET) {
        size_t n_off = 0;
        for (auto& p : sc.props)
            if (pname(p) == "S_CELL_OFFSET") n_off++;
        if (n_off != L.cells.size()) t.fail("S_CELL_OFFSET count");
    }
    if (flags & OASIS_CONFIG_PROPERTY_BOUNDING_BOX) {
        if (!lib_uint.count("S_BOUNDING_BOXES_AVAILABLE") || lib_uint["S_BOUNDING_BOXES_AVAILABLE"] != 2) t.fail("S_BOUNDING_BOXES_AVAILABLE");
    }
    if (flags & OASIS_CONFIG_PROPERTY_MAX_COUNTS) {
        if (lib_uint["S_MAX_SIGNED_INTEGER_WIDTH"] != 8 || lib_uint["S_MAX_UNSIGNED_INTEGER_WIDTH"] != 8) t.fail("S_MAX_*_INTEGER_WIDTH");
        size_t all_strings = std::max(max_string, sc.max_inline_string);
        if (lib_uint["S_MAX_STRING_LENGTH"] < all_strings) {
            if (lib_uint["S_MAX_STRING_LENGTH"] >= max_string) t.keys.insert("write_oas:max-string-length-ignores-placement-names");
            else t.fail("S_MAX_STRING_LENGTH " + std::to_string(lib_uint["S_MAX_STRING_LENGTH"]) + " < " + std::to_string(all_strings));
        } else if (lib_uint["S_MAX_STRING_LENGTH"] != std::max(max_string, (size_t)28) && lib_uint["S_MAX_STRING_LENGTH"] != all_strings)
            t.fail("S_MAX_STRING_LENGTH " + std::to_string(lib_uint["S_MAX_STRING_LENGTH"]) + " is not the maximum " + std::to_string(all_strings));
        uint64_t pmax = 0, lmax = 0;
        for (uint64_t k = 0; k < b.lib.cell_array.count; k++) {
            Cell* c = b.lib.cell_array[k];
            for (uint64_t i = 0; i < c->polygon_array.count; i++) pmax = std::max<uint64_t>(pmax, c->polygon_array[i]->point_array.count);
            // non-simple paths are stored as the polygons of their outlines
            for (uint64_t i = 0; i < c->flexpath_array.count; i++) {
                if (c->flexpath_array[i]->simple_path) continue;
                Array<Polygon*> outl = {};
                c->flexpath_array[i]->to_polygons(false, 0, outl);
                for (uint64_t q = 0; q < outl.count; q++) {
                    pmax = std::max<uint64_t>(pmax, outl[q]->point_array.count);
                    outl[q]->clear();
                    free_allocation(outl[q]);
                }
                outl.clear();
            }
            for (uint64_t i = 0; i < c->robustpath_array.count; i++) {
                if (c->robustpath_array[i]->simple_path) continue;
                Array<Polygon*> outl = {};
                c->robustpath_array[i]->to_polygons(false, 0, outl);
                for (uint64_t q = 0; q < outl.count; q++) {
                    pmax = std::max<uint64_t>(pmax, outl[q]->point_array.count);
                    outl[q]->clear();
                    free_allocation(outl[q]);
                }
                outl.clear();
            }
        }
        if (lib_uint["S_POLYGON_MAX_VERTICES"] != pmax) t.fail("S_POLYGON_MAX_VERTICES " + std::to_string(lib_uint["S_POLYGON_MAX_VERTICES"]) + " != " + std::to_string(pmax));
        if (lib_uint["S_POLYGON_MAX_VERTICES"] < sc.max_polygon_vertices) t.fail("S_POLYGON_MAX_VERTICES below a POLYGON record of the file");
        if (lib_uint["S_PATH_MAX_VERTICES"] < sc.max_path_vertices) t.fail("S_PATH_MAX_VERTICES " + std::to_string(lib_uint["S_PATH_MAX_VERTICES"]) + " below a PATH record of the file with " + std::to_string(sc.max_path_vertices));
        (void)lmax;
    }
}

static void child_gdstk(FILE* o, const ALib& L, unsigned flags, unsigned level, int64_t tolgrid) {
    set_error_logger(NULL);
    Built b;
    build_library(L, b);
    std::string f = g_outdir + "/y.oas";
    double tol_user = tolgrid > 0 ? (double)tolgrid / L.scaling() : 0.0;
    // dump of the library that is saved, taken before saving (the writer adds its standard properties)
    ErrorCode we = b.lib.write_oas(f.c_str(), tol_user, (uint8_t)level, (uint16_t)flags);
    std::vector<uint8_t> file = slurp(f);
    oscan::Scan sc = oscan::scan_file(file);
    if (!sc.ok) {
        fprintf(o, "C\tgdstk\t%s %s\n", g_params.c_str(), hex_bytes(file.data(), file.size()).c_str());
        fprintf(o, "I\t<written>\n");
        fprintf(o, "P\tFAIL oas-writer-syntax the record scanner rejects the file gdstk wrote: %s\n", sc.error.c_str());
        return;
    }
    // circles: whether the file holds a CIRCLE record for a polygon is read off the record sequence (the writer emits
    // the polygons of a cell first and in order)
    PolySubst subst;
    long circles = 0;
    {
        int ci = -1;
        size_t pi = 0;
        for (auto& r : sc.records) {
            if (r.id == 13 || r.id == 14) { ci++; pi = 0; continue; }
            bool poly_kind = r.id == 20 || r.id == 21 || (r.id >= 23 && r.id <= 27);
            if (!poly_kind || ci < 0 || (size_t)ci >= L.cells.size()) continue;
            if (pi < L.cells[ci].polys.size() && r.id == 27) {
                const APoly& ap = L.cells[ci].polys[pi];
                if (ap.circle) {
                    subst[{L.cells[ci].name, pi}] = "circle " + hex_i64(ap.cx) + " " + hex_i64(ap.cy) + " " + hex_u64((uint64_t)ap.cr);
                    circles++;
                }
            }
            pi++;
        }
    }
    // the saved library, without the standard properties (props_text drops them)
    Dump d = library_dump(b.lib, &subst);
    std::string I = d.joined() + " ;; UNIT " + hex_dbl(1e-6 / L.precision);
    // circle tolerance in grid steps, for the comparison rule (a polygon the writer stored as a CIRCLE within that tolerance)
    if (tolgrid > 0) I += " ;; CTOL " + hex_i64(tolgrid);
    fprintf(o, "C\tgdstk\t%s %s\n", g_params.c_str(), hex_bytes(sc.spliced.data(), sc.spliced.size()).c_str());
    fprintf(o, "I\t%s\n", I.c_str());
    fprintf(o, "STAT\tcblocks\t%ld\n", (long)sc.cblocks);
    fprintf(o, "STAT\tcircle_records\t%ld\n", circles);
    Truth t;
    if (we != ErrorCode::NoError) t.fail("write_oas returned an error");
    end_truth(L, b, file, sc, flags, t);
    if (!t.fails.empty()) fprintf(o, "P\tFAIL oas-end-truth %s\n", t.fails[0].c_str());
    else if (!t.keys.empty()) fprintf(o, "P\tFAIL %s END / standard properties disagree with the file\n", t.keys.begin()->c_str());
    else fprintf(o, "P\tok\n");
}

// ---------------------------------------------------------------- (b) specification-level encoder -> read_oas
static void child_spec(FILE* o, uint64_t eseed) {
    set_error_logger(NULL);
    Rng eg(eseed);
    oasenc::Encoded e = oasenc::encode_random(eg);
    std::string f = g_outdir + "/z.oas";
    spit(f, e.file);
    fprintf(o, "C\tspec\t%s %s\n", g_params.c_str(), hex_bytes(e.plain.data(), e.plain.size()).c_str());
    for (auto& kv : e.stats) fprintf(o, "STAT\t%s\t%ld\n", kv.first.c_str(), kv.second);
    fflush(o);
    ErrorCode ec = ErrorCode::NoError;
    Library lib = read_oas(f.c_str(), 0, 0, &ec);
    // CIRCLE records: the loaded polygon must lie on the circle; it is then written as "circle cx cy r"
    PolySubst subst;
    double s1 = lib.unit / lib.precision;
    std::string circle_fail;
    for (auto& ce : e.circles) {
        Cell* c = NULL;
        for (uint64_t i = 0; i < lib.cell_array.count; i++)
            if (lib.cell_array[i]->name && ce.cell == lib.cell_array[i]->name) c = lib.cell_array[i];
        if (!c || ce.index >= c->polygon_array.count) { circle_fail = "CIRCLE record not loaded as a polygon"; continue; }
        Polygon* p = c->polygon_array[ce.index];
        bool okc = p->point_array.count >= 3;
        for (uint64_t k = 0; okc && k < p->point_array.count; k++) {
            double d = hypot(p->point_array[k].x * s1 - (double)ce.cx, p->point_array[k].y * s1 - (double)ce.cy);
            if (fabs(d - (double)ce.r) > 1e-6 * (1 + (double)ce.r)) okc = false;
        }
        if (okc) subst[{ce.cell, ce.index}] = "circle " + hex_i64(ce.cx) + " " + hex_i64(ce.cy) + " " + hex_u64((uint64_t)ce.r);
        else circle_fail = "polygon loaded from a CIRCLE record is not on the circle";
    }
    Dump d = library_dump(lib, &subst);
    std::string I = d.joined() + " ;; UNIT " + hex_dbl(e.unit_real);
    fprintf(o, "I\t%s\n", I.c_str());
    // encoder's own expectation
    std::string want = e.expected.joined() + " ;; UNIT " + hex_dbl(e.unit_real);
    bool okec = ec == ErrorCode::NoError || (ec == ErrorCode::MissingReference && e.has_missing_refs);
    // a file with a correct signature must validate (oas_validate leaks its FILE*: fine inside the child)
    bool valid_ok = true;
    {
        uint32_t sig = 0;
        ErrorCode vec = ErrorCode::NoError;
        bool okv = oas_validate(f.c_str(), &sig, &vec);
        if (!okv) valid_ok = false;
        if (e.validation == 0 && vec != ErrorCode::ChecksumError) valid_ok = false;
    }
    if (!valid_ok) fprintf(o, "P\tFAIL oas-spec-validate oas_validate rejects a file whose END record carries the right signature (scheme %u)\n", e.validation);
    else if (!circle_fail.empty()) fprintf(o, "P\tFAIL oas-spec-read %s\n", circle_fail.c_str());
    else if (!okec) fprintf(o, "P\tFAIL oas-spec-read read_oas error code %d\n", (int)ec);
    else if (fabs(lib.precision * e.unit_real / 1e-6 - 1) > 1e-12) fprintf(o, "P\tFAIL oas-spec-read precision %s\n", hex_dbl(lib.precision).c_str());
    else if (want != I) {
        // first differing line
        std::vector<std::string> a = e.expected.texts(), bb = d.texts();
        std::string why = "line count";
        for (size_t i = 0; i < a.size() && i < bb.size(); i++)
            if (a[i] != bb[i]) { why = "expected " + a[i] + " loaded " + bb[i]; break; }
        fprintf(o, "P\tFAIL oas-spec-read %s\n", why.c_str());
    } else fprintf(o, "P\tok\n");
}

// ---------------------------------------------------------------- case plumbing
static void relay(Out& out, const std::string& res, const std::string& status, const std::string& kind, const std::string& desc) {
    std::string id;
    bool have_p = false, have_i = false;
    size_t p = 0;
    while (p < res.size()) {
        size_t q = res.find('\n', p);
        if (q == std::string::npos) q = res.size();
        std::string line = res.substr(p, q - p);
        p = q + 1;
        if (line.compare(0, 2, "C\t") == 0) {
            size_t t = line.find('\t', 2);
            id = out.add(line.substr(2, t - 2), line.substr(t + 1));
        } else if (line.compare(0, 2, "I\t") == 0 && !id.empty()) {
            out.I(id, line.substr(2));
            have_i = true;
        } else if (line.compare(0, 2, "P\t") == 0 && !id.empty()) {
            out.P(id, line.substr(2));
            have_p = true;
            std::string v = line.substr(2);
            out.count("verdict:" + (v == "ok" ? v : v.substr(5, v.find(' ', 5) - 5)));
        } else if (line.compare(0, 5, "STAT\t") == 0) {
            size_t t = line.find('\t', 5);
            out.count(line.substr(5, t - 5), atol(line.c_str() + t + 1));
        }
    }
    if (id.empty()) id = out.add(kind + "-crash", desc);
    if (!have_i) out.I(id, status);
    if (!have_p) {
        out.P(id, "FAIL oas-crash " + status + " (" + desc + ")");
        out.count("verdict:oas-crash");
    }
}

// case payloads: "gdstk": "<layout-seed> <flags hex> <level> <tolgrid> <hex bytes>", "spec": "<encoder-seed> <hex bytes>";
// the byte string is what the driver decodes; it is regenerated from the leading parameters (a replay or a corpus
// entry may leave it out)
static void run_detect(Out& out, const std::string& payload) {
    std::string id = out.add("detect", payload);
    std::vector<int64_t> v;
    {
        const char* p = payload.c_str();
        while (*p) {
            while (*p == ' ') p++;
            if (!*p) break;
            bool neg = *p == '-';
            char* end;
            uint64_t m = strtoull(p + (neg ? 1 : 0), &end, 16);
            v.push_back(neg ? -(int64_t)m : (int64_t)m);
            p = end;
        }
    }
    Array<IntVec2> pts = {};
    for (size_t i = 1; i + 1 < v.size(); i += 2) pts.append(IntVec2{v[i], v[i + 1]});
    std::string res;
    IntVec2 corner, size;
    if (is_rectangle(pts, corner, size)) res = "R " + hex_i64(corner.x) + " " + hex_i64(corner.y) + " " + hex_i64(size.x) + " " + hex_i64(size.y);
    else res = "R-";
    uint8_t type = 0;
    int64_t da = 0, db = 0;
    if (is_trapezoid(pts, type, corner, size, da, db)) {
        res += " ; T " + std::to_string((unsigned)type) + " " + hex_i64(corner.x) + " " + hex_i64(corner.y) + " " + hex_i64(size.x) + " " + hex_i64(size.y);
        if (type > 25) res += " " + hex_i64(da) + " " + hex_i64(db);
        out.count("detect:type" + std::to_string((unsigned)type));
    } else {
        res += " ; T-";
        out.count("detect:none");
    }
    pts.clear();
    out.I(id, res);
}

static void run_case(Out& out, const std::string& kind, const std::string& payload) {
    std::string status;
    if (kind == "detect") {
        run_detect(out, payload);
        return;
    }
    if (kind == "gdstk") {
        unsigned long long ls = 0;
        unsigned fl = 0, lv = 0;
        long long tg = 0;
        sscanf(payload.c_str(), "%llu %x %u %lld", &ls, &fl, &lv, &tg);
        char pb[128];
        snprintf(pb, sizeof pb, "%llu %x %u %lld", ls, fl, lv, tg);
        g_params = pb;
        Rng lg(ls);
        Gen gen(lg, false);
        ALib L = gen.layout();
        out.count("gdstk:level" + std::to_string(lv));
        std::string res = run_child([&](FILE* o) { child_gdstk(o, L, fl, lv, tg); }, status);
        relay(out, res, status, kind, g_params);
    } else if (kind == "spec") {
        uint64_t es = strtoull(payload.c_str(), NULL, 10);
        g_params = std::to_string(es);
        std::string res = run_child([&](FILE* o) { child_spec(o, es); }, status);
        relay(out, res, status, kind, g_params);
    }
}

int main(int argc, char** argv) {
    if (argc < 4) {
        fprintf(stderr, "usage: c04 seed tier outdir [corpus] [replay]\n");
        return 2;
    }
    uint64_t seed = strtoull(argv[1], NULL, 10);
    bool thorough = strcmp(argv[2], "thorough") == 0;
    g_outdir = argv[3];
    set_error_logger(NULL);
    Out out;
    out.open(argv[3]);
    if (argc > 5) {
        std::string k, p;
        if (load_replay(argv[5], k, p)) run_case(out, k, p);
        out.close();
        return 0;
    }
    for (auto& c : load_corpus(argc > 4 ? argv[4] : NULL)) run_case(out, c.first, c.second);
    Rng g0(seed);
    Rng g(g0.next());  // see c02.cpp: consecutive seeds of common.hpp's Rng give shifted copies of one stream
    char buf[160];
    int layouts = thorough ? 400 : 60, per = thorough ? 16 : 6;
    unsigned counter = (unsigned)g.below(256);
    for (int li = 0; li < layouts; li++) {
        uint64_t ls = g.next() >> 1;
        for (int oi = 0; oi < per; oi++) {
            unsigned flags = (counter++ * 37u) & 0xFFu;
            unsigned level = g.chance(40) ? 0 : (unsigned)g.below(10);
            long long tol = g.chance(70) ? 0 : 1 + (long long)g.below(3);
            snprintf(buf, sizeof buf, "%llu %x %u %lld", (unsigned long long)ls, flags, level, tol);
            run_case(out, "gdstk", buf);
        }
    }
    // (c) shape detection: small coordinate ranges so that the equalities the branches test for do occur
    long ndet = thorough ? 400000 : 20000;
    for (long i = 0; i < ndet; i++) {
        std::vector<P2> p;
        int n = g.chance(35) ? 3 : 4;
        if (g.chance(30)) {
            int type = n == 3 ? 16 + (int)g.below(8) : (int)(g.chance(20) ? 24 + g.below(2) : g.below(16));
            int64_t a = g.range(1, 9), b = g.range(1, 9), w, h;
            if (type <= 3) { h = a; w = a + b; } else if (type <= 5) { h = a; w = 2 * a + b; } else if (type <= 7) { h = a; w = a + b; }
            else if (type <= 11) { w = a; h = a + b; } else if (type <= 13) { w = a; h = 2 * a + b; } else if (type <= 15) { w = a; h = a + b; }
            else { w = a; h = b; }
            if (g.chance(15)) w = h;  // degenerate proportions
            p = ctrapezoid_vertices(type, w, h);
            int64_t ox = g.range(-5, 5), oy = g.range(-5, 5);
            for (auto& q : p) { q.first += ox; q.second += oy; }
            size_t s = g.below(p.size());
            std::rotate(p.begin(), p.begin() + s, p.end());
            if (g.coin()) std::reverse(p.begin(), p.end());
        } else {
            int64_t span = g.chance(50) ? 3 : 7;
            for (int k = 0; k < n; k++) p.push_back(P2(g.range(-span, span), g.range(-span, span)));
            if (g.chance(40) && n == 4) {  // force two parallel axis-aligned sides
                if (g.coin()) { p[1].first = p[0].first; p[3].first = p[2].first; }
                else { p[1].second = p[0].second; p[3].second = p[2].second; }
                if (g.coin()) std::rotate(p.begin(), p.begin() + 1, p.end());
            }
        }
        std::string pl = hex_u64(p.size());
        for (auto& q : p) pl += " " + hex_i64(q.first) + " " + hex_i64(q.second);
        run_case(out, "detect", pl);
    }
    long nspec = thorough ? 40000 : 1500;
    for (long i = 0; i < nspec; i++) {
        snprintf(buf, sizeof buf, "%llu", (unsigned long long)(g.next() >> 1));
        run_case(out, "spec", buf);
    }
    out.close();
    return 0;
}
