// C11 harness: Repetition::get_count / get_offsets / get_extrema / transform and the five
// apply_repetition routines (Polygon, FlexPath, RobustPath, Label, Reference) of the real library.
//
// Case kinds (payload -> implementation result line):
//   query  "<rep>"                       -> "count=<hex> off=<vlist> ext=<vlist>"
//   xform  "<rep> | <mnum> <mden> <xr> <rot>"
//                                        -> "<rep on the 2^-20 grid> | off=<vlist on the grid>"
//          rot = Z (angle 0) | Q <k> (angle k*M_PI/2, k != 0) | P <cn> <sn> <d> (angle atan2(sn,cn),
//          cos = cn/d, sin = sn/d exactly).  The library takes cos/sin of the double angle, so
//          quarter turns give 6e-17 instead of 0: every number of an xform result is
//          llround(value * 2^20) (nearest point of the 2^-20 grid), written as a signed hex integer.
//   apply  "<kind> <elemseed> | <rep> | <pos vlist> | <rest>"   kind = polygon|flexpath|robustpath|label|reference
//                                        -> "CRASH" (only if the call dies; count-0 cases run in a child)  or
//                                           "n=<hex> orig=<reptype>;<pos>;<rest'> copies=<reptype>;<pos>;<rest'>/..."
//          pos = the coordinates translate() moves, rest = dump of every other field; rest' is "="
//          when the dump equals the dump of the original taken before the call.
// <rep>  = N | R cols rows sx sy | G cols rows v1x v1y v2x v2y | E n x1 y1 .. | X n x1 .. | Y n y1 ..
// <vlist> = "x,y;x,y;..." or "-" when empty; numbers are signed hex integers (exactness of the
// double is checked: a non-integral value prints as INEXACT(<bits>)).
#include <algorithm>
#include <math.h>
#include <sys/resource.h>
#include <gdstk/gdstk.hpp>
#include "common.hpp"

using namespace gdstk;

// ------------------------------------------------------------------ text helpers
static std::string num_exact(double v) {
    if (!(fabs(v) < 9e15)) return "INEXACT(" + hex_dbl(v) + ")";
    long long r = llround(v);
    if ((double)r != v) return "INEXACT(" + hex_dbl(v) + ")";
    return hex_i64((int64_t)r);
}
static std::string num_grid(double v) {
    double s = v * 1048576.0;
    if (!(fabs(s) < 9e15)) return "INEXACT(" + hex_dbl(v) + ")";
    return hex_i64((int64_t)llround(s));
}
typedef std::string (*NumFn)(double);

static std::string vlist(const Vec2* p, uint64_t n, NumFn f) {
    if (n == 0) return "-";
    std::string s;
    for (uint64_t i = 0; i < n; i++) {
        if (i) s += ";";
        s += f(p[i].x) + "," + f(p[i].y);
    }
    return s;
}
static std::string vlist(const Array<Vec2>& a, NumFn f) { return vlist(a.items, a.count, f); }

static std::vector<std::string> split_ws(const std::string& s) {
    std::vector<std::string> v;
    size_t i = 0;
    while (i < s.size()) {
        while (i < s.size() && s[i] == ' ') i++;
        size_t j = i;
        while (j < s.size() && s[j] != ' ') j++;
        if (j > i) v.push_back(s.substr(i, j - i));
        i = j;
    }
    return v;
}
static std::vector<std::string> split_bar(const std::string& s) {
    std::vector<std::string> v;
    size_t i = 0;
    for (;;) {
        size_t j = s.find('|', i);
        std::string part = s.substr(i, j == std::string::npos ? std::string::npos : j - i);
        while (!part.empty() && part[0] == ' ') part.erase(0, 1);
        while (!part.empty() && part.back() == ' ') part.pop_back();
        v.push_back(part);
        if (j == std::string::npos) break;
        i = j + 1;
    }
    return v;
}
static int64_t parse_i(const std::string& s) {
    bool neg = !s.empty() && s[0] == '-';
    int64_t v = (int64_t)strtoull(s.c_str() + (neg ? 1 : 0), NULL, 16);
    return neg ? -v : v;
}
static uint64_t parse_u(const std::string& s) { return strtoull(s.c_str(), NULL, 16); }

// ------------------------------------------------------------------ repetitions
static const char* type_letter(RepetitionType t) {
    switch (t) {
        case RepetitionType::None: return "N";
        case RepetitionType::Rectangular: return "R";
        case RepetitionType::Regular: return "G";
        case RepetitionType::Explicit: return "E";
        case RepetitionType::ExplicitX: return "X";
        case RepetitionType::ExplicitY: return "Y";
    }
    return "?";
}

static bool parse_rep(const std::string& text, Repetition& r) {
    std::vector<std::string> t = split_ws(text);
    memset(&r, 0, sizeof r);
    if (t.empty()) return false;
    if (t[0] == "N") {
        r.type = RepetitionType::None;
        return t.size() == 1;
    }
    if (t[0] == "R") {
        if (t.size() != 5) return false;
        r.type = RepetitionType::Rectangular;
        r.columns = parse_u(t[1]);
        r.rows = parse_u(t[2]);
        r.spacing = Vec2{(double)parse_i(t[3]), (double)parse_i(t[4])};
        return true;
    }
    if (t[0] == "G") {
        if (t.size() != 7) return false;
        r.type = RepetitionType::Regular;
        r.columns = parse_u(t[1]);
        r.rows = parse_u(t[2]);
        r.v1 = Vec2{(double)parse_i(t[3]), (double)parse_i(t[4])};
        r.v2 = Vec2{(double)parse_i(t[5]), (double)parse_i(t[6])};
        return true;
    }
    if (t.size() < 2) return false;
    uint64_t n = parse_u(t[1]);
    if (t[0] == "E") {
        if (t.size() != 2 + 2 * n) return false;
        r.type = RepetitionType::Explicit;
        for (uint64_t i = 0; i < n; i++)
            r.offsets.append(Vec2{(double)parse_i(t[2 + 2 * i]), (double)parse_i(t[3 + 2 * i])});
        return true;
    }
    if (t[0] == "X" || t[0] == "Y") {
        if (t.size() != 2 + n) return false;
        r.type = t[0] == "X" ? RepetitionType::ExplicitX : RepetitionType::ExplicitY;
        for (uint64_t i = 0; i < n; i++) r.coords.append((double)parse_i(t[2 + i]));
        return true;
    }
    return false;
}

static std::string rep_text(const Repetition& r, NumFn f) {
    std::string s = type_letter(r.type);
    switch (r.type) {
        case RepetitionType::None: break;
        case RepetitionType::Rectangular:
            s += " " + hex_u64(r.columns) + " " + hex_u64(r.rows) + " " + f(r.spacing.x) + " " + f(r.spacing.y);
            break;
        case RepetitionType::Regular:
            s += " " + hex_u64(r.columns) + " " + hex_u64(r.rows) + " " + f(r.v1.x) + " " + f(r.v1.y) + " " +
                 f(r.v2.x) + " " + f(r.v2.y);
            break;
        case RepetitionType::Explicit:
            s += " " + hex_u64(r.offsets.count);
            for (uint64_t i = 0; i < r.offsets.count; i++) s += " " + f(r.offsets[i].x) + " " + f(r.offsets[i].y);
            break;
        case RepetitionType::ExplicitX:
        case RepetitionType::ExplicitY:
            s += " " + hex_u64(r.coords.count);
            for (uint64_t i = 0; i < r.coords.count; i++) s += " " + f(r.coords[i]);
            break;
    }
    return s;
}

// ------------------------------------------------------------------ query
static void run_query(Out& out, const std::string& id, const std::string& payload) {
    Repetition r;
    if (!parse_rep(payload, r)) {
        out.I(id, "bad-case");
        return;
    }
    uint64_t cnt = r.get_count();
    Array<Vec2> off = {};
    r.get_offsets(off);
    Array<Vec2> ext = {};
    r.get_extrema(ext);
    out.I(id, "count=" + hex_u64(cnt) + " off=" + vlist(off, num_exact) + " ext=" + vlist(ext, num_exact));

    // property oracle from the implementation's answers alone
    std::string verdict = "ok";
    if (r.type == RepetitionType::None) {
        if (cnt != 0 || off.count != 0 || ext.count != 0) verdict = "FAIL none:not-empty a None repetition reports offsets";
    } else if (cnt == 0) {
        verdict = "FAIL repetition:zero-count count is 0, the offset set does not contain the zero vector";
    } else {
        bool has_zero = false;
        for (uint64_t i = 0; i < off.count; i++)
            if (off[i].x == 0 && off[i].y == 0) has_zero = true;
        bool members = true;
        for (uint64_t i = 0; i < ext.count; i++) {
            bool f = false;
            for (uint64_t j = 0; j < off.count; j++)
                if (off[j].x == ext[i].x && off[j].y == ext[i].y) f = true;
            if (!f) members = false;
        }
        auto bbox = [](const Array<Vec2>& a, double* b) {
            b[0] = b[1] = INFINITY;
            b[2] = b[3] = -INFINITY;
            for (uint64_t i = 0; i < a.count; i++) {
                b[0] = std::min(b[0], a[i].x);
                b[1] = std::min(b[1], a[i].y);
                b[2] = std::max(b[2], a[i].x);
                b[3] = std::max(b[3], a[i].y);
            }
        };
        double be[4], bo[4];
        bbox(ext, be);
        bbox(off, bo);
        bool same_box = be[0] == bo[0] && be[1] == bo[1] && be[2] == bo[2] && be[3] == bo[3];
        if (cnt != off.count)
            verdict = "FAIL offsets:count get_count differs from the number of enumerated offsets";
        else if (!has_zero)
            verdict = "FAIL offsets:no-zero the zero vector is not enumerated";
        else if (!members)
            verdict = "FAIL extrema:not-member an extreme offset is not an enumerated offset";
        else if (!same_box) {
            verdict = "FAIL extrema:bbox the extrema do not span the bounding box of the offsets";
        }
    }
    // both functions APPEND to the array they are given (callers gather several repetitions into one array): entries that are
    // already there must survive, and what is appended must be what a fresh array receives
    if (verdict == "ok") {
        static const Vec2 marks[3] = {{12345.5, -777.25}, {-3.0, 4096.0}, {0.125, 0.0}};
        for (int pre = 1; pre <= 3 && verdict == "ok"; pre += 2) {
            for (int which = 0; which < 2 && verdict == "ok"; which++) {
                Array<Vec2> acc = {};
                for (int k = 0; k < pre; k++) acc.append(marks[k]);
                if (which == 0) r.get_offsets(acc); else r.get_extrema(acc);
                const Array<Vec2>& fresh = which == 0 ? off : ext;
                bool good = acc.count == (uint64_t)pre + fresh.count;
                for (int k = 0; good && k < pre; k++) good = acc[k].x == marks[k].x && acc[k].y == marks[k].y;
                for (uint64_t k = 0; good && k < fresh.count; k++) good = acc[pre + k].x == fresh[k].x && acc[pre + k].y == fresh[k].y;
                if (!good)
                    verdict = which == 0 ? "FAIL offsets:append get_offsets into an array that already holds entries does not append the offsets of a fresh call"
                                         : "FAIL extrema:append get_extrema into an array that already holds entries does not append the extrema of a fresh call";
                acc.clear();
            }
        }
    }
    // a copy of the repetition (every element copy makes one) enumerates the same offsets and extrema
    if (verdict == "ok") {
        Repetition cp = {};
        cp.copy_from(r);
        Array<Vec2> o2 = {}, e2 = {};
        cp.get_offsets(o2);
        cp.get_extrema(e2);
        bool good = cp.type == r.type && cp.get_count() == cnt && o2.count == off.count && e2.count == ext.count;
        for (uint64_t k = 0; good && k < off.count; k++) good = o2[k].x == off[k].x && o2[k].y == off[k].y;
        for (uint64_t k = 0; good && k < ext.count; k++) good = e2[k].x == ext[k].x && e2[k].y == ext[k].y;
        if (!good) verdict = "FAIL repetition:copy a copy of the repetition (copy_from) does not enumerate the offsets / extrema of the original";
        o2.clear();
        e2.clear();
        cp.clear();
    }
    out.P(id, verdict);
    off.clear();
    ext.clear();
    r.clear();
}

// ------------------------------------------------------------------ xform
struct Xf {
    double m;
    bool xr;
    double angle;
    double c, s;  // exact cos / sin intended
    bool ok;
};
static Xf parse_xf(const std::string& text) {
    Xf x = {1, false, 0, 1, 0, false};
    std::vector<std::string> t = split_ws(text);
    if (t.size() < 4) return x;
    int64_t mn = parse_i(t[0]), md = parse_i(t[1]);
    if (md <= 0) return x;
    x.m = (double)mn / (double)md;
    x.xr = t[2] == "1";
    if (t[3] == "Z") {
        x.angle = 0;
        x.c = 1;
        x.s = 0;
        x.ok = t.size() == 4;
    } else if (t[3] == "Q" && t.size() == 5) {
        int64_t k = parse_i(t[4]);
        x.angle = (double)k * M_PI / 2;
        int64_t q = ((k % 4) + 4) % 4;
        x.c = q == 0 ? 1 : q == 2 ? -1 : 0;
        x.s = q == 1 ? 1 : q == 3 ? -1 : 0;
        x.ok = k != 0;
    } else if (t[3] == "P" && t.size() == 7) {
        double cn = (double)parse_i(t[4]), sn = (double)parse_i(t[5]), d = (double)parse_i(t[6]);
        x.angle = atan2(sn, cn);
        x.c = cn / d;
        x.s = sn / d;
        x.ok = x.angle != 0 && d > 0;
    }
    return x;
}

static void run_xform(Out& out, const std::string& id, const std::string& payload) {
    std::vector<std::string> parts = split_bar(payload);
    Repetition r;
    if (parts.size() != 2 || !parse_rep(parts[0], r)) {
        out.I(id, "bad-case");
        return;
    }
    Xf x = parse_xf(parts[1]);
    if (!x.ok) {
        out.I(id, "bad-case");
        return;
    }
    Array<Vec2> before = {};
    r.get_offsets(before);
    r.transform(x.m, x.xr, x.angle);
    Array<Vec2> after = {};
    r.get_offsets(after);
    out.I(id, rep_text(r, num_grid) + " | off=" + vlist(after, num_grid));
    // oracle: after[k] == L(before[k]) on the grid, same length
    bool good = before.count == after.count;
    for (uint64_t k = 0; good && k < before.count; k++) {
        double px = x.m * before[k].x, py = x.m * before[k].y;
        if (x.xr) py = -py;
        double ex = px * x.c - py * x.s, ey = px * x.s + py * x.c;
        if (num_grid(ex) != num_grid(after[k].x) || num_grid(ey) != num_grid(after[k].y)) good = false;
    }
    out.P(id, good ? "ok" : "FAIL transform:not-linear offsets of the transformed repetition are not the mapped offsets");
    before.clear();
    after.clear();
    r.clear();
}

// ------------------------------------------------------------------ element dumps
static std::string hexstr(const char* s) { return s ? "s" + hex_bytes((const uint8_t*)s, strlen(s)) : "null"; }
static std::string props_text(const Property* p) {
    std::string s = "props[";
    for (; p; p = p->next) {
        s += hexstr(p->name) + "{";
        for (PropertyValue* v = p->value; v; v = v->next) {
            switch (v->type) {
                case PropertyType::UnsignedInteger: s += "U" + hex_u64(v->unsigned_integer); break;
                case PropertyType::Integer: s += "I" + hex_i64(v->integer); break;
                case PropertyType::Real: s += "R" + hex_dbl(v->real); break;
                case PropertyType::String: s += "S" + hex_bytes(v->bytes, v->count); break;
            }
            s += ",";
        }
        s += "}";
    }
    return s + "]";
}
static std::string tag_text(Tag t) { return hex_u64(get_layer(t)) + ":" + hex_u64(get_type(t)); }
static std::string ptr_text(const void* p) { return p ? "set" : "null"; }

struct Dump {
    std::string rep, pos, rest;
};

static Cell g_cell;       // target of Cell references
static int g_marker = 0;  // user-data pointer target

static Dump dump(const Polygon& p) {
    Dump d;
    d.rep = type_letter(p.repetition.type);
    d.pos = vlist(p.point_array, num_exact);
    d.rest = "polygon,tag=" + tag_text(p.tag) + "," + props_text(p.properties);
    return d;
}
static Dump dump(const FlexPath& p) {
    Dump d;
    d.rep = type_letter(p.repetition.type);
    d.pos = vlist(p.spine.point_array, num_exact);
    std::string s = "flexpath,tol=" + hex_dbl(p.spine.tolerance) + ",last_ctrl=" + hex_dbl(p.spine.last_ctrl.x) + ":" +
                    hex_dbl(p.spine.last_ctrl.y) + ",ne=" + hex_u64(p.num_elements) + ",simple=" +
                    (p.simple_path ? "1" : "0") + ",scale_width=" + (p.scale_width ? "1" : "0");
    for (uint64_t i = 0; i < p.num_elements; i++) {
        const FlexPathElement& e = p.elements[i];
        s += ",el{tag=" + tag_text(e.tag) + ",hwo=";
        for (uint64_t k = 0; k < e.half_width_and_offset.count; k++)
            s += hex_dbl(e.half_width_and_offset[k].x) + ":" + hex_dbl(e.half_width_and_offset[k].y) + ";";
        s += ",join=" + std::to_string((int)e.join_type) + ":" + ptr_text((void*)e.join_function) + ":" +
             (e.join_function_data == &g_marker ? "marker" : ptr_text(e.join_function_data));
        s += ",end=" + std::to_string((int)e.end_type) + ":" + hex_dbl(e.end_extensions.x) + ":" +
             hex_dbl(e.end_extensions.y) + ":" + ptr_text((void*)e.end_function) + ":" +
             (e.end_function_data == &g_marker ? "marker" : ptr_text(e.end_function_data));
        s += ",bend=" + std::to_string((int)e.bend_type) + ":" + hex_dbl(e.bend_radius) + ":" +
             ptr_text((void*)e.bend_function) + ":" +
             (e.bend_function_data == &g_marker ? "marker" : ptr_text(e.bend_function_data)) + "}";
    }
    const RaithData& rd = p.raith_data;
    s += ",raith{" + hex_dbl(rd.pitch_parallel_to_path) + ":" + hex_dbl(rd.pitch_perpendicular_to_path) + ":" +
         hex_dbl(rd.pitch_scale) + ":" + std::to_string(rd.periods) + ":" + std::to_string(rd.grating_type) + ":" +
         std::to_string(rd.dots_per_cycle) + ":" + std::to_string((int)rd.dwelltime_selection) + ":" +
         hexstr(rd.base_cell_name) + "}";
    d.rest = s + "," + props_text(p.properties);
    return d;
}
static std::string interp_text(const Interpolation& it) {
    switch (it.type) {
        case InterpolationType::Constant: return "C" + hex_dbl(it.value);
        case InterpolationType::Linear: return "L" + hex_dbl(it.initial_value) + ":" + hex_dbl(it.final_value);
        case InterpolationType::Smooth: return "S" + hex_dbl(it.initial_value) + ":" + hex_dbl(it.final_value);
        case InterpolationType::Parametric: return "P" + ptr_text((void*)it.function) + ":" + ptr_text(it.data);
    }
    return "?";
}
static Dump dump(const RobustPath& p) {
    Dump d;
    d.rep = type_letter(p.repetition.type);
    // moved coordinates: the translation column of trafo, then the spine evaluated at the joints
    std::vector<Vec2> pts;
    pts.push_back(Vec2{p.trafo[2], p.trafo[5]});
    for (uint64_t k = 0; k < p.subpath_array.count; k++) pts.push_back(p.position((double)k, false));
    if (p.subpath_array.count > 0) pts.push_back(p.position((double)p.subpath_array.count, true));
    d.pos = vlist(pts.data(), pts.size(), num_exact);
    std::string s = "robustpath,end_point=" + hex_dbl(p.end_point.x) + ":" + hex_dbl(p.end_point.y) + ",sub=";
    for (uint64_t k = 0; k < p.subpath_array.count; k++) {
        const SubPath& sp = p.subpath_array[k];
        s += std::to_string((int)sp.type) + ":" + hex_dbl(sp.begin.x) + ":" + hex_dbl(sp.begin.y) + ":" +
             hex_dbl(sp.end.x) + ":" + hex_dbl(sp.end.y) + ";";
    }
    s += ",ne=" + hex_u64(p.num_elements) + ",tol=" + hex_dbl(p.tolerance) + ",max_evals=" + hex_u64(p.max_evals) +
         ",wscale=" + hex_dbl(p.width_scale) + ",oscale=" + hex_dbl(p.offset_scale) + ",trafo=" + hex_dbl(p.trafo[0]) +
         ":" + hex_dbl(p.trafo[1]) + ":" + hex_dbl(p.trafo[3]) + ":" + hex_dbl(p.trafo[4]) + ",simple=" +
         (p.simple_path ? "1" : "0") + ",scale_width=" + (p.scale_width ? "1" : "0");
    for (uint64_t i = 0; i < p.num_elements; i++) {
        const RobustPathElement& e = p.elements[i];
        s += ",el{tag=" + tag_text(e.tag) + ",w=";
        for (uint64_t k = 0; k < e.width_array.count; k++) s += interp_text(e.width_array[k]) + ";";
        s += ",o=";
        for (uint64_t k = 0; k < e.offset_array.count; k++) s += interp_text(e.offset_array[k]) + ";";
        s += ",endw=" + hex_dbl(e.end_width) + ",endo=" + hex_dbl(e.end_offset) + ",end=" +
             std::to_string((int)e.end_type) + ":" + hex_dbl(e.end_extensions.x) + ":" + hex_dbl(e.end_extensions.y) +
             ":" + ptr_text((void*)e.end_function) + ":" +
             (e.end_function_data == &g_marker ? "marker" : ptr_text(e.end_function_data)) + "}";
    }
    d.rest = s + "," + props_text(p.properties);
    return d;
}
static Dump dump(const Label& l) {
    Dump d;
    d.rep = type_letter(l.repetition.type);
    d.pos = vlist(&l.origin, 1, num_exact);
    d.rest = "label,tag=" + tag_text(l.tag) + ",text=" + hexstr(l.text) + ",anchor=" + std::to_string((int)l.anchor) +
             ",rot=" + hex_dbl(l.rotation) + ",mag=" + hex_dbl(l.magnification) + ",xr=" + (l.x_reflection ? "1" : "0") +
             "," + props_text(l.properties);
    return d;
}
static Dump dump(const Reference& r) {
    Dump d;
    d.rep = type_letter(r.repetition.type);
    d.pos = vlist(&r.origin, 1, num_exact);
    std::string target;
    if (r.type == ReferenceType::Cell)
        target = std::string("cell:") + (r.cell == &g_cell ? "g_cell" : "other") + ":" + hexstr(r.cell ? r.cell->name : NULL);
    else if (r.type == ReferenceType::Name)
        target = "name:" + hexstr(r.name);
    else
        target = std::string("raw:") + ptr_text(r.rawcell);
    d.rest = "reference," + target + ",rot=" + hex_dbl(r.rotation) + ",mag=" + hex_dbl(r.magnification) + ",xr=" +
             (r.x_reflection ? "1" : "0") + "," + props_text(r.properties);
    return d;
}

// ------------------------------------------------------------------ element builders (from a seed)
static void add_props(Rng& g, Property*& props) {
    static const char* names[] = {"S_GDS_PROPERTY", "alpha", "b", "alpha", "long_property_name_0123456789"};
    unsigned n = (unsigned)g.below(4);
    for (unsigned i = 0; i < n; i++) {
        const char* nm = names[g.below(5)];
        unsigned vals = 1 + (unsigned)g.below(3);
        for (unsigned k = 0; k < vals; k++) {
            bool fresh = k == 0 && g.coin();
            switch (g.below(4)) {
                case 0: set_property(props, nm, (uint64_t)g.below(1000), fresh); break;
                case 1: set_property(props, nm, (int64_t)g.range(-500, 500), fresh); break;
                case 2: set_property(props, nm, (double)g.range(-40, 40) / 8.0, fresh); break;
                default: {
                    uint8_t b[6];
                    unsigned len = (unsigned)g.below(6);
                    for (unsigned q = 0; q < len; q++) b[q] = (uint8_t)g.below(256);
                    set_property(props, nm, b, len, fresh);
                }
            }
        }
    }
}
static Vec2 ipoint(Rng& g) { return Vec2{(double)g.range(-60, 60), (double)g.range(-60, 60)}; }

static void build(Rng& g, Polygon& p) {
    p.tag = make_tag((uint32_t)g.below(300), (uint32_t)g.below(70000));
    unsigned n = (unsigned)g.below(7);  // 0..6 vertices
    if (g.chance(80)) n = 3 + (unsigned)g.below(5);
    for (unsigned i = 0; i < n; i++) p.point_array.append(ipoint(g));
    add_props(g, p.properties);
}
static void build(Rng& g, FlexPath& p) {
    double w[2] = {(double)g.range(1, 8), (double)g.range(1, 8) / 2.0};
    double o[2] = {(double)g.range(-4, 4), (double)g.range(-4, 4) / 4.0};
    Tag t[2] = {make_tag((uint32_t)g.below(40), (uint32_t)g.below(40)), make_tag((uint32_t)g.below(40), 0)};
    p.init(ipoint(g), 2, w, o, 0.01, t);
    unsigned segs = 1 + (unsigned)g.below(4);
    for (unsigned i = 0; i < segs; i++) {
        if (g.chance(30)) {
            double w2[2] = {(double)g.range(1, 8), (double)g.range(1, 8)};
            p.segment(ipoint(g), w2, NULL, g.coin());
        } else {
            p.segment(ipoint(g), NULL, NULL, false);
        }
    }
    p.simple_path = g.coin();
    p.scale_width = g.coin();
    for (unsigned i = 0; i < 2; i++) {
        FlexPathElement& e = p.elements[i];
        e.join_type = (JoinType)g.below(5);
        e.end_type = (EndType)g.below(5);
        e.end_extensions = Vec2{(double)g.range(0, 6), (double)g.range(0, 6) / 2.0};
        e.bend_type = g.coin() ? BendType::Circular : BendType::None;
        e.bend_radius = (double)g.range(0, 9);
        if (g.chance(30)) e.join_function_data = &g_marker;
        if (g.chance(30)) e.end_function_data = &g_marker;
        if (g.chance(30)) e.bend_function_data = &g_marker;
    }
    if (g.coin()) {
        p.raith_data.pitch_parallel_to_path = (double)g.range(0, 9) / 4.0;
        p.raith_data.pitch_perpendicular_to_path = (double)g.range(0, 9) / 4.0;
        p.raith_data.pitch_scale = (double)g.range(0, 9);
        p.raith_data.periods = (int32_t)g.range(0, 9);
        p.raith_data.grating_type = (int32_t)g.range(0, 3);
        p.raith_data.dots_per_cycle = (int32_t)g.range(0, 99);
        p.raith_data.dwelltime_selection = (uint8_t)g.below(3);
        if (g.coin()) p.raith_data.base_cell_name = copy_string("BASE", NULL);
    }
    add_props(g, p.properties);
}
static void build(Rng& g, RobustPath& p) {
    unsigned ne = 1 + (unsigned)g.below(2);
    double w[2] = {(double)g.range(1, 8), (double)g.range(1, 8) / 2.0};
    double o[2] = {(double)g.range(-4, 4), (double)g.range(-4, 4) / 4.0};
    Tag t[2] = {make_tag((uint32_t)g.below(40), (uint32_t)g.below(40)), make_tag((uint32_t)g.below(40), 0)};
    p.init(ipoint(g), ne, w, o, 0.01, 1000, t);
    unsigned segs = (unsigned)g.below(4);
    for (unsigned i = 0; i < segs; i++) {
        if (g.chance(40)) {
            Interpolation iw[2], io[2];
            for (unsigned k = 0; k < 2; k++) {
                iw[k].type = g.coin() ? InterpolationType::Linear : InterpolationType::Smooth;
                iw[k].initial_value = (double)g.range(1, 5);
                iw[k].final_value = (double)g.range(1, 5);
                io[k].type = InterpolationType::Constant;
                io[k].value = (double)g.range(-3, 3);
            }
            p.segment(ipoint(g), iw, g.coin() ? io : NULL, g.coin());
        } else {
            p.segment(ipoint(g), NULL, NULL, false);
        }
    }
    if (g.chance(30)) p.translate(ipoint(g));  // a path that was moved before
    p.simple_path = g.coin();
    p.scale_width = g.coin();
    for (unsigned i = 0; i < ne; i++) {
        RobustPathElement& e = p.elements[i];
        e.end_type = (EndType)g.below(5);
        e.end_extensions = Vec2{(double)g.range(0, 6), (double)g.range(0, 6) / 2.0};
        if (g.chance(30)) e.end_function_data = &g_marker;
    }
    add_props(g, p.properties);
}
static void build(Rng& g, Label& l) {
    static const char* texts[] = {"", "A", "label text", "x\xc3\xa9y"};
    l.init(texts[g.below(4)]);
    l.tag = make_tag((uint32_t)g.below(300), (uint32_t)g.below(300));
    l.origin = ipoint(g);
    static const Anchor anchors[] = {Anchor::NW, Anchor::N, Anchor::NE, Anchor::W, Anchor::O,
                                     Anchor::E,  Anchor::SW, Anchor::S, Anchor::SE};
    l.anchor = anchors[g.below(9)];
    l.rotation = (double)g.range(-8, 8) / 4.0;
    l.magnification = (double)g.range(1, 12) / 4.0;
    l.x_reflection = g.coin();
    add_props(g, l.properties);
}
static void build(Rng& g, Reference& r) {
    if (g.chance(70))
        r.init(&g_cell);
    else
        r.init("BY_NAME");
    r.origin = ipoint(g);
    r.rotation = (double)g.range(-8, 8) / 4.0;
    r.magnification = (double)g.range(1, 12) / 4.0;
    r.x_reflection = g.coin();
    add_props(g, r.properties);
}

// ------------------------------------------------------------------ apply
template <class T>
static std::string apply_text(T& el, const Dump& before) {
    Array<T*> result = {};
    el.apply_repetition(result);
    Dump after = dump(el);
    std::string s = "n=" + hex_u64(result.count) + " orig=" + after.rep + ";" + after.pos + ";" +
                    (after.rest == before.rest ? "=" : "DIFF:" + after.rest) + " copies=";
    if (result.count == 0) s += "-";
    for (uint64_t i = 0; i < result.count; i++) {
        Dump c = dump(*result[i]);
        if (i) s += "/";
        s += c.rep + ";" + c.pos + ";" + (c.rest == before.rest ? "=" : "DIFF:" + c.rest);
        result[i]->clear();
        free_allocation(result[i]);
    }
    result.clear();
    return s;
}

// property oracle on the implementation's own data: one copy per offset after the first, each
// equal to the original moved by that offset
static std::string apply_oracle(const std::string& impl, const Dump& before, const Array<Vec2>& offs,
                                const std::vector<Vec2>& base_pos) {
    std::string expect = "n=" + hex_u64(offs.count ? offs.count - 1 : 0) + " orig=N;" + before.pos + ";= copies=";
    if (offs.count <= 1) expect += "-";
    for (uint64_t k = 1; k < offs.count; k++) {
        std::vector<Vec2> moved = base_pos;
        for (auto& p : moved) p = p + offs[k];
        if (k > 1) expect += "/";
        expect += "N;" + vlist(moved.data(), moved.size(), num_exact) + ";=";
    }
    return expect == impl ? "ok" : "FAIL apply_repetition:copies the copies are not the original moved by each non-zero offset";
}

static std::vector<Vec2> parse_vlist(const std::string& s) {
    std::vector<Vec2> v;
    if (s == "-" || s.empty()) return v;
    size_t i = 0;
    while (i < s.size()) {
        size_t j = s.find(';', i);
        std::string item = s.substr(i, j == std::string::npos ? std::string::npos : j - i);
        size_t c = item.find(',');
        v.push_back(Vec2{(double)parse_i(item.substr(0, c)), (double)parse_i(item.substr(c + 1))});
        if (j == std::string::npos) break;
        i = j + 1;
    }
    return v;
}

template <class T>
static void run_apply_kind(Out& out, const std::string& kind, uint64_t elemseed, const std::string& reptext) {
    T el;
    memset(&el, 0, sizeof el);
    Rng g(elemseed);
    build(g, el);
    Repetition r;
    if (!parse_rep(reptext, r)) {
        std::string id = out.add("apply", kind + " " + hex_u64(elemseed) + " | " + reptext + " | - | -");
        out.I(id, "bad-case");
        return;
    }
    el.repetition = r;  // the element owns the arrays now
    Dump before = dump(el);
    std::string id =
        out.add("apply", kind + " " + hex_u64(elemseed) + " | " + reptext + " | " + before.pos + " | " + before.rest);
    out.count("apply:" + kind);
    Array<Vec2> offs = {};
    r.get_offsets(offs);
    bool zero_count = r.type != RepetitionType::None && r.get_count() == 0;
    std::string impl;
    if (zero_count) {
        // zero columns or rows: used to crash (offsets.count - 1 on an unsigned 0); kept in a child so
        // that a regression shows up as the outcome CRASH instead of killing the harness.  Expected
        // now: no copies, the original left without repetition.
        out.count("apply:zero-count");
        impl = in_child([&](FILE* o) { fprintf(o, "%s", apply_text(el, before).c_str()); }, 30);
        if (impl.compare(0, 5, "CRASH") == 0) impl = "CRASH";
        out.I(id, impl);
        out.P(id, impl == "n=0 orig=N;" + before.pos + ";= copies=-"
                      ? "ok"
                      : "FAIL apply_repetition:zero-count repetition with count 0: expected no copies and a cleared original, outcome " + impl);
        el.repetition.clear();
    } else {
        impl = apply_text(el, before);
        out.I(id, impl);
        out.P(id, r.type == RepetitionType::None
                      ? (impl == "n=0 orig=N;" + before.pos + ";= copies=-" ? "ok" : "FAIL apply_repetition:none a None repetition changed the element")
                      : apply_oracle(impl, before, offs, parse_vlist(before.pos)));
    }
    offs.clear();
    el.clear();
}

static void run_apply(Out& out, const std::string& kind, uint64_t elemseed, const std::string& reptext) {
    if (kind == "polygon") run_apply_kind<Polygon>(out, kind, elemseed, reptext);
    else if (kind == "flexpath") run_apply_kind<FlexPath>(out, kind, elemseed, reptext);
    else if (kind == "robustpath") run_apply_kind<RobustPath>(out, kind, elemseed, reptext);
    else if (kind == "label") run_apply_kind<Label>(out, kind, elemseed, reptext);
    else if (kind == "reference") run_apply_kind<Reference>(out, kind, elemseed, reptext);
    else {
        std::string id = out.add("apply", kind + " " + hex_u64(elemseed) + " | " + reptext + " | - | -");
        out.I(id, "bad-case");
    }
}

// ------------------------------------------------------------------ dispatch (also used by corpus / replay)
static void run_case(Out& out, const std::string& kind, const std::string& payload) {
    if (kind == "query") {
        std::string id = out.add(kind, payload);
        run_query(out, id, payload);
    } else if (kind == "xform") {
        std::string id = out.add(kind, payload);
        run_xform(out, id, payload);
    } else if (kind == "apply") {
        std::vector<std::string> parts = split_bar(payload);
        std::vector<std::string> head = parts.empty() ? std::vector<std::string>() : split_ws(parts[0]);
        if (parts.size() < 2 || head.size() != 2) {
            std::string id = out.add(kind, payload);
            out.I(id, "bad-case");
            return;
        }
        run_apply(out, head[0], parse_u(head[1]), parts[1]);
    } else {
        std::string id = out.add(kind, payload);
        out.I(id, "unknown-kind");
    }
}

// ------------------------------------------------------------------ generators
static const int64_t COUNTS[5] = {0, 1, 2, 3, 7};

static std::string rect_text(uint64_t c, uint64_t r, int64_t sx, int64_t sy) {
    return "R " + hex_u64(c) + " " + hex_u64(r) + " " + hex_i64(sx) + " " + hex_i64(sy);
}
static std::string reg_text(uint64_t c, uint64_t r, int64_t a, int64_t b, int64_t cc, int64_t d) {
    return "G " + hex_u64(c) + " " + hex_u64(r) + " " + hex_i64(a) + " " + hex_i64(b) + " " + hex_i64(cc) + " " + hex_i64(d);
}
static int64_t signed_val(Rng& g) {
    switch (g.below(6)) {
        case 0: return 0;
        case 1: return g.range(-3, 3);
        default: return g.range(-40, 40);
    }
}
// explicit list of the given length with negative and duplicate entries
static std::vector<int64_t> explicit_vals(Rng& g, unsigned n, Out& out) {
    std::vector<int64_t> v;
    bool dup = false, neg = false;
    for (unsigned i = 0; i < n; i++) {
        int64_t x;
        if (!v.empty() && g.chance(30)) {
            x = v[g.below(v.size())];
            dup = true;
        } else
            x = signed_val(g);
        if (x < 0) neg = true;
        v.push_back(x);
    }
    if (dup) out.count("explicit:with-duplicates");
    if (neg) out.count("explicit:with-negatives");
    return v;
}
static std::string expl_text(Rng& g, char which, unsigned n, Out& out) {
    std::string s(1, which);
    s += " " + hex_u64(n);
    if (which == 'E') {
        std::vector<int64_t> xs = explicit_vals(g, n, out), ys = explicit_vals(g, n, out);
        if (n >= 2 && g.chance(40)) {  // a duplicated vector, possibly the zero vector
            unsigned a = (unsigned)g.below(n), b = (unsigned)g.below(n);
            if (g.chance(30)) xs[a] = ys[a] = 0;
            xs[b] = xs[a];
            ys[b] = ys[a];
        }
        for (unsigned i = 0; i < n; i++) s += " " + hex_i64(xs[i]) + " " + hex_i64(ys[i]);
    } else {
        std::vector<int64_t> xs = explicit_vals(g, n, out);
        if (n >= 1 && g.chance(15))
            for (auto& x : xs) x = 0;  // all zero: xmin == xmax
        if (n >= 1 && g.chance(15))
            for (auto& x : xs) x = -labs(x);  // one-sided
        for (unsigned i = 0; i < n; i++) s += " " + hex_i64(xs[i]);
    }
    out.count("explicit:len" + std::to_string(n));
    return s;
}
static std::string random_rep(Rng& g, Out& out) {
    switch (g.below(6)) {
        case 0: return rect_text(COUNTS[g.below(5)], COUNTS[g.below(5)], signed_val(g), signed_val(g));
        case 1: return reg_text(COUNTS[g.below(5)], COUNTS[g.below(5)], signed_val(g), signed_val(g), signed_val(g), signed_val(g));
        case 2: return expl_text(g, 'E', (unsigned)g.below(13), out);
        case 3: return expl_text(g, 'X', (unsigned)g.below(13), out);
        case 4: return expl_text(g, 'Y', (unsigned)g.below(13), out);
        default:
            if (g.chance(20)) return "N";
            // larger counts
            return g.coin() ? rect_text(g.below(12), g.below(12), signed_val(g), signed_val(g))
                            : reg_text(g.below(12), g.below(12), signed_val(g), signed_val(g), signed_val(g), signed_val(g));
    }
}
static std::string random_xf(Rng& g, Out& out) {
    static const int mags[5][2] = {{1, 1}, {2, 1}, {1, 2}, {-1, 1}, {3, 1}};
    static const int pyth[6][3] = {{3, 4, 5}, {4, 3, 5}, {-3, 4, 5}, {3, -4, 5}, {-4, -3, 5}, {5, 12, 13}};
    unsigned mi = (unsigned)g.below(5);
    std::string s = hex_i64(mags[mi][0]) + " " + hex_i64(mags[mi][1]) + " " + (g.coin() ? "1" : "0") + " ";
    switch (g.below(5)) {
        case 0: out.count("xform:rot-zero"); return s + "Z";
        case 4: {
            unsigned p = (unsigned)g.below(6);
            out.count("xform:rot-pythagorean");
            return s + "P " + hex_i64(pyth[p][0]) + " " + hex_i64(pyth[p][1]) + " " + hex_i64(pyth[p][2]);
        }
        default: {
            int64_t k = g.range(-3, 4);
            if (k == 0) k = 2;
            out.count("xform:rot-quarter");
            return s + "Q " + hex_i64(k);
        }
    }
}
static const char* KINDS[5] = {"polygon", "flexpath", "robustpath", "label", "reference"};

int main(int argc, char** argv) {
    if (argc < 4) {
        fprintf(stderr, "usage: c11 seed tier outdir [corpus] [replay]\n");
        return 2;
    }
    uint64_t seed = strtoull(argv[1], NULL, 10);
    bool thorough = strcmp(argv[2], "thorough") == 0;
    set_error_logger(NULL);
    struct rlimit nocore = {0, 0};
    setrlimit(RLIMIT_CORE, &nocore);
    g_cell.init("TARGET");
    Out out;
    out.open(argv[3]);
    if (argc > 5) {
        std::string k, p;
        if (load_replay(argv[5], k, p)) run_case(out, k, p);
        out.close();
        return 0;
    }
    for (auto& c : load_corpus(argc > 4 ? argv[4] : NULL)) run_case(out, c.first, c.second);
    Rng g(seed);

    // deterministic sweep: every lattice kind x columns, rows in {0,1,2,3,7} x sign patterns
    std::vector<std::string> sweep;
    sweep.push_back("N");
    static const int64_t SP[7][2] = {{5, 3}, {5, -3}, {-5, 3}, {-5, -3}, {0, 4}, {4, 0}, {0, 0}};
    static const int64_t RG[8][4] = {{5, 1, -2, 4}, {-5, 1, 2, -4}, {5, -1, 2, 4},  {-5, -1, -2, -4},
                                     {3, 0, 0, 2},  {0, 3, 2, 0},   {2, 2, -4, -4}, {0, 0, 1, -1}};
    for (int ci = 0; ci < 5; ci++)
        for (int ri = 0; ri < 5; ri++) {
            for (int s = 0; s < 7; s++) sweep.push_back(rect_text(COUNTS[ci], COUNTS[ri], SP[s][0], SP[s][1]));
            for (int s = 0; s < 8; s++)
                sweep.push_back(reg_text(COUNTS[ci], COUNTS[ri], RG[s][0], RG[s][1], RG[s][2], RG[s][3]));
        }
    for (unsigned n = 0; n <= 12; n++)
        for (int rep = 0; rep < (n == 0 ? 1 : 3); rep++) {
            sweep.push_back(expl_text(g, 'E', n, out));
            sweep.push_back(expl_text(g, 'X', n, out));
            sweep.push_back(expl_text(g, 'Y', n, out));
        }
    for (auto& r : sweep) {
        run_case(out, "query", r);
        for (int k = 0; k < 3; k++) run_case(out, "xform", r + " | " + random_xf(g, out));
        for (int k = 0; k < 5; k++) run_apply(out, KINDS[k], g.next() & 0xffffffffULL, r);
    }
    // every transform combination on a few fixed repetitions
    {
        static const char* fixed[] = {"R 3 2 5 -3", "G 2 3 5 1 -2 4", "E 3 1 2 -3 4 1 2", "X 3 4 -2 4", "Y 2 -7 3"};
        static const int mags[5][2] = {{1, 1}, {2, 1}, {1, 2}, {-1, 1}, {3, 1}};
        for (auto f : fixed)
            for (auto& m : mags)
                for (int xr = 0; xr < 2; xr++) {
                    std::string pre = std::string(f) + " | " + hex_i64(m[0]) + " " + hex_i64(m[1]) + " " + (xr ? "1" : "0") + " ";
                    run_case(out, "xform", pre + "Z");
                    for (int k = -3; k <= 4; k++)
                        if (k) run_case(out, "xform", pre + "Q " + hex_i64(k));
                    run_case(out, "xform", pre + "P 3 4 5");
                    run_case(out, "xform", pre + "P -4 3 5");
                    run_case(out, "xform", pre + "P 5 -c d");
                }
    }
    long N = thorough ? 150000 : 1500;
    for (long i = 0; i < N; i++) {
        std::string r = random_rep(g, out);
        switch (g.below(4)) {
            case 0: run_case(out, "query", r); break;
            case 1:
            case 2: run_case(out, "xform", r + " | " + random_xf(g, out)); break;
            default: run_apply(out, KINDS[g.below(5)], g.next() & 0xffffffffULL, r);
        }
    }
    g_cell.clear();
    out.close();
    return 0;
}
