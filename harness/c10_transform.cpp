// C10 harness (unit c10_transform): element transforms of gdstk against the exact model of
// coq/Affine.v, and the property itself as a metamorphic oracle.
//
// case kinds (payload grammar below; doubles as 16 hex digits, counts / angles in decimal):
//   seq       ELEM REP OPS   I: the element's fields after the calls (+ get_offsets of its repetition)
//                            P: outline(ops(e)) == A(outline(e)), A = product of the calls' affine maps,
//                               shape by shape (repetition copies included), vertex by vertex
//   rep       REP mag xr ANG I: get_offsets() after Repetition::transform(mag, xr, angle)
//   placemap  ELEM(L|X) OPS  I: the 2x3 matrix of the placement after the calls (S: composition by hand)
//
//   ELEM := P n (x y)^n
//         | F sw nsp (x y)^nsp ne { endtype extu extv (hw off)^nsp }^ne
//         | R sw x0 y0 nseg (x y)^nseg ne { endtype extu extv (w o)^(nseg+1) }^ne      (linear per segment)
//         | L ox oy ANG mag xr
//         | X ox oy ANG mag xr n (x y)^n                                               (reference to a cell with one polygon)
//   REP  := N | T cols rows sx sy | G cols rows v1x v1y v2x v2y | E n (x y)^n | EX n c^n | EY n c^n
//   OPS  := k { t vx vy | s f cx cy | sxy fx fy cx cy | m p0x p0y p1x p1y | r ANG cx cy | T mag xr ANG ox oy }^k
//   ANG  := cn sn d      (cos = cn/d, sin = sn/d; the double angle handed to gdstk is atan2(sn, cn))
//
// result format: numbers are integers n meaning n * 2^-24 (llround(x * 2^24)) in hex; the comparison
// (checks/c10.py) allows +-2 units because sin/cos of doubles are inexact.
// P lines compare with tolerance 1e-9 * max(1, largest |coordinate| of the shape).  Paths whose widths are not
// meant to scale (scale_width = false under a factor != 1) are compared on their centre lines (element_center),
// RobustPaths with more than one sub-path on spine positions, labels on their origins, references on get_polygons.
// finding keys (P FAIL <key>):
//   FlexPath::transform:x_reflection+offset        F7 (fixed df9071a)  offsets not negated under x_reflection
//   FlexPath::transform:negative-magnification     F7 (fixed df9071a)  offsets / half widths / extensions multiplied by the signed magnification
//   element-transform:repetition-ignored           F8  the attached repetition is not transformed
//   FlexPath::scale:negative-factor+end_extensions     (fixed a1ca73a) end_extensions multiplied by the signed factor (extended ends retract)
//   RobustPath::scale:negative-factor+end_extensions   (fixed a1ca73a) the same in RobustPath::simple_scale (scale and transform)
//   <Kind>::<call|sequence>:outline-mismatch       anything else (none on the current tree)
#include <algorithm>
#include <cmath>
#include <sstream>
#include <gdstk/gdstk.hpp>
#include "common.hpp"

using namespace gdstk;

static const double GRID = 16777216.0;
static std::string g(double x) { return hex_i64((int64_t)llround(x * GRID)); }
static std::string gv(Vec2 v) { return g(v.x) + " " + g(v.y); }

struct Tok {
    std::vector<std::string> t;
    size_t i = 0;
    explicit Tok(const std::string& s) {
        std::istringstream is(s);
        std::string w;
        while (is >> w) t.push_back(w);
    }
    bool end() const { return i >= t.size(); }
    std::string s() { return i < t.size() ? t[i++] : std::string(); }
    double d() { return bits_dbl(strtoull(s().c_str(), NULL, 16)); }
    long n() { return strtol(s().c_str(), NULL, 10); }
    Vec2 v() {
        double x = d();
        double y = d();
        return Vec2{x, y};
    }
};

struct Ang {
    long cn, sn, dd;
    double val() const { return atan2((double)sn, (double)cn); }
    double c() const { return (double)cn / (double)dd; }
    double s() const { return (double)sn / (double)dd; }
    std::string str() const { return std::to_string(cn) + " " + std::to_string(sn) + " " + std::to_string(dd); }
};
static Ang read_ang(Tok& t) {
    Ang a;
    a.cn = t.n();
    a.sn = t.n();
    a.dd = t.n();
    return a;
}

struct Mat {  // x' = a x + b y + tx ; y' = c x + d y + ty
    double a = 1, b = 0, c = 0, d = 1, tx = 0, ty = 0;
    Vec2 ap(Vec2 p) const { return Vec2{a * p.x + b * p.y + tx, c * p.x + d * p.y + ty}; }
    Mat after(const Mat& g_) const {  // this o g_
        Mat r;
        r.a = a * g_.a + b * g_.c;
        r.b = a * g_.b + b * g_.d;
        r.c = c * g_.a + d * g_.c;
        r.d = c * g_.b + d * g_.d;
        r.tx = a * g_.tx + b * g_.ty + tx;
        r.ty = c * g_.tx + d * g_.ty + ty;
        return r;
    }
    double det() const { return a * d - b * c; }
};

struct Op {
    char type;  // t s S(xy) m r T
    Vec2 v, c, p0, p1, sf;
    double f = 1, mag = 1;
    bool xr = false;
    Ang ang{1, 0, 1};
    // the affine map the documentation promises (computed from the exact cos/sin, independently of the library)
    Mat mat() const {
        Mat m;
        switch (type) {
            case 't': m.tx = v.x; m.ty = v.y; break;
            case 's': m.a = f; m.d = f; m.tx = c.x * (1 - f); m.ty = c.y * (1 - f); break;
            case 'S': m.a = sf.x; m.d = sf.y; m.tx = c.x * (1 - sf.x); m.ty = c.y * (1 - sf.y); break;
            case 'm': {
                Vec2 u = p1 - p0;
                double n = u.length_sq();
                if (n == 0) break;
                double m0 = (u.x * u.x - u.y * u.y) / n, m1 = 2 * u.x * u.y / n;
                m.a = m0; m.b = m1; m.c = m1; m.d = -m0;
                m.tx = p0.x - (m0 * p0.x + m1 * p0.y);
                m.ty = p0.y - (m1 * p0.x - m0 * p0.y);
            } break;
            case 'r': {
                double cc = ang.c(), ss = ang.s();
                m.a = cc; m.b = -ss; m.c = ss; m.d = cc;
                m.tx = c.x - (cc * c.x - ss * c.y);
                m.ty = c.y - (ss * c.x + cc * c.y);
            } break;
            case 'T': {
                double cc = ang.c(), ss = ang.s(), r = xr ? -1 : 1;
                m.a = mag * cc; m.b = -r * mag * ss; m.c = mag * ss; m.d = r * mag * cc;
                m.tx = v.x; m.ty = v.y;
            } break;
        }
        return m;
    }
    double factor() const { return type == 's' ? fabs(f) : type == 'T' ? fabs(mag) : 1; }
};

static std::vector<Op> read_ops(Tok& t) {
    std::vector<Op> ops;
    long k = t.n();
    for (long i = 0; i < k; i++) {
        Op o;
        std::string w = t.s();
        if (w == "t") { o.type = 't'; o.v = t.v(); }
        else if (w == "s") { o.type = 's'; o.f = t.d(); o.c = t.v(); }
        else if (w == "sxy") { o.type = 'S'; o.sf = t.v(); o.c = t.v(); }
        else if (w == "m") { o.type = 'm'; o.p0 = t.v(); o.p1 = t.v(); }
        else if (w == "r") { o.type = 'r'; o.ang = read_ang(t); o.c = t.v(); }
        else if (w == "T") { o.type = 'T'; o.mag = t.d(); o.xr = t.n() != 0; o.ang = read_ang(t); o.v = t.v(); }
        else { o.type = '?'; }
        ops.push_back(o);
    }
    return ops;
}

static void read_rep(Tok& t, Repetition& r) {
    memset(&r, 0, sizeof r);
    std::string w = t.s();
    if (w == "N") { r.type = RepetitionType::None; }
    else if (w == "T") { r.type = RepetitionType::Rectangular; r.columns = (uint64_t)t.n(); r.rows = (uint64_t)t.n(); r.spacing = t.v(); }
    else if (w == "G") { r.type = RepetitionType::Regular; r.columns = (uint64_t)t.n(); r.rows = (uint64_t)t.n(); r.v1 = t.v(); r.v2 = t.v(); }
    else if (w == "E") { r.type = RepetitionType::Explicit; long n = t.n(); for (long i = 0; i < n; i++) r.offsets.append(t.v()); }
    else if (w == "EX") { r.type = RepetitionType::ExplicitX; long n = t.n(); for (long i = 0; i < n; i++) r.coords.append(t.d()); }
    else if (w == "EY") { r.type = RepetitionType::ExplicitY; long n = t.n(); for (long i = 0; i < n; i++) r.coords.append(t.d()); }
}

static std::string dump_rep(const Repetition& r) {
    if (r.type == RepetitionType::None) return "@ N";
    Array<Vec2> offs = {};
    r.get_offsets(offs);
    std::string s = "@ " + std::to_string(offs.count);
    for (uint64_t i = 0; i < offs.count; i++) s += " " + gv(offs[i]);
    offs.clear();
    return s;
}

// ------------------------------------------------------------------ elements
struct Elem {
    char kind = '?';
    Polygon poly = {};
    FlexPath flex = {};
    RobustPath robust = {};
    Label label = {};
    Reference ref = {};
    Cell* cell = NULL;  // target of ref
    bool has_offset = false;
    bool has_extended = false;
    Repetition* rep() {
        switch (kind) {
            case 'P': return &poly.repetition;
            case 'F': return &flex.repetition;
            case 'R': return &robust.repetition;
            case 'L': return &label.repetition;
            default: return &ref.repetition;
        }
    }
    void clear() {
        switch (kind) {
            case 'P': poly.clear(); break;
            case 'F': flex.clear(); break;
            case 'R': robust.clear(); break;
            case 'L': label.clear(); break;
            case 'X':
                ref.clear();
                if (cell) {
                    for (uint64_t i = 0; i < cell->polygon_array.count; i++) {
                        cell->polygon_array[i]->clear();
                        free_allocation(cell->polygon_array[i]);
                    }
                    cell->clear();
                    free_allocation(cell);
                }
                break;
        }
    }
};

static bool read_elem(Tok& t, Elem& e) {
    std::string w = t.s();
    if (w == "P") {
        e.kind = 'P';
        long n = t.n();
        for (long i = 0; i < n; i++) e.poly.point_array.append(t.v());
        e.poly.tag = make_tag(1, 0);
    } else if (w == "F") {
        e.kind = 'F';
        e.flex.scale_width = t.n() != 0;
        e.flex.simple_path = false;
        e.flex.spine.tolerance = 0.01;
        long nsp = t.n();
        for (long i = 0; i < nsp; i++) e.flex.spine.point_array.append(t.v());
        long ne = t.n();
        e.flex.num_elements = (uint64_t)ne;
        e.flex.elements = (FlexPathElement*)allocate_clear(sizeof(FlexPathElement) * (size_t)ne);
        for (long k = 0; k < ne; k++) {
            FlexPathElement* el = e.flex.elements + k;
            el->tag = make_tag((uint32_t)k, 0);
            long et = t.n();
            el->end_type = et == 0 ? EndType::Flush : et == 2 ? EndType::HalfWidth : EndType::Extended;
            if (el->end_type == EndType::Extended) e.has_extended = true;
            el->end_extensions = t.v();
            el->join_type = JoinType::Natural;
            el->bend_type = BendType::None;
            // a bend radius is a length of the element like its extensions: every scaling has to scale it (the bend type stays None
            // here so that the outline does not depend on arc sampling; the parameter itself is checked after the operations)
            el->bend_radius = 2.5 + (double)k;
            for (long i = 0; i < nsp; i++) {
                Vec2 wo = t.v();
                if (wo.v != 0) e.has_offset = true;
                el->half_width_and_offset.append(wo);
            }
        }
    } else if (w == "R") {
        e.kind = 'R';
        bool sw = t.n() != 0;
        Vec2 p0 = t.v();
        long nseg = t.n();
        std::vector<Vec2> pts;
        for (long i = 0; i < nseg; i++) pts.push_back(t.v());
        long ne = t.n();
        std::vector<std::vector<Vec2>> wo((size_t)ne);
        std::vector<long> et((size_t)ne);
        std::vector<Vec2> ext((size_t)ne);
        std::vector<double> w0((size_t)ne), o0((size_t)ne);
        std::vector<Tag> tags((size_t)ne);
        for (long k = 0; k < ne; k++) {
            et[k] = t.n();
            if (et[k] != 0 && et[k] != 2) e.has_extended = true;
            ext[k] = t.v();
            for (long i = 0; i <= nseg; i++) {
                Vec2 x = t.v();
                if (x.v != 0) e.has_offset = true;
                wo[k].push_back(x);
            }
            w0[k] = wo[k][0].u;
            o0[k] = wo[k][0].v;
            tags[k] = make_tag((uint32_t)k, 0);
        }
        e.robust.init(p0, (uint64_t)ne, w0.data(), o0.data(), 0.01, 1000, tags.data());
        e.robust.scale_width = sw;
        e.robust.simple_path = false;
        for (long k = 0; k < ne; k++) {
            e.robust.elements[k].end_type = et[k] == 0 ? EndType::Flush : et[k] == 2 ? EndType::HalfWidth : EndType::Extended;
            e.robust.elements[k].end_extensions = ext[k];
        }
        for (long i = 0; i < nseg; i++) {
            std::vector<Interpolation> wi((size_t)ne), oi((size_t)ne);
            for (long k = 0; k < ne; k++) {
                wi[k].type = InterpolationType::Linear;
                wi[k].initial_value = wo[k][i].u;
                wi[k].final_value = wo[k][i + 1].u;
                oi[k].type = InterpolationType::Linear;
                oi[k].initial_value = wo[k][i].v;
                oi[k].final_value = wo[k][i + 1].v;
            }
            e.robust.segment(pts[i], wi.data(), oi.data(), false);
        }
    } else if (w == "L" || w == "X") {
        Vec2 o = t.v();
        Ang a = read_ang(t);
        double mag = t.d();
        bool xr = t.n() != 0;
        if (w == "L") {
            e.kind = 'L';
            e.label.tag = make_tag(2, 0);
            e.label.text = copy_string("t", NULL);
            e.label.origin = o;
            e.label.rotation = a.val();
            e.label.magnification = mag;
            e.label.x_reflection = xr;
        } else {
            e.kind = 'X';
            e.cell = (Cell*)allocate_clear(sizeof(Cell));
            e.cell->name = copy_string("child", NULL);
            Polygon* p = (Polygon*)allocate_clear(sizeof(Polygon));
            long n = t.n();
            for (long i = 0; i < n; i++) p->point_array.append(t.v());
            e.cell->polygon_array.append(p);
            e.ref.type = ReferenceType::Cell;
            e.ref.cell = e.cell;
            e.ref.origin = o;
            e.ref.rotation = a.val();
            e.ref.magnification = mag;
            e.ref.x_reflection = xr;
        }
    } else {
        return false;
    }
    return true;
}

static void apply_op(Elem& e, const Op& o) {
    switch (e.kind) {
        case 'P':
            switch (o.type) {
                case 't': e.poly.translate(o.v); break;
                case 's': e.poly.scale(Vec2{o.f, o.f}, o.c); break;
                case 'S': e.poly.scale(o.sf, o.c); break;
                case 'm': e.poly.mirror(o.p0, o.p1); break;
                case 'r': e.poly.rotate(o.ang.val(), o.c); break;
                case 'T': e.poly.transform(o.mag, o.xr, o.ang.val(), o.v); break;
            }
            break;
        case 'F':
            switch (o.type) {
                case 't': e.flex.translate(o.v); break;
                case 's': e.flex.scale(o.f, o.c); break;
                case 'm': e.flex.mirror(o.p0, o.p1); break;
                case 'r': e.flex.rotate(o.ang.val(), o.c); break;
                case 'T': e.flex.transform(o.mag, o.xr, o.ang.val(), o.v); break;
            }
            break;
        case 'R':
            switch (o.type) {
                case 't': e.robust.translate(o.v); break;
                case 's': e.robust.scale(o.f, o.c); break;
                case 'm': e.robust.mirror(o.p0, o.p1); break;
                case 'r': e.robust.rotate(o.ang.val(), o.c); break;
                case 'T': e.robust.transform(o.mag, o.xr, o.ang.val(), o.v); break;
            }
            break;
        case 'L':
            if (o.type == 'T') e.label.transform(o.mag, o.xr, o.ang.val(), o.v);
            break;
        case 'X':
            if (o.type == 'T') e.ref.transform(o.mag, o.xr, o.ang.val(), o.v);
            break;
    }
}

static std::string dump_elem(Elem& e) {
    std::string s;
    switch (e.kind) {
        case 'P':
            s = "P " + std::to_string(e.poly.point_array.count);
            for (uint64_t i = 0; i < e.poly.point_array.count; i++) s += " " + gv(e.poly.point_array[i]);
            break;
        case 'F':
            s = "F SP:";
            for (uint64_t i = 0; i < e.flex.spine.point_array.count; i++) s += " " + gv(e.flex.spine.point_array[i]);
            for (uint64_t k = 0; k < e.flex.num_elements; k++) {
                FlexPathElement* el = e.flex.elements + k;
                s += " EL: " + gv(el->end_extensions) + " WO:";
                for (uint64_t i = 0; i < el->half_width_and_offset.count; i++) s += " " + gv(el->half_width_and_offset[i]);
            }
            break;
        case 'R':
            s = "R TR:";
            for (int i = 0; i < 6; i++) s += " " + g(e.robust.trafo[i]);
            s += " WS: " + g(e.robust.width_scale) + " OS: " + g(e.robust.offset_scale);
            for (uint64_t k = 0; k < e.robust.num_elements; k++) s += " EL: " + gv(e.robust.elements[k].end_extensions);
            break;
        case 'L':
            s = "L " + gv(e.label.origin) + " " + g(cos(e.label.rotation)) + " " + g(sin(e.label.rotation)) + " " +
                g(e.label.magnification) + " " + (e.label.x_reflection ? "1" : "0");
            break;
        case 'X':
            s = "X " + gv(e.ref.origin) + " " + g(cos(e.ref.rotation)) + " " + g(sin(e.ref.rotation)) + " " +
                g(e.ref.magnification) + " " + (e.ref.x_reflection ? "1" : "0");
            break;
    }
    return s + " " + dump_rep(*e.rep());
}

// ------------------------------------------------------------------ outlines
typedef std::vector<Vec2> Shape;

static void take_polys(Array<Polygon*>& a, bool with_rep, std::vector<Shape>& out) {
    // expand repetitions with the library's own apply_repetition
    uint64_t n0 = a.count;
    for (uint64_t i = 0; i < n0; i++) {
        if (with_rep) a[i]->apply_repetition(a);
    }
    // order: original i followed by its copies is not how apply_repetition appends; keep the array order
    for (uint64_t i = 0; i < a.count; i++) {
        Shape s;
        for (uint64_t j = 0; j < a[i]->point_array.count; j++) s.push_back(a[i]->point_array[j]);
        out.push_back(s);
        a[i]->clear();
        free_allocation(a[i]);
    }
    a.clear();
}

// centre lines when widths are not meant to scale
static bool use_centres(Elem& e, const std::vector<Op>& ops) {
    if (e.kind == 'F' && !e.flex.scale_width) {
        for (auto& o : ops) if (o.factor() != 1) return true;
    }
    if (e.kind == 'R' && !e.robust.scale_width) {
        for (auto& o : ops) if (o.factor() != 1) return true;
    }
    return false;
}

static std::vector<Shape> shapes(Elem& e, bool with_rep, bool centres) {
    std::vector<Shape> out;
    switch (e.kind) {
        case 'P': {
            Array<Polygon*> a = {};
            Polygon* p = (Polygon*)allocate_clear(sizeof(Polygon));
            p->copy_from(e.poly);
            if (!with_rep) p->repetition.clear();
            a.append(p);
            take_polys(a, with_rep, out);
        } break;
        case 'F': {
            FlexPath c = {};
            c.copy_from(e.flex);
            if (!with_rep) c.repetition.clear();
            if (centres) {
                Array<Vec2> offs = {};
                if (c.repetition.type != RepetitionType::None) c.repetition.get_offsets(offs);
                else offs.append(Vec2{0, 0});
                for (uint64_t k = 0; k < c.num_elements; k++) {
                    Array<Vec2> pts = {};
                    c.element_center(c.elements + k, pts);
                    for (uint64_t oi = 0; oi < offs.count; oi++) {
                        Shape s;
                        for (uint64_t j = 0; j < pts.count; j++) s.push_back(pts[j] + offs[oi]);
                        out.push_back(s);
                    }
                    pts.clear();
                }
                offs.clear();
            } else {
                Array<Polygon*> a = {};
                c.to_polygons(false, 0, a);
                take_polys(a, with_rep, out);
            }
            c.clear();
        } break;
        case 'R': {
            RobustPath c = {};
            c.copy_from(e.robust);
            if (!with_rep) c.repetition.clear();
            if (c.subpath_array.count > 1) {
                // joins between sub-paths are found by an iterative intersection search (tolerance 1e-2 * ...):
                // not comparable vertex by vertex; compare the spine at u = 0, 1/2, 1, ... instead
                Array<Vec2> offs = {};
                if (c.repetition.type != RepetitionType::None) c.repetition.get_offsets(offs);
                else offs.append(Vec2{0, 0});
                for (uint64_t oi = 0; oi < offs.count; oi++) {
                    Shape s;
                    for (uint64_t j = 0; j <= 2 * c.subpath_array.count; j++) s.push_back(c.position(0.5 * (double)j, true) + offs[oi]);
                    out.push_back(s);
                }
                offs.clear();
            } else if (centres) {
                Array<Vec2> offs = {};
                if (c.repetition.type != RepetitionType::None) c.repetition.get_offsets(offs);
                else offs.append(Vec2{0, 0});
                for (uint64_t k = 0; k < c.num_elements; k++) {
                    Array<Vec2> pts = {};
                    c.element_center(c.elements + k, pts);
                    for (uint64_t oi = 0; oi < offs.count; oi++) {
                        Shape s;
                        for (uint64_t j = 0; j < pts.count; j++) s.push_back(pts[j] + offs[oi]);
                        out.push_back(s);
                    }
                    pts.clear();
                }
                offs.clear();
            } else {
                Array<Polygon*> a = {};
                c.to_polygons(false, 0, a);
                take_polys(a, with_rep, out);
            }
            c.clear();
        } break;
        case 'L': {
            Array<Label*> a = {};
            Label* l = (Label*)allocate_clear(sizeof(Label));
            l->copy_from(e.label);
            if (!with_rep) l->repetition.clear();
            a.append(l);
            if (with_rep) l->apply_repetition(a);
            for (uint64_t i = 0; i < a.count; i++) {
                out.push_back(Shape{a[i]->origin});
                a[i]->clear();
                free_allocation(a[i]);
            }
            a.clear();
        } break;
        case 'X': {
            Reference r = {};
            r.copy_from(e.ref);
            if (!with_rep) r.repetition.clear();
            Array<Polygon*> a = {};
            r.get_polygons(true, true, -1, false, 0, a);
            for (uint64_t i = 0; i < a.count; i++) {
                Shape s;
                for (uint64_t j = 0; j < a[i]->point_array.count; j++) s.push_back(a[i]->point_array[j]);
                out.push_back(s);
                a[i]->clear();
                free_allocation(a[i]);
            }
            a.clear();
            r.clear();
        } break;
    }
    return out;
}

static double shape_scale = 1;  // max |coordinate| of the shapes under comparison
static bool close_pt(Vec2 a, Vec2 b) {
    double tol = 1e-9 * shape_scale;
    return fabs(a.x - b.x) <= tol && fabs(a.y - b.y) <= tol;
}

// same closed vertex sequence, up to the starting vertex and the direction (a reflection reverses
// the side on which to_polygons starts); open sequences (centre lines, single points) index by index
static bool same_shape(const Shape& a, const Shape& b, bool closed) {
    if (a.size() != b.size()) return false;
    size_t n = a.size();
    if (n == 0) return true;
    if (!closed) {
        for (size_t i = 0; i < n; i++) if (!close_pt(a[i], b[i])) return false;
        return true;
    }
    for (int dir = 0; dir < 2; dir++) {
        for (size_t sh = 0; sh < n; sh++) {
            bool ok = true;
            for (size_t i = 0; i < n && ok; i++) {
                size_t j = dir == 0 ? (i + sh) % n : (sh + n - i) % n;
                ok = close_pt(a[i], b[j]);
            }
            if (ok) return true;
        }
    }
    return false;
}

static std::string shape_str(const Shape& s) {
    std::string r;
    char b[64];
    for (auto& p : s) {
        snprintf(b, sizeof b, "(%.6g,%.6g)", p.x, p.y);
        r += b;
    }
    return r;
}

// returns "" when all shapes agree, else a short description
static std::string compare_shapes(const std::vector<Shape>& before, const std::vector<Shape>& after, const Mat& A, bool closed) {
    if (before.size() != after.size())
        return "shape count " + std::to_string(after.size()) + " != " + std::to_string(before.size());
    for (size_t i = 0; i < before.size(); i++) {
        Shape ex;
        for (auto& p : before[i]) ex.push_back(A.ap(p));
        shape_scale = 1;
        for (auto& p : ex) shape_scale = std::max(shape_scale, std::max(fabs(p.x), fabs(p.y)));
        if (!same_shape(ex, after[i], closed))
            return "shape " + std::to_string(i) + ": got " + shape_str(after[i]).substr(0, 160) + " expected " + shape_str(ex).substr(0, 160);
    }
    return "";
}

static const char* kind_name(char k) {
    switch (k) {
        case 'P': return "Polygon";
        case 'F': return "FlexPath";
        case 'R': return "RobustPath";
        case 'L': return "Label";
        default: return "Reference";
    }
}
static const char* op_name(char t) {
    switch (t) {
        case 't': return "translate";
        case 's': case 'S': return "scale";
        case 'm': return "mirror";
        case 'r': return "rotate";
        default: return "transform";
    }
}

static void run_seq(Out& out, const std::string& id, const std::string& payload) {
    Tok t(payload);
    Elem e;
    if (!read_elem(t, e)) { out.I(id, "bad-case"); return; }
    read_rep(t, *e.rep());
    std::vector<Op> ops = read_ops(t);
    bool centres = use_centres(e, ops);
    bool closed = !(centres || e.kind == 'L' || (e.kind == 'R' && e.robust.subpath_array.count > 1));
    bool has_rep = e.rep()->type != RepetitionType::None;
    std::vector<Shape> b0 = shapes(e, false, centres);
    std::vector<Shape> b1 = has_rep ? shapes(e, true, centres) : b0;
    Mat A;
    for (auto& o : ops) {
        apply_op(e, o);
        A = o.mat().after(A);
    }
    out.I(id, dump_elem(e));
    if (e.kind == 'F') {
        double fac = 1;
        for (auto& o : ops) {
            if (o.type == 's') fac *= fabs(o.f);
            if (o.type == 'T') fac *= fabs(o.mag);
        }
        for (uint64_t k = 0; k < e.flex.num_elements; k++) {
            double want = (2.5 + (double)k) * fac, got = e.flex.elements[k].bend_radius;
            if (fabs(got - want) > 1e-12 * fabs(want)) {
                char b[200];
                snprintf(b, sizeof b, "element %d: bend radius %.17g after the operations, %.17g expected (2.5 + k scaled by %.17g)", (int)k, got, want, fac);
                out.P(id, std::string("FAIL FlexPath::scale/transform:bend-radius ") + b);
                out.count("P:FlexPath::scale/transform:bend-radius");
                e.clear();
                return;
            }
        }
    }
    for (auto& o : ops) {
        if (o.type == 'm' && o.p0 == o.p1) {
            // no line, no reflection: nothing to compare with (Polygon/FlexPath::mirror return early,
            // RobustPath::mirror zeroes the linear part of trafo - see the correspondence line)
            out.P(id, "ok");
            out.count("mirror-degenerate-axis(no oracle)");
            e.clear();
            return;
        }
    }
    // the mirror line must not be degenerate for the documented map to exist; anisotropic scaling of a
    // polygon is affine but the outline comparison is vertex-wise, so it is fine too
    std::vector<Shape> a0 = shapes(e, false, centres);
    std::string d0 = compare_shapes(b0, a0, A, closed);
    if (!d0.empty()) {
        std::string key;
        bool refl_off = false, negmag = false, negscale = false;
        for (auto& o : ops) {
            if (o.type == 'T' && o.xr && e.has_offset) refl_off = true;
            if (o.type == 'T' && o.mag < 0) negmag = true;
            if (o.type == 's' && o.f < 0) negscale = true;
        }
        if (e.kind == 'F' && refl_off) key = "FlexPath::transform:x_reflection+offset";
        else if (e.kind == 'F' && negmag) key = "FlexPath::transform:negative-magnification";
        else if (e.kind == 'F' && negscale && e.has_extended) key = "FlexPath::scale:negative-factor+end_extensions";
        else if (e.kind == 'R' && (negscale || negmag) && e.has_extended) key = "RobustPath::scale:negative-factor+end_extensions";
        else key = std::string(kind_name(e.kind)) + "::" + (ops.size() == 1 ? op_name(ops[0].type) : "sequence") + ":outline-mismatch";
        out.P(id, "FAIL " + key + " outline(ops(e)) != A(outline(e)): " + d0);
        out.count("P:" + key);
    } else if (has_rep) {
        std::vector<Shape> a1 = shapes(e, true, centres);
        std::string d1 = compare_shapes(b1, a1, A, closed);
        if (!d1.empty()) {
            out.P(id, "FAIL element-transform:repetition-ignored copies of the transformed element are not the images of the copies: " + d1);
            out.count("P:element-transform:repetition-ignored");
        } else {
            out.P(id, "ok");
        }
    } else {
        out.P(id, "ok");
    }
    out.count(std::string("elem:") + kind_name(e.kind));
    out.count("ops:" + std::to_string(ops.size()));
    if (has_rep) out.count("with-repetition");
    if (!closed) out.count("oracle:centre-line-or-points"); else out.count("oracle:outline");
    e.clear();
}

static void run_rep(Out& out, const std::string& id, const std::string& payload) {
    Tok t(payload);
    Repetition r;
    read_rep(t, r);
    double mag = t.d();
    bool xr = t.n() != 0;
    Ang a = read_ang(t);
    r.transform(mag, xr, a.val());
    out.I(id, dump_rep(r));
    r.clear();
}

static void run_placemap(Out& out, const std::string& id, const std::string& payload) {
    Tok t(payload);
    Elem e;
    if (!read_elem(t, e)) { out.I(id, "bad-case"); return; }
    std::vector<Op> ops = read_ops(t);
    for (auto& o : ops) apply_op(e, o);
    Vec2 orig = e.kind == 'L' ? e.label.origin : e.ref.origin;
    double rot = e.kind == 'L' ? e.label.rotation : e.ref.rotation;
    double mag = e.kind == 'L' ? e.label.magnification : e.ref.magnification;
    bool xr = e.kind == 'L' ? e.label.x_reflection : e.ref.x_reflection;
    double r = xr ? -1 : 1;
    out.I(id, "M " + g(mag * cos(rot)) + " " + g(-r * mag * sin(rot)) + " " + g(mag * sin(rot)) + " " + g(r * mag * cos(rot)) + " " +
                  g(orig.x) + " " + g(orig.y));
    e.clear();
}

static void run_case(Out& out, const std::string& kind, const std::string& payload) {
    std::string id = out.add(kind, payload);
    if (kind == "seq") run_seq(out, id, payload);
    else if (kind == "rep") run_rep(out, id, payload);
    else if (kind == "placemap") run_placemap(out, id, payload);
    else out.I(id, "unknown-kind");
}

// ------------------------------------------------------------------ generators
static const Ang ANGLES[] = {{1, 0, 1},  {0, 1, 1},    {-1, 0, 1},  {0, -1, 1},   {3, 4, 5},    {4, 3, 5},  {-3, 4, 5}, {-4, -3, 5},
                             {3, -4, 5}, {5, 12, 13},  {12, -5, 13}, {-5, 12, 13}, {8, 15, 17}, {-15, -8, 17}, {4, -3, 5}, {-12, -5, 13}};
static const double MAGS[] = {2, 0.5, -1, -1.5, 3, 1};

static std::string D(double x) { return hex_dbl(x); }
static std::string DV(double x, double y) { return D(x) + " " + D(y); }
static double coord(Rng& g_) { return g_.chance(70) ? (double)g_.range(-8, 8) : (double)g_.range(-32, 32) / 4.0; }
static Ang angle(Rng& g_) { return ANGLES[g_.below(sizeof ANGLES / sizeof ANGLES[0])]; }

struct MagBudget {  // keeps the accumulated magnification within [1/8, 8]
    double acc = 1;
    double pick(Rng& g_) {
        for (int tries = 0; tries < 20; tries++) {
            double m = MAGS[g_.below(6)];
            double a = acc * fabs(m);
            if (a >= 0.125 && a <= 8) { acc = a; return m; }
        }
        return g_.coin() ? 1 : -1;
    }
};

static std::string gen_ops(Rng& g_, int k, bool only_T, bool allow_sxy) {
    std::string s = std::to_string(k);
    MagBudget mb;
    for (int i = 0; i < k; i++) {
        int w = only_T ? 5 : (int)g_.below(allow_sxy ? 7 : 6);
        switch (w) {
            case 0: s += " t " + DV(coord(g_), coord(g_)); break;
            case 1: s += " s " + D(mb.pick(g_)) + " " + DV(coord(g_), coord(g_)); break;
            case 2: {
                double x0 = coord(g_), y0 = coord(g_), x1 = coord(g_), y1 = coord(g_);
                if (g_.chance(3)) { x1 = x0; y1 = y0; }  // degenerate axis
                s += " m " + DV(x0, y0) + " " + DV(x1, y1);
            } break;
            case 3: s += " r " + angle(g_).str() + " " + DV(coord(g_), coord(g_)); break;
            case 6: {
                double fx = mb.pick(g_);
                double fy = g_.coin() ? fx * 2 : -fx;
                s += " sxy " + DV(fx, fy) + " " + DV(coord(g_), coord(g_));
            } break;
            default:
                s += " T " + D(mb.pick(g_)) + " " + (g_.chance(45) ? "1" : "0") + " " + angle(g_).str() + " " + DV(coord(g_), coord(g_));
        }
    }
    return s;
}

static std::string gen_rep(Rng& g_, bool none_ok) {
    int w = (int)g_.below(none_ok ? 8 : 5);
    switch (w) {
        case 0: return "T " + std::to_string(g_.range(1, 3)) + " " + std::to_string(g_.range(1, 3)) + " " + DV(coord(g_) + 20, coord(g_) - 20);
        case 1: return "G " + std::to_string(g_.range(1, 3)) + " " + std::to_string(g_.range(1, 3)) + " " + DV(coord(g_) + 20, coord(g_)) + " " + DV(coord(g_), coord(g_) + 20);
        case 2: {
            int n = (int)g_.range(0, 3);
            std::string s = "E " + std::to_string(n);
            for (int i = 0; i < n; i++) s += " " + DV(coord(g_) * 4, coord(g_) * 4);
            return s;
        }
        case 3: {
            int n = (int)g_.range(0, 3);
            std::string s = "EX " + std::to_string(n);
            for (int i = 0; i < n; i++) s += " " + D(coord(g_) * 4);
            return s;
        }
        case 4: {
            int n = (int)g_.range(0, 3);
            std::string s = "EY " + std::to_string(n);
            for (int i = 0; i < n; i++) s += " " + D(coord(g_) * 4);
            return s;
        }
        default: return "N";
    }
}

static std::string gen_poly_pts(Rng& g_) {
    int n = (int)g_.range(3, 8);
    std::string s = std::to_string(n);
    for (int i = 0; i < n; i++) s += " " + DV(coord(g_), coord(g_));
    return s;
}

static std::string gen_elem(Rng& g_, char kind) {
    switch (kind) {
        case 'P': return "P " + gen_poly_pts(g_);
        case 'F': {
            int nsp = (int)g_.range(2, 5);
            std::string s = std::string("F ") + (g_.chance(70) ? "1" : "0") + " " + std::to_string(nsp);
            double x = coord(g_), y = coord(g_);
            // gentle bends: direction changes below 60 degrees, segments of length >= 6
            double dirx = 1, diry = 0;
            Ang a0 = angle(g_);
            dirx = a0.c(); diry = a0.s();
            double prev_side = 99;
            for (int i = 0; i < nsp; i++) {
                s += " " + DV(x, y);
                double len = (double)g_.range(6, 12);
                double nx = -diry, ny = dirx;
                // consecutive segments turn by a definite angle: joins of (nearly) parallel segments are
                // ill-conditioned intersections, useless for a vertex-wise comparison
                double side = (double)g_.range(-2, 2) / 4.0;
                while (side == prev_side) side = (double)g_.range(-2, 2) / 4.0;
                prev_side = side;
                double ddx = dirx + side * nx, ddy = diry + side * ny;
                x += len * ddx; y += len * ddy;
                x = floor(x * 4 + 0.5) / 4; y = floor(y * 4 + 0.5) / 4;
            }
            int ne = (int)g_.range(1, 3);
            s += " " + std::to_string(ne);
            bool offs = g_.chance(60);
            for (int k = 0; k < ne; k++) {
                int et = (int)g_.below(3);
                s += " " + std::to_string(et == 1 ? 3 : et) + " " + DV((double)g_.range(1, 6) / 4.0, (double)g_.range(1, 6) / 4.0);
                double hw = (double)g_.range(1, 4) / 4.0, off = offs ? (double)(k * 2 - (ne - 1)) + (double)g_.range(-2, 2) / 4.0 : 0;
                bool taper = g_.chance(40);
                for (int i = 0; i < nsp; i++) {
                    s += " " + DV(hw, off);
                    if (taper) { hw += 0.125; if (offs) off += 0.125; }
                }
            }
            return s;
        }
        case 'R': {
            int nseg = (int)g_.range(1, 3);
            std::string s = std::string("R ") + (g_.chance(70) ? "1" : "0") + " ";
            double x = coord(g_), y = coord(g_);
            s += DV(x, y) + " " + std::to_string(nseg);
            Ang a0 = angle(g_);
            double dirx = a0.c(), diry = a0.s();
            for (int i = 0; i < nseg; i++) {
                double len = (double)g_.range(6, 12);
                x += len * dirx; y += len * diry;  // collinear segments: joins stay trivial
                x = floor(x * 8 + 0.5) / 8; y = floor(y * 8 + 0.5) / 8;
                s += " " + DV(x, y);
            }
            int ne = (int)g_.range(1, 2);
            s += " " + std::to_string(ne);
            bool offs = g_.chance(60);
            for (int k = 0; k < ne; k++) {
                int et = (int)g_.below(3);
                s += " " + std::to_string(et == 1 ? 3 : et) + " " + DV((double)g_.range(1, 6) / 4.0, (double)g_.range(1, 6) / 4.0);
                double w = (double)g_.range(2, 8) / 4.0, off = offs ? (double)(k * 3 - (ne - 1)) + (double)g_.range(-2, 2) / 4.0 : 0;
                bool taper = g_.chance(40);
                for (int i = 0; i <= nseg; i++) {
                    s += " " + DV(w, off);
                    if (taper) { w += 0.25; if (offs) off += 0.25; }
                }
            }
            return s;
        }
        case 'L':
            return "L " + DV(coord(g_), coord(g_)) + " " + angle(g_).str() + " " + D(MAGS[g_.below(6)]) + " " + (g_.coin() ? "1" : "0");
        default:
            return "X " + DV(coord(g_), coord(g_)) + " " + angle(g_).str() + " " + D(MAGS[g_.below(6)]) + " " + (g_.coin() ? "1" : "0") + " " +
                   gen_poly_pts(g_);
    }
}

int main(int argc, char** argv) {
    if (argc < 4) {
        fprintf(stderr, "usage: %s seed tier outdir [corpusdir] [replayfile]\n", argv[0]);
        return 2;
    }
    uint64_t seed = strtoull(argv[1], NULL, 10);
    bool thorough = std::string(argv[2]) == "thorough";
    Out out;
    out.open(argv[3]);
    // library diagnostics off
    set_error_logger(fopen("/dev/null", "w"));
    if (argc > 5) {
        std::string kind, payload;
        if (load_replay(argv[5], kind, payload)) run_case(out, kind, payload);
        out.close();
        return 0;
    }
    for (auto& kp : load_corpus(argc > 4 ? argv[4] : NULL)) run_case(out, kp.first, kp.second);
    Rng g_(seed);

    // the two probes behind F7 (fixed) and the one behind F8 first
    {
        std::string path = "F 1 2 " + DV(0, 0) + " " + DV(10, 0) + " 1 0 " + DV(0, 0) + " " + DV(0.5, 2) + " " + DV(0.5, 2);
        run_case(out, "seq", path + " N 1 T " + D(1) + " 1 1 0 1 " + DV(0, 0));
        run_case(out, "seq", path + " N 1 T " + D(-1) + " 0 1 0 1 " + DV(0, 0));
        std::string sq = "P 4 " + DV(0, 0) + " " + DV(1, 0) + " " + DV(1, 1) + " " + DV(0, 1);
        run_case(out, "seq", sq + " T 2 1 " + DV(5, 0) + " 1 T " + D(1) + " 0 0 1 1 " + DV(0, 0));
    }

    long n = thorough ? 60000 : 1500;
    const char kinds[] = {'P', 'F', 'R', 'L', 'X'};
    for (long i = 0; i < n; i++) {
        char k = kinds[g_.below(5)];
        bool only_T = (k == 'L' || k == 'X');
        int nops = (int)g_.range(1, 6);
        if (g_.chance(50)) nops = 1;
        std::string el = gen_elem(g_, k);
        std::string rep = g_.chance(35) ? gen_rep(g_, false) : "N";
        std::string ops = gen_ops(g_, nops, only_T, k == 'P');
        run_case(out, "seq", el + " " + rep + " " + ops);
        if (only_T && g_.chance(60)) run_case(out, "placemap", el + " " + ops);
    }
    long nr = thorough ? 20000 : 500;
    for (long i = 0; i < nr; i++) {
        Ang a = angle(g_);
        run_case(out, "rep", gen_rep(g_, false) + " " + D(MAGS[g_.below(6)]) + " " + (g_.coin() ? "1" : "0") + " " + a.str());
    }
    out.close();
    return 0;
}
