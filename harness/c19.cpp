// C19 harness: drives the real OASIS / GDSII number codecs on in-memory streams.
// Reaches the static functions of src/oasis.cpp by including that file (no hook in /repo).
#include <algorithm>
#include <gdstk/gdstk.hpp>
#include "oasis.cpp"
#include "common.hpp"

using namespace gdstk;

static const char* status_name(ErrorCode e) {
    switch (e) {
        case ErrorCode::NoError: return "ok";
        case ErrorCode::Overflow: return "overflow";
        case ErrorCode::InputFileError: return "eof";
        case ErrorCode::InvalidFile: return "invalid";
        default: return "other";
    }
}

struct MemOut {
    OasisStream o;
    MemOut() {
        memset(&o, 0, sizeof o);
        o.data_size = 1024;
        o.data = (uint8_t*)allocate(o.data_size);
        o.cursor = o.data;
    }
    std::vector<uint8_t> bytes() { return std::vector<uint8_t>(o.data, o.cursor); }
    ~MemOut() { free_allocation(o.data); }
};

struct MemIn {
    OasisStream in;
    uint8_t* base;
    size_t n;
    // the stream ends exactly at n bytes: reading past it sets InputFileError (as fread would)
    // NOTE: oasis_read on a memory stream does not check bounds before memcpy, so we give slack and
    // detect over-read by cursor position.
    MemIn(const std::vector<uint8_t>& b) {
        memset(&in, 0, sizeof in);
        n = b.size();
        base = (uint8_t*)allocate(n + 64);
        memset(base, 0, n + 64);
        if (n) memcpy(base, b.data(), n);
        in.data = base;
        in.cursor = base;
        in.data_size = n + 64;  // slack: the stream never self-frees
    }
    size_t consumed() { return (size_t)(in.cursor - base); }
    bool overread() { return consumed() > n; }
    ~MemIn() { free_allocation(base); }
};

// outcome of a decode: status, plus consumed count; an over-read of the supplied bytes is "eof"
static std::string dec_status(MemIn& m) {
    if (m.in.error_code == ErrorCode::Overflow) return "overflow";
    if (m.overread()) return "eof";
    return status_name(m.in.error_code);
}

static void run_case(Out& out, const std::string& kind, const std::string& payload) {
    std::string id = out.add(kind, payload);
    char buf[256];
    if (kind == "uint") {
        uint64_t v = strtoull(payload.c_str(), NULL, 16);
        MemOut w;
        oasis_write_unsigned_integer(w.o, v);
        std::vector<uint8_t> b = w.bytes();
        std::vector<uint8_t> b2 = b;
        b2.push_back(0x55);
        MemIn r(b2);
        uint64_t back = oasis_read_unsigned_integer(r.in);
        std::string st = dec_status(r);
        out.I(id, hex_bytes(b.data(), b.size()) + " " + st + " " + hex_u64(back) + " " + std::to_string(r.consumed()));
        if (st != "ok" || back != v || r.consumed() != b.size())
            out.P(id, "FAIL uint-roundtrip decode(encode(v)) != v");
        else
            out.P(id, "ok");
    } else if (kind == "udec") {
        std::vector<uint8_t> b = unhex(payload);
        MemIn r(b);
        uint64_t back = oasis_read_unsigned_integer(r.in);
        std::string st = dec_status(r);
        if (st == "ok")
            out.I(id, st + " " + hex_u64(back) + " " + std::to_string(r.consumed()));
        else
            out.I(id, st);
    } else if (kind == "int") {  // nb bits value
        unsigned nb, bits;
        char hv[64];
        sscanf(payload.c_str(), "%u %u %63s", &nb, &bits, hv);
        int64_t v = (int64_t)strtoull(hv, NULL, 16);
        MemOut w;
        oasis_write_int_internal(w.o, v, (uint8_t)nb, (uint8_t)bits);
        std::vector<uint8_t> b = w.bytes();
        std::vector<uint8_t> b2 = b;
        b2.push_back(0x55);
        MemIn r(b2);
        int64_t back = 0;
        uint8_t rb = oasis_read_int_internal(r.in, (uint8_t)nb, back);
        std::string st = dec_status(r);
        out.I(id, hex_bytes(b.data(), b.size()) + " " + st + " " + hex_u64((uint64_t)back) + " " + std::to_string(rb) + " " +
                      std::to_string(r.consumed()));
        out.P(id, (st == "ok" && back == v && rb == bits && r.consumed() == b.size()) ? "ok" : "FAIL int-internal-roundtrip packed integer does not round trip");
    } else if (kind == "idec") {  // skip hexbytes
        unsigned skip;
        char hb[4096];
        hb[0] = 0;
        sscanf(payload.c_str(), "%u %4095s", &skip, hb);
        std::vector<uint8_t> b = unhex(hb);
        MemIn r(b);
        int64_t back = 0;
        uint8_t rb = oasis_read_int_internal(r.in, (uint8_t)skip, back);
        std::string st = dec_status(r);
        if (st == "ok")
            out.I(id, st + " " + hex_u64((uint64_t)back) + " " + std::to_string(rb) + " " + std::to_string(r.consumed()));
        else
            out.I(id, st);
    } else if (kind == "sint") {
        int64_t v = 0;
        bool neg = payload[0] == '-';
        v = (int64_t)strtoull(payload.c_str() + (neg ? 1 : 0), NULL, 16);
        if (neg) v = -v;
        MemOut w;
        oasis_write_integer(w.o, v);
        std::vector<uint8_t> b = w.bytes();
        std::vector<uint8_t> b2 = b;
        b2.push_back(0x55);
        MemIn r(b2);
        int64_t back = oasis_read_integer(r.in);
        std::string st = dec_status(r);
        out.I(id, hex_bytes(b.data(), b.size()) + " " + st + " " + hex_i64(back) + " " + std::to_string(r.consumed()));
        out.P(id, (st == "ok" && back == v && r.consumed() == b.size()) ? "ok" : "FAIL sint-roundtrip signed integer does not round trip");
    } else if (kind == "d2" || kind == "d3" || kind == "dg") {
        char hx[64], hy[64];
        sscanf(payload.c_str(), "%63s %63s", hx, hy);
        auto parse = [](const char* s) {
            bool neg = s[0] == '-';
            int64_t v = (int64_t)strtoull(s + (neg ? 1 : 0), NULL, 16);
            return neg ? -v : v;
        };
        int64_t x = parse(hx), y = parse(hy);
        MemOut w;
        if (kind == "d2") oasis_write_2delta(w.o, x, y);
        else if (kind == "d3") oasis_write_3delta(w.o, x, y);
        else oasis_write_gdelta(w.o, x, y);
        std::vector<uint8_t> b = w.bytes();
        std::vector<uint8_t> b2 = b;
        b2.push_back(0x55);
        MemIn r(b2);
        int64_t bx = 0, by = 0;
        if (kind == "d2") oasis_read_2delta(r.in, bx, by);
        else if (kind == "d3") oasis_read_3delta(r.in, bx, by);
        else oasis_read_gdelta(r.in, bx, by);
        std::string st = dec_status(r);
        out.I(id, hex_bytes(b.data(), b.size()) + " " + st + " " + hex_i64(bx) + " " + hex_i64(by) + " " + std::to_string(r.consumed()));
        out.P(id, (st == "ok" && bx == x && by == y && r.consumed() == b.size()) ? "ok" : ("FAIL " + kind + "-roundtrip delta does not round trip"));
    } else if (kind == "ddec") {  // which(2|3|g) hexbytes : decode arbitrary bytes as a delta
        char which;
        char hb[4096];
        hb[0] = 0;
        sscanf(payload.c_str(), "%c %4095s", &which, hb);
        std::vector<uint8_t> b = unhex(hb);
        MemIn r(b);
        int64_t bx = 0, by = 0;
        if (which == '2') oasis_read_2delta(r.in, bx, by);
        else if (which == '3') oasis_read_3delta(r.in, bx, by);
        else oasis_read_gdelta(r.in, bx, by);
        std::string st = dec_status(r);
        if (st == "ok")
            out.I(id, st + " " + hex_i64(bx) + " " + hex_i64(by) + " " + std::to_string(r.consumed()));
        else
            out.I(id, st);
    } else {
        out.I(id, "unknown-kind");
    }
    (void)buf;
}

// ---------------------------------------------------------------- generators
static uint64_t interesting_u64(Rng& g) {
    switch (g.below(6)) {
        case 0: {  // 7-bit group boundaries
            unsigned k = 1 + (unsigned)g.below(9);
            uint64_t base = (k * 7 >= 64) ? 0 : (1ULL << (7 * k));
            return base + (uint64_t)g.range(-2, 2);
        }
        case 1: {  // powers of two and neighbours
            unsigned k = (unsigned)g.below(64);
            return (1ULL << k) + (uint64_t)g.range(-2, 2);
        }
        case 2: return g.below(300);
        case 3: return ~0ULL - g.below(3);
        case 4: {  // random with random bit length
            unsigned k = 1 + (unsigned)g.below(64);
            uint64_t v = g.next();
            return k == 64 ? v : (v & ((1ULL << k) - 1));
        }
        default: return g.next();
    }
}
static int64_t interesting_i63(Rng& g) {  // |v| < 2^63
    uint64_t m = interesting_u64(g) & 0x7FFFFFFFFFFFFFFFULL;
    int64_t v = (int64_t)m;
    return g.coin() ? v : -v;
}

static std::string rand_uint_encoding(Rng& g, Out& out) {
    // spec-level encoder: value, then optional zero padding groups, possibly too long / overflowing
    unsigned groups = 1 + (unsigned)g.below(12);
    std::vector<uint8_t> b;
    for (unsigned i = 0; i < groups; i++) {
        uint8_t v = (uint8_t)g.below(128);
        if (g.chance(30)) v = 0;
        if (i == groups - 1 && g.chance(50)) v = (uint8_t)g.below(4);
        b.push_back(v | (i + 1 < groups ? 0x80 : 0));
    }
    if (g.chance(10)) b.pop_back();  // truncated: last byte has continuation bit
    for (unsigned i = 0; i < g.below(3); i++) b.push_back((uint8_t)g.below(256));
    out.count(std::string("udec:len") + std::to_string(std::min<size_t>(b.size(), 12)));
    return hex_bytes(b.data(), b.size());
}

int main(int argc, char** argv) {
    if (argc < 4) {
        fprintf(stderr, "usage: c19 seed tier outdir [corpus] [replay]\n");
        return 2;
    }
    uint64_t seed = strtoull(argv[1], NULL, 10);
    bool thorough = strcmp(argv[2], "thorough") == 0;
    set_error_logger(NULL);
    Out out;
    out.open(argv[3]);
    if (argc > 5) {
        std::string k, p;
        if (load_replay(argv[5], k, p)) run_case(out, k, p);
        out.close();
        return 0;
    }
    for (auto& c : load_corpus(argc > 4 ? argv[4] : NULL)) run_case(out, c.first, c.second);
    Rng g(seed);
    // deterministic boundary sweep: every 7-bit group boundary
    for (unsigned k = 0; k <= 9; k++) {
        for (int d = -1; d <= 1; d++) {
            uint64_t base = (7 * k >= 64) ? 0 : (1ULL << (7 * k));
            run_case(out, "uint", hex_u64(base + (uint64_t)d));
        }
    }
    run_case(out, "uint", hex_u64(1ULL << 63));
    run_case(out, "uint", hex_u64((1ULL << 63) - 1));
    for (unsigned nb = 1; nb <= 4; nb++)
        for (unsigned k = 0; k <= 9; k++)
            for (int d = -1; d <= 1; d++) {
                unsigned sh = 7 * k + (7 - nb);
                if (sh >= 63) continue;
                int64_t v = (int64_t)((1ULL << sh) + (uint64_t)d);
                if (v < 0) continue;
                char b[96];
                snprintf(b, sizeof b, "%u %u %s", nb, (unsigned)g.below(1u << nb), hex_u64((uint64_t)v).c_str());
                run_case(out, "int", b);
            }
    long N = thorough ? 400000 : 6000;
    for (long i = 0; i < N; i++) {
        switch (g.below(10)) {
            case 0:
            case 1: run_case(out, "uint", hex_u64(interesting_u64(g))); break;
            case 2: run_case(out, "udec", rand_uint_encoding(g, out)); break;
            case 3: {
                unsigned nb = 1 + (unsigned)g.below(4);
                char b[96];
                snprintf(b, sizeof b, "%u %u %s", nb, (unsigned)g.below(1u << nb),
                         hex_u64(interesting_u64(g) & 0x7FFFFFFFFFFFFFFFULL).c_str());
                run_case(out, "int", b);
            } break;
            case 4: {
                unsigned skip = 1 + (unsigned)g.below(4);
                run_case(out, "idec", std::to_string(skip) + " " + rand_uint_encoding(g, out));
            } break;
            case 5: run_case(out, "sint", hex_i64(interesting_i63(g))); break;
            case 6: {
                int64_t v = interesting_i63(g);
                bool horiz = g.coin();
                run_case(out, "d2", hex_i64(horiz ? v : 0) + " " + hex_i64(horiz ? 0 : v));
            } break;
            case 7: {
                int64_t v = interesting_i63(g);
                int64_t x = 0, y = 0;
                switch (g.below(4)) {
                    case 0: x = v; break;
                    case 1: y = v; break;
                    case 2: x = v; y = v; break;
                    default: x = v; y = -v;
                }
                run_case(out, "d3", hex_i64(x) + " " + hex_i64(y));
            } break;
            case 8: {
                int64_t x = interesting_i63(g), y = interesting_i63(g);
                switch (g.below(6)) {
                    case 0: x = 0; break;
                    case 1: y = 0; break;
                    case 2: y = x; break;
                    case 3: y = -x; break;
                    default: break;
                }
                run_case(out, "dg", hex_i64(x) + " " + hex_i64(y));
            } break;
            default: {
                const char* w = "23g";
                char which = w[g.below(3)];
                run_case(out, "ddec", std::string(1, which) + " " + rand_uint_encoding(g, out));
            }
        }
    }
    out.close();
    return 0;
}
