// C06 harness (unit c06_own): the ALIASING PATTERN of the copy functions and collectors of gdstk, against the
// ownership model of coq/Ownership.v.
//
// A case builds a pool of heap objects (cells with every element kind, properties of every value type, every
// repetition kind, multi-element paths, RobustPaths with Parametric / general Bezier sections and Parametric
// interpolations; references by cell / raw cell / name; stand-alone elements; a library with raw cells) and
// runs 1-3 operations on it.  Before every operation every data buffer of the pool is stamped with a unique
// value; then the pool is walked BEFORE (B) and AFTER (A) the operation in the field order of
// Ownership.<x>_tree, and every pointer is printed canonically renumbered in order of first appearance over
// B then A (NULL = 0):
//     <num>n               heap struct (Polygon, Property node, `elements` array, ...)
//     <num>d<cap>/<cnt>    Array<T>::items of plain data        <num>p<cap>/<cnt>  Array<X*>::items of a Cell / Library
//     <num>b<cnt>          PropertyValue::bytes                 <num>s / <num>o    char* (o: RaithData::base_cell_name)
//     x<num>               non-owning pointer (Reference::cell / rawcell, *_function_data, Interpolation::data,
//                          func_data / grad_data, RawCell*)     ;  end of object      -  freed slot
// In A every non-NULL data buffer (d without pointer items, b, s, o) carries its contents flag:
//     @   the very buffer existed in B (shared)        =<num>  byte-identical to buffer <num> of B (=0: the new_name
//     #   no buffer of B has these bytes                        argument)
// (the model prints ~ for "copied, then written in place" and ! for "newly computed": both accept # or =<num>).
// Sizes of the objects an operation with include_paths creates are printed as ? (outline sizes are not modelled).
//
// payload := "pool" n OBJ^n "ops" n OP^n             all numbers hex; addresses = canonical numbers of the real
//   OBJ    := P POLY | F FLEX | R ROBUST | L LABEL | X REF | C CELL | B LIB          pointers of the initial pool
//   ARR    := cap cnt items
//   REP    := N | T cols rows | G cols rows | E ARR | EX ARR | EY ARR
//   PROPS  := n { node name nv { S node type | B node cnt bytes }^nv }^n
//   POLY   := self tag ARR REP PROPS
//   FLEX   := self ARR PROPS REP raith elems ne { tag ARR 3 join_data end_data bend_data }^ne
//   ROBUST := self PROPS REP ARR ns { p type | b ARR | f 2 func_data grad_data }^ns elems
//             ne { tag ARR nw data^nw ARR no data^no 1 end_data }^ne
//   LABEL  := self tag text REP PROPS
//   REF    := self (c cell | r rawcell | n name) REP PROPS
//   CELL   := self name PROPS ARR np POLY^np ARR nr REF^nr ARR nf FLEX^nf ARR nb ROBUST^nb ARR nl LABEL^nl
//   LIB    := self name ARR nc CELL^nc ARR nraw rawcell^nraw PROPS
//   OP     := cp i | cc i new_name deep | lc i deep | g what i apply_repetitions include_paths depth filter
//           | ar i | fr i | cl i        (what: 0 polygons 1 flexpaths 2 robustpaths 3 labels; filter: - or tag)
// I: one segment "B ... | A ..." per operation, joined by " || ".
// P (implementation alone, in a forked child; ASan build in the thorough tier): for the objects the last operation
//    created (when it is a deep one) every buffer is overwritten in place and the dump of every other object
//    must not change; then they are freed completely (clear + free_allocation / free_all), every buffer of the
//    remaining objects is read and rewritten, and finally everything else is freed the documented way (shallow
//    copies with clear()): a shared buffer shows up as a changed dump, a double free or a use after free.
#include <algorithm>
#include <cmath>
#include <set>
#include <sstream>
#include <gdstk/gdstk.hpp>
#include "common.hpp"

using namespace gdstk;

// ------------------------------------------------------------------------------------------------ allocator
// The model's allocator never hands out an address twice; malloc does as soon as a block is freed, and a new
// buffer at the address of a buffer the operation freed would read as "shared".  While an operation (or the
// oracle in the child) runs, free() therefore keeps the block (filled with 0xDD) instead of releasing it, and
// aborts on the second free of the same block: that also makes a double free fatal without a sanitizer.  With
// AddressSanitizer its own quarantine does both jobs.
#if !defined(__SANITIZE_ADDRESS__)
#include <malloc.h>
extern "C" void __libc_free(void*);
extern "C" void* __libc_realloc(void*, size_t);
static bool g_track = false;
static const size_t QBITS = 17;
static void* g_quar[(size_t)1 << QBITS];
static size_t g_quar_n = 0;
static void quarantine_reset() {
    memset(g_quar, 0, sizeof g_quar);
    g_quar_n = 0;
}
static void quarantine(void* p) {
    size_t mask = ((size_t)1 << QBITS) - 1;
    size_t h = (size_t)(((uintptr_t)p >> 4) * 0x9E3779B97F4A7C15ULL >> (64 - QBITS));
    while (g_quar[h]) {
        if (g_quar[h] == p) {
            static const char msg[] = "c06_own: double free\n";
            if (write(2, msg, sizeof msg - 1)) {}
            abort();
        }
        h = (h + 1) & mask;
    }
    if (g_quar_n + 1 < mask) {
        g_quar[h] = p;
        g_quar_n++;
    }
    memset(p, 0xDD, malloc_usable_size(p));
}
extern "C" void free(void* p) {
    if (!p) return;
    if (g_track) quarantine(p);
    else __libc_free(p);
}
extern "C" void* realloc(void* p, size_t n) {
    if (!g_track || !p) return __libc_realloc(p, n);
    size_t old = malloc_usable_size(p);
    void* q = malloc(n);
    if (q) memcpy(q, p, old < n ? old : n);
    quarantine(p);
    return q;
}
static void track(bool on) { g_track = on; }
#else
static void quarantine_reset() {}
static void track(bool) {}
#endif

// ------------------------------------------------------------------------------------------------ walker

enum Stamp { ST_NONE = 0, ST_GEOM, ST_HWO, ST_OFFS, ST_COORDS, ST_CTRL, ST_SUBS, ST_INTERP, ST_STR, ST_BYTES };

struct Node {
    char kind;  // n d p b s o x g (group) r (raw: owning pointer inside a bytewise copied buffer; wraps one d node)
    const void* p = NULL;
    uint64_t cap = 0, cnt = 0;
    size_t bytes = 0;    // length of the contents view (data kinds)
    int stamp = ST_NONE;
    const char* label = "";
    double* sd = NULL;   // a scalar of the struct (read by the dump, changed by the mutation)
    uint64_t* su = NULL;
    std::vector<Node> kids;
};

static Node mk(char kind, const void* p, const char* label) {
    Node n;
    n.kind = kind;
    n.p = p;
    n.label = label;
    return n;
}
static Node ext(const void* p) { return mk('x', p, "ext"); }

template <class T>
static Node arr_node(const Array<T>& a, int stamp, const char* label) {
    Node n = mk('d', a.items, label);
    n.cap = a.capacity;
    n.cnt = a.count;
    n.bytes = (size_t)a.count * sizeof(T);
    n.stamp = stamp;
    return n;
}
template <class T>
static Node ptrs_node(const Array<T*>& a, const char* label) {
    Node n = mk('p', a.items, label);
    n.cap = a.capacity;
    n.cnt = a.count;
    return n;
}
static Node str_node(const char* s, const char* label, char kind = 's') {
    Node n = mk(kind, s, label);
    n.bytes = s ? strlen(s) + 1 : 0;
    n.stamp = ST_STR;
    return n;
}
static Node rep_node(const Repetition& r) {
    Node g = mk('g', NULL, "rep");
    if (r.type == RepetitionType::Explicit) g.kids.push_back(arr_node(r.offsets, ST_OFFS, "repetition.offsets"));
    if (r.type == RepetitionType::ExplicitX || r.type == RepetitionType::ExplicitY)
        g.kids.push_back(arr_node(r.coords, ST_COORDS, "repetition.coords"));
    return g;
}
static Node props_node(Property* props) {
    Node g = mk('g', NULL, "props");
    for (Property* p = props; p; p = p->next) {
        Node pn = mk('n', p, "property");
        pn.kids.push_back(str_node(p->name, "property.name"));
        for (PropertyValue* v = p->value; v; v = v->next) {
            Node vn = mk('n', v, "property.value");
            if (v->type == PropertyType::String) {
                Node b = mk('b', v->bytes, "property.value.bytes");
                b.cnt = v->count;
                b.bytes = (size_t)v->count;
                b.stamp = ST_BYTES;
                vn.kids.push_back(b);
            } else {
                vn.su = &v->unsigned_integer;
            }
            pn.kids.push_back(vn);
        }
        g.kids.push_back(pn);
    }
    return g;
}
static Node polygon_node(Polygon* p) {
    Node n = mk('n', p, "polygon");
    n.su = &p->tag;
    n.kids.push_back(arr_node(p->point_array, ST_GEOM, "polygon.point_array"));
    n.kids.push_back(rep_node(p->repetition));
    n.kids.push_back(props_node(p->properties));
    return n;
}
static Node flexpath_node(FlexPath* f) {
    Node n = mk('n', f, "flexpath");
    n.sd = &f->spine.tolerance;
    n.kids.push_back(arr_node(f->spine.point_array, ST_GEOM, "flexpath.spine"));
    n.kids.push_back(props_node(f->properties));
    n.kids.push_back(rep_node(f->repetition));
    n.kids.push_back(str_node(f->raith_data.base_cell_name, "flexpath.raith_data.base_cell_name", 'o'));
    Node els = mk('n', f->elements, "flexpath.elements");
    if (f->num_elements > 0 && f->elements) els.sd = &f->elements[0].end_extensions.u;
    for (uint64_t i = 0; i < f->num_elements; i++) {
        FlexPathElement* e = f->elements + i;
        Node g = mk('g', NULL, "flexpath.element");
        g.kids.push_back(arr_node(e->half_width_and_offset, ST_HWO, "flexpath.element.half_width_and_offset"));
        g.kids.push_back(ext(e->join_function_data));
        g.kids.push_back(ext(e->end_function_data));
        g.kids.push_back(ext(e->bend_function_data));
        els.kids.push_back(g);
    }
    n.kids.push_back(els);
    return n;
}
static Node interp_node(const Array<Interpolation>& a, const char* label) {
    Node n = arr_node(a, ST_INTERP, label);
    for (uint64_t i = 0; i < a.count; i++)
        if (a.items[i].type == InterpolationType::Parametric) n.kids.push_back(ext(a.items[i].data));
    return n;
}
static Node robustpath_node(RobustPath* r) {
    Node n = mk('n', r, "robustpath");
    n.sd = &r->trafo[2];
    n.kids.push_back(props_node(r->properties));
    n.kids.push_back(rep_node(r->repetition));
    Node subs = arr_node(r->subpath_array, ST_SUBS, "robustpath.subpath_array");
    for (uint64_t i = 0; i < r->subpath_array.count; i++) {
        SubPath* sp = r->subpath_array.items + i;
        Node g = mk('g', NULL, "subpath");
        if (sp->type == SubPathType::Bezier) {
            Node raw = mk('r', NULL, "raw");
            raw.kids.push_back(arr_node(sp->ctrl, ST_CTRL, "robustpath.subpath.ctrl"));
            g.kids.push_back(raw);
        } else if (sp->type == SubPathType::Parametric) {
            g.kids.push_back(ext(sp->func_data));
            g.kids.push_back(ext(sp->grad_data));
        }
        subs.kids.push_back(g);
    }
    n.kids.push_back(subs);
    Node els = mk('n', r->elements, "robustpath.elements");
    if (r->num_elements > 0 && r->elements) els.sd = &r->elements[0].end_extensions.u;
    for (uint64_t i = 0; i < r->num_elements; i++) {
        RobustPathElement* e = r->elements + i;
        Node g = mk('g', NULL, "robustpath.element");
        g.kids.push_back(interp_node(e->width_array, "robustpath.element.width_array"));
        g.kids.push_back(interp_node(e->offset_array, "robustpath.element.offset_array"));
        g.kids.push_back(ext(e->end_function_data));
        els.kids.push_back(g);
    }
    n.kids.push_back(els);
    return n;
}
static Node label_node(Label* l) {
    Node n = mk('n', l, "label");
    n.sd = &l->origin.x;
    n.kids.push_back(str_node(l->text, "label.text"));
    n.kids.push_back(rep_node(l->repetition));
    n.kids.push_back(props_node(l->properties));
    return n;
}
static Node reference_node(Reference* r) {
    Node n = mk('n', r, "reference");
    n.sd = &r->origin.x;
    Node g = mk('g', NULL, "target");
    if (r->type == ReferenceType::Cell) g.kids.push_back(ext(r->cell));
    if (r->type == ReferenceType::RawCell) g.kids.push_back(ext(r->rawcell));
    if (r->type == ReferenceType::Name) g.kids.push_back(str_node(r->name, "reference.name"));
    n.kids.push_back(g);
    n.kids.push_back(rep_node(r->repetition));
    n.kids.push_back(props_node(r->properties));
    return n;
}
static Node cell_node(Cell* c) {
    Node n = mk('n', c, "cell");
    n.kids.push_back(str_node(c->name, "cell.name"));
    n.kids.push_back(props_node(c->properties));
    Node a = ptrs_node(c->polygon_array, "cell.polygon_array");
    for (uint64_t i = 0; i < c->polygon_array.count; i++) a.kids.push_back(polygon_node(c->polygon_array[i]));
    n.kids.push_back(a);
    a = ptrs_node(c->reference_array, "cell.reference_array");
    for (uint64_t i = 0; i < c->reference_array.count; i++) a.kids.push_back(reference_node(c->reference_array[i]));
    n.kids.push_back(a);
    a = ptrs_node(c->flexpath_array, "cell.flexpath_array");
    for (uint64_t i = 0; i < c->flexpath_array.count; i++) a.kids.push_back(flexpath_node(c->flexpath_array[i]));
    n.kids.push_back(a);
    a = ptrs_node(c->robustpath_array, "cell.robustpath_array");
    for (uint64_t i = 0; i < c->robustpath_array.count; i++) a.kids.push_back(robustpath_node(c->robustpath_array[i]));
    n.kids.push_back(a);
    a = ptrs_node(c->label_array, "cell.label_array");
    for (uint64_t i = 0; i < c->label_array.count; i++) a.kids.push_back(label_node(c->label_array[i]));
    n.kids.push_back(a);
    return n;
}
static Node library_node(Library* l) {
    Node n = mk('n', l, "library");
    n.kids.push_back(str_node(l->name, "library.name"));
    Node a = ptrs_node(l->cell_array, "library.cell_array");
    for (uint64_t i = 0; i < l->cell_array.count; i++) a.kids.push_back(cell_node(l->cell_array[i]));
    n.kids.push_back(a);
    Node raw = arr_node(l->rawcell_array, ST_NONE, "library.rawcell_array");
    for (uint64_t i = 0; i < l->rawcell_array.count; i++) raw.kids.push_back(ext(l->rawcell_array[i]));
    n.kids.push_back(raw);
    n.kids.push_back(props_node(l->properties));
    return n;
}

struct PObj {
    char type;  // P F R L X C B
    void* ptr;
    bool gone;
    bool shallow;
};
static Node obj_node(const PObj& o) {
    switch (o.type) {
        case 'P': return polygon_node((Polygon*)o.ptr);
        case 'F': return flexpath_node((FlexPath*)o.ptr);
        case 'R': return robustpath_node((RobustPath*)o.ptr);
        case 'L': return label_node((Label*)o.ptr);
        case 'X': return reference_node((Reference*)o.ptr);
        case 'C': return cell_node((Cell*)o.ptr);
        default: return library_node((Library*)o.ptr);
    }
}

// pre-order list of the pointer-carrying nodes (groups and raw wrappers dissolved), as Ownership.ptrs
static void flatten(Node& n, std::vector<Node*>& out) {
    if (n.kind != 'g' && n.kind != 'r') out.push_back(&n);
    for (auto& k : n.kids) flatten(k, out);
}
static bool is_data(const Node& n) { return n.kind == 'd' || n.kind == 'b' || n.kind == 's' || n.kind == 'o'; }
static bool has_ext_kid(const Node& n) {
    for (auto& k : n.kids)
        if (k.kind == 'x') return true;
    return false;
}

// ------------------------------------------------------------------------------------------------ stamps

static uint64_t g_stamp = 0;
static const double STAMP_UNIT = 1.0 / 65536.0;

static void stamp_node(Node& n) {
    if (!n.p || n.stamp == ST_NONE) return;
    uint64_t id = ++g_stamp;
    double s = (double)id * STAMP_UNIT;
    switch (n.stamp) {
        case ST_GEOM:
        case ST_OFFS: {
            if (n.cnt == 0) return;
            Vec2* v = (Vec2*)n.p;
            v[0].x = nearbyint(v[0].x) + s;
            break;
        }
        case ST_HWO: {
            if (n.cnt == 0) return;
            Vec2* v = (Vec2*)n.p;
            v[0].v = s;
            break;
        }
        case ST_COORDS: {
            if (n.cnt == 0) return;
            double* v = (double*)n.p;
            v[0] = nearbyint(v[0]) + s;
            break;
        }
        case ST_CTRL: {
            if (n.cnt < 3) return;
            Vec2* v = (Vec2*)n.p;
            v[1].x = nearbyint(v[1].x) + s;
            break;
        }
        case ST_SUBS: {
            if (n.cnt == 0) return;
            // the last double of a SubPath (sin_rot of an Arc, p3.y of a cubic) is unused by the section types the
            // generator puts first (segment, quadratic, general Bezier, parametric)
            double* tail = (double*)((char*)n.p + sizeof(SubPath) - sizeof(double));
            *tail = (double)id;
            break;
        }
        case ST_INTERP: {
            Interpolation* it = (Interpolation*)n.p;
            for (uint64_t i = 0; i < n.cnt; i++) {
                if (it[i].type == InterpolationType::Constant) {
                    it[i].final_value = (double)id;  // second double of the union: unused by Constant
                    return;
                }
                if (it[i].type == InterpolationType::Linear || it[i].type == InterpolationType::Smooth) {
                    it[i].final_value = nearbyint(it[i].final_value) + s;
                    return;
                }
            }
            break;
        }
        case ST_STR: {
            char* c = (char*)n.p;
            size_t len = strlen(c);
            for (size_t i = 0; i < len && i < 6; i++) c[i] = (char)('a' + ((id >> (4 * i)) & 15));
            break;
        }
        case ST_BYTES: {
            uint8_t* b = (uint8_t*)n.p;
            for (uint64_t i = 0; i < n.cnt && i < 4; i++) b[i] = (uint8_t)(id >> (8 * i));
            break;
        }
    }
}
static void stamp_tree(Node& n) {
    stamp_node(n);
    for (auto& k : n.kids) stamp_tree(k);
}
static void mutate_tree(Node& n) {
    stamp_node(n);
    if (n.p && n.sd) *n.sd += 1.0;
    if (n.p && n.su) *n.su += ((uint64_t)1 << 32);
    for (auto& k : n.kids) mutate_tree(k);
}

static uint64_t fnv(const void* p, size_t len, uint64_t h = 1469598103934665603ULL) {
    const uint8_t* b = (const uint8_t*)p;
    for (size_t i = 0; i < len; i++) {
        h ^= b[i];
        h *= 1099511628211ULL;
    }
    return h;
}
// the dump of an object: per node the hash of its contents view / its scalar
static void dump_tree(const Node& n, std::vector<std::pair<const char*, uint64_t>>& out) {
    if (n.kind != 'g' && n.kind != 'r') {
        uint64_t h = 0;
        if (n.p && is_data(n) && n.bytes > 0) h = fnv(n.p, n.bytes);
        if (n.p && n.sd) h = fnv(n.sd, 8, h + 1);
        if (n.p && n.su) h = fnv(n.su, 8, h + 2);
        if (n.kind == 'x') h = (uint64_t)(uintptr_t)n.p;
        out.push_back({n.label, h ^ (n.cnt << 1) ^ (uint64_t)(n.p == NULL)});
    }
    for (auto& k : n.kids) dump_tree(k, out);
}
// read and rewrite every byte of every buffer (a freed buffer trips ASan here)
static uint64_t touch_tree(const Node& n) {
    uint64_t acc = 0;
    if (n.p && is_data(n) && n.bytes > 0) {
        volatile uint8_t* b = (volatile uint8_t*)n.p;
        for (size_t i = 0; i < n.bytes; i++) {
            uint8_t v = b[i];
            acc += v;
            b[i] = v;
        }
    }
    if (n.p && n.sd) {
        volatile double* d = n.sd;
        double v = *d;
        *d = v;
        acc += (uint64_t)v;
    }
    if (n.p && n.su) {
        volatile uint64_t* d = n.su;
        uint64_t v = *d;
        *d = v;
        acc += v;
    }
    for (auto& k : n.kids) acc += touch_tree(k);
    return acc;
}

// ------------------------------------------------------------------------------------------------ generator

static double g_userdata[8];
static Vec2 user_curve(double u, void* data) { return Vec2{4 * u, u * u + (data == (void*)&g_userdata[0] ? 0.0 : 0.0)}; }
static Vec2 user_grad(double u, void*) { return Vec2{4, 2 * u}; }
static double user_width(double u, void*) { return 1.0 + 0.25 * u; }

static char* dup_str(const char* s) { return copy_string(s, NULL); }
static std::string uname(Rng& g, const char* prefix) {
    char b[32];
    snprintf(b, sizeof b, "%s%06llx", prefix, (unsigned long long)g.below(1 << 24));
    return b;  // at least 7 characters
}

static Property* gen_props(Rng& g, int maxn = 3) {
    Property* props = NULL;
    int n = (int)g.below((uint64_t)maxn + 1);
    for (int i = 0; i < n; i++) {
        std::string name = uname(g, "p");
        int nv = 1 + (int)g.below(3);
        for (int j = 0; j < nv; j++) {
            switch (g.below(4)) {
                case 0: set_property(props, name.c_str(), (uint64_t)g.below(1000), j == 0); break;
                case 1: set_property(props, name.c_str(), (int64_t)g.range(-500, 500), j == 0); break;
                case 2: set_property(props, name.c_str(), (double)g.range(-50, 50) / 4, j == 0); break;
                default: {
                    uint8_t bytes[12];
                    uint64_t cnt = 4 + g.below(8);
                    for (uint64_t k = 0; k < cnt; k++) bytes[k] = (uint8_t)g.below(256);
                    set_property(props, name.c_str(), bytes, cnt, j == 0);
                }
            }
        }
    }
    return props;
}

static void gen_rep(Rng& g, Repetition& r, bool allow_none = true) {
    memset(&r, 0, sizeof r);
    int k = (int)g.below(allow_none ? 8 : 5);
    switch (k) {
        case 0:
            r.type = RepetitionType::Rectangular;
            r.columns = 1 + g.below(2);
            r.rows = 1 + g.below(2);
            if (g.chance(4)) r.columns = 0;  // zero count: nothing is repeated
            r.spacing = Vec2{(double)g.range(3, 9), (double)g.range(3, 9)};
            break;
        case 1:
            r.type = RepetitionType::Regular;
            r.columns = 1 + g.below(2);
            r.rows = 1 + g.below(2);
            r.v1 = Vec2{(double)g.range(3, 9), 1};
            r.v2 = Vec2{-1, (double)g.range(3, 9)};
            break;
        case 2: {
            r.type = RepetitionType::Explicit;
            uint64_t n = 1 + g.below(3);  // (an empty list makes Array::extend pass NULL to memcpy: UBSan stops there)
            for (uint64_t i = 0; i < n; i++) r.offsets.append(Vec2{(double)(3 * (i + 1)), (double)g.range(1, 9)});
            break;
        }
        case 3:
        case 4: {
            r.type = k == 3 ? RepetitionType::ExplicitX : RepetitionType::ExplicitY;
            uint64_t n = 1 + g.below(3);
            for (uint64_t i = 0; i < n; i++) r.coords.append((double)(4 * (i + 1)));
            break;
        }
        default:
            break;  // None
    }
}

static Tag gen_tag(Rng& g) { return make_tag((uint32_t)g.range(1, 3), (uint32_t)g.below(2)); }

static Polygon* gen_polygon(Rng& g) {
    Polygon* p = (Polygon*)allocate_clear(sizeof(Polygon));
    p->tag = gen_tag(g);
    uint64_t n = g.chance(6) ? 0 : 3 + g.below(4);
    if (n > 0 || g.coin()) p->point_array.ensure_slots(n + 1 + g.below(4));
    for (uint64_t i = 0; i < n; i++) p->point_array.append_unsafe(Vec2{(double)(10 * i), (double)(i * i)});
    gen_rep(g, p->repetition);
    p->properties = gen_props(g);
    return p;
}

static FlexPath* gen_flexpath(Rng& g) {
    FlexPath* f = (FlexPath*)allocate_clear(sizeof(FlexPath));
    uint64_t np = 2 + g.below(3);
    f->spine.tolerance = 0.01;
    f->spine.point_array.ensure_slots(np + g.below(3));
    for (uint64_t i = 0; i < np; i++) f->spine.point_array.append_unsafe(Vec2{(double)(10 * i), (double)(3 * (i % 2))});
    f->num_elements = 1 + g.below(3);
    f->elements = (FlexPathElement*)allocate_clear(f->num_elements * sizeof(FlexPathElement));
    for (uint64_t e = 0; e < f->num_elements; e++) {
        FlexPathElement* el = f->elements + e;
        el->tag = gen_tag(g);
        el->half_width_and_offset.ensure_slots(np + g.below(2));
        for (uint64_t i = 0; i < np; i++) el->half_width_and_offset.append_unsafe(Vec2{0.5 + 0.25 * (double)e, 2.0 * (double)e});
        el->join_type = JoinType::Natural;
        el->end_type = EndType::Flush;
        el->bend_type = BendType::None;
        if (g.chance(30)) el->join_function_data = &g_userdata[1 + g.below(3)];
        if (g.chance(30)) el->end_function_data = &g_userdata[1 + g.below(3)];
        if (g.chance(30)) el->bend_function_data = &g_userdata[4 + g.below(3)];
    }
    f->scale_width = g.coin();
    if (g.chance(30)) f->raith_data.base_cell_name = dup_str(uname(g, "raith").c_str());
    gen_rep(g, f->repetition);
    f->properties = gen_props(g, 2);
    return f;
}

static RobustPath* gen_robustpath(Rng& g, bool allow_bezier) {
    RobustPath* r = (RobustPath*)allocate_clear(sizeof(RobustPath));
    r->num_elements = 1 + g.below(2);
    r->elements = (RobustPathElement*)allocate_clear(r->num_elements * sizeof(RobustPathElement));
    double w[2] = {1.0, 0.5};
    double o[2] = {0.0, 2.0};
    Tag t[2] = {gen_tag(g), gen_tag(g)};
    r->init(Vec2{0, 0}, w, o, 0.01, 200, t);
    r->scale_width = true;
    for (uint64_t e = 0; e < r->num_elements; e++)
        if (g.chance(30)) r->elements[e].end_function_data = &g_userdata[1 + g.below(3)];
    int ns = 1 + (int)g.below(3);
    for (int i = 0; i < ns; i++) {
        Interpolation wi[2], oi[2];
        Interpolation* wp = NULL;
        Interpolation* op = NULL;
        if (g.chance(50)) {
            for (int e = 0; e < 2; e++) {
                memset(&wi[e], 0, sizeof(Interpolation));
                switch (g.below(3)) {
                    case 0:
                        wi[e].type = InterpolationType::Constant;
                        wi[e].value = 1.0 + (double)g.below(3);
                        break;
                    case 1:
                        wi[e].type = InterpolationType::Linear;
                        wi[e].initial_value = 1.0;
                        wi[e].final_value = 2.0;
                        break;
                    default:
                        wi[e].type = InterpolationType::Parametric;
                        wi[e].function = user_width;
                        wi[e].data = &g_userdata[5 + g.below(2)];
                }
            }
            wp = wi;
        }
        if (g.chance(30)) {
            for (int e = 0; e < 2; e++) {
                memset(&oi[e], 0, sizeof(Interpolation));
                oi[e].type = InterpolationType::Linear;
                oi[e].initial_value = 2.0 * e;
                oi[e].final_value = 2.0 * e + 1;
            }
            op = oi;
        }
        uint64_t sect = g.below(allow_bezier ? 5 : 4);
        if (i == 0 && sect == 1) sect = 0;  // the first section is never a cubic: its last double carries the stamp
        switch (sect) {
            case 0: r->segment(Vec2{6, (double)g.range(-2, 2)}, wp, op, true); break;
            case 1: r->cubic(Vec2{2, 2}, Vec2{4, 2}, Vec2{6, 0}, wp, op, true); break;
            case 2: r->quadratic(Vec2{3, 2}, Vec2{6, 0}, wp, op, true); break;
            case 3: r->parametric(user_curve, &g_userdata[0], user_grad, &g_userdata[7], wp, op, true); break;
            default: {
                Array<Vec2> pts = {};
                pts.append(Vec2{2, 1});
                pts.append(Vec2{4, -1});
                pts.append(Vec2{5, 1});
                pts.append(Vec2{7, 0});
                r->bezier(pts, wp, op, true);
                pts.clear();
            }
        }
    }
    gen_rep(g, r->repetition);
    r->properties = gen_props(g, 2);
    return r;
}

static Label* gen_label(Rng& g) {
    Label* l = (Label*)allocate_clear(sizeof(Label));
    l->tag = gen_tag(g);
    l->text = dup_str(uname(g, "text").c_str());
    l->origin = Vec2{(double)g.range(-9, 9), (double)g.range(-9, 9)};
    l->magnification = 1;
    gen_rep(g, l->repetition);
    l->properties = gen_props(g, 2);
    return l;
}

static RawCell* gen_rawcell(Rng& g) {
    RawCell* rc = (RawCell*)allocate_clear(sizeof(RawCell));
    rc->name = dup_str(uname(g, "raw").c_str());
    return rc;
}

static Reference* gen_reference(Rng& g, const std::vector<Cell*>& targets, const std::vector<RawCell*>& raws) {
    Reference* r = (Reference*)allocate_clear(sizeof(Reference));
    int k = (int)g.below(10);
    if (k < 6 && !targets.empty()) {
        r->init(targets[g.below(targets.size())]);
    } else if (k < 8 && !raws.empty()) {
        r->init(raws[g.below(raws.size())]);
    } else {
        r->type = ReferenceType::Name;
        r->name = dup_str(uname(g, "name").c_str());
        r->magnification = 1;
    }
    r->origin = Vec2{(double)g.range(-20, 20), (double)g.range(-20, 20)};
    if (g.chance(30)) r->rotation = M_PI / 2;
    if (g.chance(30)) r->magnification = 2;
    r->x_reflection = g.chance(30);
    gen_rep(g, r->repetition);
    r->properties = gen_props(g, 1);
    return r;
}

static Cell* gen_cell(Rng& g, const std::vector<Cell*>& targets, const std::vector<RawCell*>& raws, bool allow_bezier) {
    Cell* c = (Cell*)allocate_clear(sizeof(Cell));
    c->name = dup_str(uname(g, "cell").c_str());
    c->properties = gen_props(g, 2);
    uint64_t n = g.below(3);
    for (uint64_t i = 0; i < n; i++) c->polygon_array.append(gen_polygon(g));
    n = g.below(3);
    for (uint64_t i = 0; i < n; i++) c->reference_array.append(gen_reference(g, targets, raws));
    n = g.below(3);
    for (uint64_t i = 0; i < n; i++) c->flexpath_array.append(gen_flexpath(g));
    n = g.below(3);
    for (uint64_t i = 0; i < n; i++) c->robustpath_array.append(gen_robustpath(g, allow_bezier));
    n = g.below(3);
    for (uint64_t i = 0; i < n; i++) c->label_array.append(gen_label(g));
    return c;
}

// ------------------------------------------------------------------------------------------------ payload

struct Numbering {
    std::map<const void*, uint64_t> m;
    uint64_t num(const void* p) {
        if (!p) return 0;
        auto it = m.find(p);
        if (it != m.end()) return it->second;
        uint64_t n = m.size() + 1;
        m[p] = n;
        return n;
    }
};

struct Ser {
    Numbering& nb;
    std::string s;
    explicit Ser(Numbering& n) : nb(n) {}
    void w(const std::string& t) {
        s += t;
        s += ' ';
    }
    void h(uint64_t v) { w(hex_u64(v)); }
    void a(const void* p) { h(nb.num(p)); }
    template <class T>
    void arr(const Array<T>& x) {
        h(x.capacity);
        h(x.count);
        a(x.items);
    }
    void rep(const Repetition& r) {
        switch (r.type) {
            case RepetitionType::None: w("N"); break;
            case RepetitionType::Rectangular: w("T"); h(r.columns); h(r.rows); break;
            case RepetitionType::Regular: w("G"); h(r.columns); h(r.rows); break;
            case RepetitionType::Explicit: w("E"); arr(r.offsets); break;
            case RepetitionType::ExplicitX: w("EX"); arr(r.coords); break;
            case RepetitionType::ExplicitY: w("EY"); arr(r.coords); break;
        }
    }
    void props(Property* p) {
        uint64_t n = 0;
        for (Property* q = p; q; q = q->next) n++;
        h(n);
        for (Property* q = p; q; q = q->next) {
            a(q);
            a(q->name);
            uint64_t nv = 0;
            for (PropertyValue* v = q->value; v; v = v->next) nv++;
            h(nv);
            for (PropertyValue* v = q->value; v; v = v->next) {
                if (v->type == PropertyType::String) {
                    w("B");
                    a(v);
                    h(v->count);
                    a(v->bytes);
                } else {
                    w("S");
                    a(v);
                    h((uint64_t)v->type);
                }
            }
        }
    }
    void polygon(Polygon* p) {
        a(p);
        h(p->tag);
        arr(p->point_array);
        rep(p->repetition);
        props(p->properties);
    }
    void flexpath(FlexPath* f) {
        a(f);
        arr(f->spine.point_array);
        props(f->properties);
        rep(f->repetition);
        a(f->raith_data.base_cell_name);
        a(f->elements);
        h(f->num_elements);
        for (uint64_t i = 0; i < f->num_elements; i++) {
            FlexPathElement* e = f->elements + i;
            h(e->tag);
            arr(e->half_width_and_offset);
            h(3);
            a(e->join_function_data);
            a(e->end_function_data);
            a(e->bend_function_data);
        }
    }
    void interp(const Array<Interpolation>& x) {
        arr(x);
        uint64_t n = 0;
        for (uint64_t i = 0; i < x.count; i++)
            if (x.items[i].type == InterpolationType::Parametric) n++;
        h(n);
        for (uint64_t i = 0; i < x.count; i++)
            if (x.items[i].type == InterpolationType::Parametric) a(x.items[i].data);
    }
    void robustpath(RobustPath* r) {
        a(r);
        props(r->properties);
        rep(r->repetition);
        arr(r->subpath_array);
        h(r->subpath_array.count);
        for (uint64_t i = 0; i < r->subpath_array.count; i++) {
            SubPath* sp = r->subpath_array.items + i;
            if (sp->type == SubPathType::Bezier) {
                w("b");
                arr(sp->ctrl);
            } else if (sp->type == SubPathType::Parametric) {
                w("f");
                h(2);
                a(sp->func_data);
                a(sp->grad_data);
            } else {
                w("p");
                h((uint64_t)sp->type);
            }
        }
        a(r->elements);
        h(r->num_elements);
        for (uint64_t i = 0; i < r->num_elements; i++) {
            RobustPathElement* e = r->elements + i;
            h(e->tag);
            interp(e->width_array);
            interp(e->offset_array);
            h(1);
            a(e->end_function_data);
        }
    }
    void label(Label* l) {
        a(l);
        h(l->tag);
        a(l->text);
        rep(l->repetition);
        props(l->properties);
    }
    void reference(Reference* r) {
        a(r);
        if (r->type == ReferenceType::Cell) { w("c"); a(r->cell); }
        if (r->type == ReferenceType::RawCell) { w("r"); a(r->rawcell); }
        if (r->type == ReferenceType::Name) { w("n"); a(r->name); }
        rep(r->repetition);
        props(r->properties);
    }
    void cell(Cell* c) {
        a(c);
        a(c->name);
        props(c->properties);
        arr(c->polygon_array);
        h(c->polygon_array.count);
        for (uint64_t i = 0; i < c->polygon_array.count; i++) polygon(c->polygon_array[i]);
        arr(c->reference_array);
        h(c->reference_array.count);
        for (uint64_t i = 0; i < c->reference_array.count; i++) reference(c->reference_array[i]);
        arr(c->flexpath_array);
        h(c->flexpath_array.count);
        for (uint64_t i = 0; i < c->flexpath_array.count; i++) flexpath(c->flexpath_array[i]);
        arr(c->robustpath_array);
        h(c->robustpath_array.count);
        for (uint64_t i = 0; i < c->robustpath_array.count; i++) robustpath(c->robustpath_array[i]);
        arr(c->label_array);
        h(c->label_array.count);
        for (uint64_t i = 0; i < c->label_array.count; i++) label(c->label_array[i]);
    }
    void library(Library* l) {
        a(l);
        a(l->name);
        arr(l->cell_array);
        h(l->cell_array.count);
        for (uint64_t i = 0; i < l->cell_array.count; i++) cell(l->cell_array[i]);
        arr(l->rawcell_array);
        h(l->rawcell_array.count);
        for (uint64_t i = 0; i < l->rawcell_array.count; i++) a(l->rawcell_array[i]);
        props(l->properties);
    }
    void obj(const PObj& o) {
        w(std::string(1, o.type));
        switch (o.type) {
            case 'P': polygon((Polygon*)o.ptr); break;
            case 'F': flexpath((FlexPath*)o.ptr); break;
            case 'R': robustpath((RobustPath*)o.ptr); break;
            case 'L': label((Label*)o.ptr); break;
            case 'X': reference((Reference*)o.ptr); break;
            case 'C': cell((Cell*)o.ptr); break;
            default: library((Library*)o.ptr);
        }
    }
};

// ------------------------------------------------------------------------------------------------ pattern

struct Snap {  // a data buffer of the pool before the operation
    const void* p;
    std::vector<uint8_t> bytes;
};

struct Pattern {
    Numbering nb;
    std::set<const void*> bptrs;
    std::vector<Snap> snaps;
    std::string text;

    void item(const Node& n, bool after, bool hide, const char* new_name) {
        char b[64];
        if (n.kind == 'x') {
            text += "x" + hex_u64(nb.num(n.p)) + " ";
            return;
        }
        std::string t = hex_u64(nb.num(n.p));
        t += n.kind;
        if (n.kind == 'd' || n.kind == 'p') {
            if (hide) t += "?";
            else {
                snprintf(b, sizeof b, "%llx/%llx", (unsigned long long)n.cap, (unsigned long long)n.cnt);
                t += b;
            }
        }
        if (n.kind == 'b') {
            if (hide) t += "?";
            else t += hex_u64(n.cnt);
        }
        if (after && n.p && is_data(n) && !has_ext_kid(n)) {
            if (bptrs.count(n.p)) {
                t += "@";
            } else {
                std::string fl = "#";
                for (auto& s : snaps) {
                    if (s.bytes.size() == n.bytes && (n.bytes == 0 || memcmp(s.bytes.data(), n.p, n.bytes) == 0)) {
                        fl = "=" + hex_u64(nb.num(s.p));
                        break;
                    }
                }
                if (fl == "#" && new_name && n.kind == 's' && n.bytes == strlen(new_name) + 1 &&
                    memcmp(new_name, n.p, n.bytes) == 0)
                    fl = "=0";
                t += fl;
            }
        }
        text += t + " ";
    }
    void before(std::vector<PObj>& pool) {
        text += "B ";
        for (auto& o : pool) {
            if (o.gone) {
                text += "- ";
                continue;
            }
            Node root = obj_node(o);
            std::vector<Node*> items;
            flatten(root, items);
            for (Node* n : items) {
                item(*n, false, false, NULL);
                if (n->kind != 'x' && n->p) {
                    bptrs.insert(n->p);
                    if (is_data(*n)) {
                        Snap s;
                        s.p = n->p;
                        s.bytes.assign((const uint8_t*)n->p, (const uint8_t*)n->p + n->bytes);
                        snaps.push_back(s);
                    }
                }
            }
            text += "; ";
        }
    }
    void after(std::vector<PObj>& pool, size_t hide_from, const char* new_name) {
        text += "| A ";
        for (size_t i = 0; i < pool.size(); i++) {
            PObj& o = pool[i];
            if (o.gone) {
                text += "- ";
                continue;
            }
            Node root = obj_node(o);
            std::vector<Node*> items;
            flatten(root, items);
            for (Node* n : items) item(*n, true, i >= hide_from, new_name);
            text += "; ";
        }
    }
};

// ------------------------------------------------------------------------------------------------ operations

static void free_object(PObj& o) {  // the documented way to dispose of an object that owns everything it points to
    switch (o.type) {
        case 'P': ((Polygon*)o.ptr)->clear(); break;
        case 'F': ((FlexPath*)o.ptr)->clear(); break;
        case 'R': ((RobustPath*)o.ptr)->clear(); break;
        case 'L': ((Label*)o.ptr)->clear(); break;
        case 'X': ((Reference*)o.ptr)->clear(); break;
        case 'C': ((Cell*)o.ptr)->free_all(); break;
        default: ((Library*)o.ptr)->free_all();
    }
    free_allocation(o.ptr);
    o.gone = true;
}
static void clear_object(PObj& o) {  // a shallow copy shares its elements: clear() only
    if (o.type == 'C') ((Cell*)o.ptr)->clear();
    else if (o.type == 'B') ((Library*)o.ptr)->clear();
    else {
        free_object(o);
        return;
    }
    free_allocation(o.ptr);
    o.gone = true;
}

struct Case {
    std::vector<PObj> pool;
    std::vector<Cell*> cells;  // cells usable as reference targets
    std::vector<RawCell*> raws;
    bool has_shallow = false;
    bool has_bezier = false;
};

static char g_names[4][16] = {"newname_aaaa", "newname_bbbb", "newname_cccc", "newname_dddd"};

static void build_pool(Rng& g, Case& c, bool allow_bezier) {
    int nraw = (int)g.below(3);
    for (int i = 0; i < nraw; i++) c.raws.push_back(gen_rawcell(g));
    Library* lib = NULL;
    if (g.chance(35)) {
        lib = (Library*)allocate_clear(sizeof(Library));
        lib->init(uname(g, "lib").c_str(), 1e-6, 1e-9);
        int nc = 1 + (int)g.below(2);
        for (int i = 0; i < nc; i++) {
            Cell* cell = gen_cell(g, c.cells, c.raws, allow_bezier);
            lib->cell_array.append(cell);
            c.cells.push_back(cell);
        }
        for (auto* rc : c.raws)
            if (g.coin()) lib->rawcell_array.append(rc);
        lib->properties = gen_props(g, 2);
    }
    int nc = 1 + (int)g.below(3);
    for (int i = 0; i < nc; i++) {
        Cell* cell = gen_cell(g, c.cells, c.raws, allow_bezier);
        c.cells.push_back(cell);
        c.pool.push_back(PObj{'C', cell, false, false});
    }
    if (lib) c.pool.push_back(PObj{'B', lib, false, false});
    int ne = (int)g.below(4);
    for (int i = 0; i < ne; i++) {
        switch (g.below(5)) {
            case 0: c.pool.push_back(PObj{'P', gen_polygon(g), false, false}); break;
            case 1: c.pool.push_back(PObj{'F', gen_flexpath(g), false, false}); break;
            case 2: c.pool.push_back(PObj{'R', gen_robustpath(g, allow_bezier), false, false}); break;
            case 3: c.pool.push_back(PObj{'L', gen_label(g), false, false}); break;
            default: c.pool.push_back(PObj{'X', gen_reference(g, c.cells, c.raws), false, false});
        }
    }
}

// number of result elements a query would produce, to keep cases small (repetitions multiply)
static uint64_t rep_mult(const Repetition& r) { return r.type == RepetitionType::None ? 1 : r.get_count(); }
static uint64_t cell_weight(Cell* c, int depth) {
    uint64_t n = 0;
    for (uint64_t i = 0; i < c->polygon_array.count; i++) n += rep_mult(c->polygon_array[i]->repetition);
    for (uint64_t i = 0; i < c->flexpath_array.count; i++)
        n += rep_mult(c->flexpath_array[i]->repetition) * c->flexpath_array[i]->num_elements;
    for (uint64_t i = 0; i < c->robustpath_array.count; i++)
        n += rep_mult(c->robustpath_array[i]->repetition) * c->robustpath_array[i]->num_elements;
    for (uint64_t i = 0; i < c->label_array.count; i++) n += rep_mult(c->label_array[i]->repetition);
    if (depth != 0)
        for (uint64_t i = 0; i < c->reference_array.count; i++) {
            Reference* r = c->reference_array[i];
            if (r->type == ReferenceType::Cell) n += rep_mult(r->repetition) * cell_weight(r->cell, depth - 1);
        }
    return n;
}

static std::string run_case(Rng& g, Out& out, bool thorough) {
    Case c;
    quarantine_reset();
    bool allow_bezier = g.chance(25);
    build_pool(g, c, allow_bezier);
    Numbering nb0;
    Ser ser(nb0);
    ser.w("pool");
    ser.h(c.pool.size());
    for (auto& o : c.pool) ser.obj(o);
    for (int i = 0; i < 4; i++) nb0.num(g_names[i]);  // the new_name arguments get numbers too
    std::string ops_text;
    std::string result;
    int nops = 1 + (int)g.below(3);
    int attempts = 0;
    int real_ops = 0;
    bool last_deep = false;
    size_t new_from = 0;
    bool stop = false;
    std::string payload_pool = ser.s;
    guard_begin(out, "own", payload_pool + "ops 0 ", "ownership:crash-in-operation", 60);
    for (int k = 0; k < nops && !stop && attempts < 40; attempts++) {
        // choose an operation that is valid for the current pool
        std::vector<size_t> live, cellsi, libsi, elems;
        for (size_t i = 0; i < c.pool.size(); i++) {
            if (c.pool[i].gone) continue;
            live.push_back(i);
            if (c.pool[i].type == 'C') cellsi.push_back(i);
            else if (c.pool[i].type == 'B') libsi.push_back(i);
            else elems.push_back(i);
        }
        if (live.empty()) break;
        bool is_last = (k == nops - 1);
        std::string op;
        // stamp every live buffer, then record the pool before the operation
        for (auto& o : c.pool)
            if (!o.gone) {
                Node root = obj_node(o);
                stamp_tree(root);
            }
        Pattern pat;
        pat.before(c.pool);
        size_t before_size = c.pool.size();
        const char* new_name = NULL;
        bool hide = false;
        bool deep = true;
        int choice = (int)g.below(100);
        auto announce = [&]() {  // what a crash inside the library call will be reported with
            g_guard_payload = payload_pool + "ops " + hex_u64((uint64_t)real_ops + 1) + " " + ops_text + op;
        };
        track(true);
        if (choice < 22 && !live.empty()) {  // cp
            size_t i = live[g.below(live.size())];
            PObj& src = c.pool[i];
            PObj n{src.type, NULL, false, false};
            op = "cp " + hex_u64(i);
            announce();
            switch (src.type) {
                case 'P': n.ptr = allocate_clear(sizeof(Polygon)); ((Polygon*)n.ptr)->copy_from(*(Polygon*)src.ptr); break;
                case 'F': n.ptr = allocate_clear(sizeof(FlexPath)); ((FlexPath*)n.ptr)->copy_from(*(FlexPath*)src.ptr); break;
                case 'R': n.ptr = allocate_clear(sizeof(RobustPath)); ((RobustPath*)n.ptr)->copy_from(*(RobustPath*)src.ptr); break;
                case 'L': n.ptr = allocate_clear(sizeof(Label)); ((Label*)n.ptr)->copy_from(*(Label*)src.ptr); break;
                case 'X': n.ptr = allocate_clear(sizeof(Reference)); ((Reference*)n.ptr)->copy_from(*(Reference*)src.ptr); break;
                case 'C': n.ptr = allocate_clear(sizeof(Cell)); ((Cell*)n.ptr)->copy_from(*(Cell*)src.ptr, NULL, true); break;
                default: n.ptr = allocate_clear(sizeof(Library)); ((Library*)n.ptr)->copy_from(*(Library*)src.ptr, true);
            }
            c.pool.push_back(n);
        } else if (choice < 36 && !cellsi.empty()) {  // cc
            size_t i = cellsi[g.below(cellsi.size())];
            bool dp = g.chance(60);
            if (g.coin()) new_name = g_names[g.below(4)];
            op = "cc " + hex_u64(i) + " " + hex_u64(nb0.num(new_name)) + " " + (dp ? "1" : "0");
            announce();
            Cell* n = (Cell*)allocate_clear(sizeof(Cell));
            n->copy_from(*(Cell*)c.pool[i].ptr, new_name, dp);
            c.pool.push_back(PObj{'C', n, false, !dp});
            if (!dp) c.has_shallow = true;
            deep = dp;
        } else if (choice < 44 && !libsi.empty()) {  // lc
            size_t i = libsi[g.below(libsi.size())];
            bool dp = g.chance(60);
            op = "lc " + hex_u64(i) + " " + (dp ? "1" : "0");
            announce();
            Library* n = (Library*)allocate_clear(sizeof(Library));
            n->copy_from(*(Library*)c.pool[i].ptr, dp);
            c.pool.push_back(PObj{'B', n, false, !dp});
            if (!dp) c.has_shallow = true;
            deep = dp;
        } else if (choice < 78 && !cellsi.empty()) {  // g
            size_t i = cellsi[g.below(cellsi.size())];
            Cell* cell = (Cell*)c.pool[i].ptr;
            int what = (int)g.below(4);
            bool ar = g.coin();
            bool ip = what == 0 && is_last && g.chance(40);
            static const int64_t depths[] = {-1, 0, 1, 2};
            int64_t depth = depths[g.below(4)];
            if (cell_weight(cell, depth < 0 ? 8 : (int)depth) > 40) depth = 0;
            bool filter = g.chance(40);
            Tag tag = gen_tag(g);
            op = "g " + std::to_string(what) + " " + hex_u64(i) + " " + (ar ? "1" : "0") + " " + (ip ? "1" : "0") + " " +
                 hex_i64(depth) + " " + (filter ? hex_u64(tag) : std::string("-"));
            announce();
            if (what == 0) {
                Array<Polygon*> res = {};
                cell->get_polygons(ar, ip, depth, filter, tag, res);
                for (uint64_t j = 0; j < res.count; j++) c.pool.push_back(PObj{'P', res[j], false, false});
                res.clear();
            } else if (what == 1) {
                Array<FlexPath*> res = {};
                cell->get_flexpaths(ar, depth, filter, tag, res);
                for (uint64_t j = 0; j < res.count; j++) c.pool.push_back(PObj{'F', res[j], false, false});
                res.clear();
            } else if (what == 2) {
                Array<RobustPath*> res = {};
                cell->get_robustpaths(ar, depth, filter, tag, res);
                for (uint64_t j = 0; j < res.count; j++) c.pool.push_back(PObj{'R', res[j], false, false});
                res.clear();
            } else {
                Array<Label*> res = {};
                cell->get_labels(ar, depth, filter, tag, res);
                for (uint64_t j = 0; j < res.count; j++) c.pool.push_back(PObj{'L', res[j], false, false});
                res.clear();
            }
            hide = ip;
            if (ip) stop = true;
        } else if (choice < 90 && !elems.empty()) {  // ar
            size_t i = elems[g.below(elems.size())];
            PObj& e = c.pool[i];
            op = "ar " + hex_u64(i);
            announce();
            switch (e.type) {
                case 'P': { Array<Polygon*> res = {}; ((Polygon*)e.ptr)->apply_repetition(res);
                            for (uint64_t j = 0; j < res.count; j++) c.pool.push_back(PObj{'P', res[j], false, false}); res.clear(); break; }
                case 'F': { Array<FlexPath*> res = {}; ((FlexPath*)e.ptr)->apply_repetition(res);
                            for (uint64_t j = 0; j < res.count; j++) c.pool.push_back(PObj{'F', res[j], false, false}); res.clear(); break; }
                case 'R': { Array<RobustPath*> res = {}; ((RobustPath*)e.ptr)->apply_repetition(res);
                            for (uint64_t j = 0; j < res.count; j++) c.pool.push_back(PObj{'R', res[j], false, false}); res.clear(); break; }
                case 'L': { Array<Label*> res = {}; ((Label*)e.ptr)->apply_repetition(res);
                            for (uint64_t j = 0; j < res.count; j++) c.pool.push_back(PObj{'L', res[j], false, false}); res.clear(); break; }
                default: { Array<Reference*> res = {}; ((Reference*)e.ptr)->apply_repetition(res);
                           for (uint64_t j = 0; j < res.count; j++) c.pool.push_back(PObj{'X', res[j], false, false}); res.clear(); }
            }
        } else if (is_last) {  // fr / cl: only as the last operation (other objects may point to what is freed)
            std::vector<size_t> cand;
            for (size_t i : live) {
                if (c.has_shallow && !c.pool[i].shallow) continue;  // a shallow copy may share what this object owns
                cand.push_back(i);
            }
            if (cand.empty()) { track(false); continue; }
            size_t i = cand[g.below(cand.size())];
            PObj& o = c.pool[i];
            bool use_clear = o.shallow || ((o.type == 'C' || o.type == 'B') && g.chance(30));
            op = std::string(use_clear ? "cl " : "fr ") + hex_u64(i);
            announce();
            if (use_clear) clear_object(o);
            else free_object(o);
            deep = false;
        } else {
            track(false);
            continue;
        }
        track(false);
        k++;
        real_ops++;
        pat.after(c.pool, hide ? before_size : (size_t)-1, new_name);
        if (!result.empty()) result += " || ";
        while (!pat.text.empty() && pat.text.back() == ' ') pat.text.pop_back();
        result += pat.text;
        ops_text += op + " ";
        last_deep = deep && op.substr(0, 2) != "fr" && op.substr(0, 2) != "cl";
        new_from = before_size;
        out.count("op:" + op.substr(0, op.find(' ')));
    }
    guard_end();
    std::string payload = payload_pool + "ops " + hex_u64((uint64_t)real_ops) + " " + ops_text;
    while (!payload.empty() && payload.back() == ' ') payload.pop_back();
    std::string id = out.add("own", payload);
    out.I(id, result);
    for (auto& o : c.pool)
        if (!o.gone && o.type == 'R') {
            RobustPath* r = (RobustPath*)o.ptr;
            for (uint64_t i = 0; i < r->subpath_array.count; i++)
                if (r->subpath_array[i].type == SubPathType::Bezier) c.has_bezier = true;
        }
    if (c.has_bezier) out.count("case:with-bezier-ctrl");
    if (c.has_shallow) out.count("case:with-shallow-copy");

    // P: mutation / free / touch, in a child
    std::string verdict = in_child([&](FILE* o) {
        std::string fail;
        track(true);
        if (last_deep && new_from < c.pool.size()) {
            std::vector<std::pair<const char*, uint64_t>> d0, d1;
            for (size_t i = 0; i < new_from; i++)
                if (!c.pool[i].gone) {
                    Node root = obj_node(c.pool[i]);
                    dump_tree(root, d0);
                }
            for (size_t i = new_from; i < c.pool.size(); i++)
                if (!c.pool[i].gone) {
                    Node root = obj_node(c.pool[i]);
                    mutate_tree(root);
                }
            for (size_t i = 0; i < new_from; i++)
                if (!c.pool[i].gone) {
                    Node root = obj_node(c.pool[i]);
                    dump_tree(root, d1);
                }
            for (size_t j = 0; j < d0.size() && j < d1.size() && fail.empty(); j++)
                if (d0[j].second != d1[j].second) {
                    std::string lab = d0[j].first;
                    if (lab == "robustpath.subpath.ctrl")
                        fail = "FAIL RobustPath::copy_from:bezier-ctrl-shared writing through the copy changed robustpath.subpath.ctrl of an older object";
                    else
                        fail = "FAIL copy:source-changed writing through the new objects changed " + lab + " of an older object";
                }
            if (!fail.empty()) {  // report before anything is freed: a shared buffer would also be freed twice below
                fprintf(o, "%s", fail.c_str());
                return;
            }
            // free the new objects completely
            for (size_t i = c.pool.size(); i-- > new_from;)
                if (!c.pool[i].gone) {
                    if (c.pool[i].shallow) clear_object(c.pool[i]);
                    else free_object(c.pool[i]);
                }
        }
        // every remaining buffer must still be readable and writable
        uint64_t acc = 0;
        for (auto& ob : c.pool)
            if (!ob.gone) {
                Node root = obj_node(ob);
                acc += touch_tree(root);
            }
        // dispose of everything else the documented way: shallow copies first (clear only), then the rest, newest first
        for (size_t i = c.pool.size(); i-- > 0;)
            if (!c.pool[i].gone && c.pool[i].shallow) clear_object(c.pool[i]);
        for (size_t i = c.pool.size(); i-- > 0;)
            if (!c.pool[i].gone) free_object(c.pool[i]);
        fprintf(o, "%s", fail.empty() ? (acc == 1 ? "ok " : "ok") : fail.c_str());
    }, 60);
    if (verdict.compare(0, 2, "ok") == 0) out.P(id, "ok");
    else if (verdict.compare(0, 4, "FAIL") == 0) out.P(id, verdict);
    else out.P(id, "FAIL copy:crash-on-mutate-or-free " + verdict + " while overwriting, freeing or touching the objects");
    (void)thorough;
    // the parent keeps its copy of the objects: they are simply abandoned (the run is short-lived)
    return id;
}

int main(int argc, char** argv) {
    if (argc < 4) {
        fprintf(stderr, "usage: %s seed tier outdir [corpusdir] [replayfile]\n", argv[0]);
        return 2;
    }
    uint64_t seed = strtoull(argv[1], NULL, 10);
    bool thorough = std::string(argv[2]) == "thorough";
    Out out;
    out.open(argv[3]);
    set_error_logger(fopen("/dev/null", "w"));
    if (sizeof(SubPath) != 72 || sizeof(Interpolation) != 24) {
        fprintf(stderr, "unexpected struct sizes\n");
        return 3;
    }
    long n = thorough ? 10000 : 500;
    if (getenv("VERIF_CASES")) n = atol(getenv("VERIF_CASES"));
    // a payload holds shapes, not contents: a replay re-generates the case from its position in the seeded stream
    // ("seed" and "case_id" of the replay file)
    long only = -1;
    if (argc > 5) {
        FILE* f = fopen(argv[5], "r");
        std::string txt;
        char buf[4096];
        size_t r;
        while (f && (r = fread(buf, 1, sizeof buf, f)) > 0) txt.append(buf, r);
        if (f) fclose(f);
        size_t q = txt.find("\"case_id\": \"");
        if (q != std::string::npos) only = atol(txt.c_str() + q + 12);
        q = txt.find("\"seed\": ");
        if (q != std::string::npos) seed = strtoull(txt.c_str() + q + 8, NULL, 10);
        q = txt.find("\"tier\": \"thorough\"");
        if (q != std::string::npos && !getenv("VERIF_CASES")) n = 10000;
        if (only > 0 && only < n) n = only;
    }
    Rng g(seed * 0x100000001B3ULL + 12345);
    for (long i = 0; i < n; i++) {
        Rng gc(g.next());
        if (only > 0 && i + 1 != only) continue;
        run_case(gc, out, thorough);
    }
    out.close();
    return 0;
}
