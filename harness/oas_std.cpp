// OAS_STD harness (C04 / C02): the STANDARD PROPERTIES Library::write_oas attaches (S_MAX_*_INTEGER_WIDTH, S_MAX_STRING_LENGTH,
// S_POLYGON_MAX_VERTICES, S_PATH_MAX_VERTICES, S_TOP_CELL, S_BOUNDING_BOXES_AVAILABLE, S_BOUNDING_BOX, S_CELL_OFFSET) against
// the Gallina model coq/OasisStd.v (write_oas_model_std = write_oas_model after the pre-pass attach_std).
//  kind "std": a random library of the subset coq/OasisWrite.v covers (generator of oas_layout.hpp with the restrictions of
//  harness/c04w.cpp) is saved TWICE by Library::write_oas(file, 0, 0, flags) with the same flags, flags running through all 16
//  combinations of OASIS_CONFIG_PROPERTY_MAX_COUNTS / TOP_LEVEL / BOUNDING_BOX / CELL_OFFSET.
//    I line = hex of the bytes of the first file, then " same" when the second file has the same bytes, else " second:" + hex
//    M line = hex of the extracted write_oas_model_std on the library text of the payload, then " same"
//             (OasisStdProofs.second_write_same_lemma) - the two lines must be IDENTICAL
//    P line = truth of every standard property found in the BYTES of the first file (record scanner of oas_scan.hpp) against the
//             abstract layout of the case, computed here on integers and sharing nothing with gdstk or the model
//  Input classes beyond c04w: user properties with the reserved names (several, alone, in front, at the end), Cell objects
//  outside the library WITH geometry, Name-typed references to cells inside / outside the library, shared children,
//  multi-element paths, and (variant bit 4, layouts with unit == precision) coordinates OFF the grid: quarter grid steps in
//  polygon vertices, label / reference origins and lattice vectors, which is where "round the exact box" and "box of the
//  rounded points" part.
//  With the BOUNDING_BOX flag the library is restricted to what the box model covers exactly: Cell-typed references are
//  quarter turns with magnification 1, 2 or 3, every path has one point or two points on an axis-parallel line.
//  Payload: "<layout-seed> <variant> | <library text>":
//    lib    := cell_offset(0|1) flags(bit0 MAX_COUNTS, bit1 TOP_LEVEL, bit2 BOUNDING_BOX) D unit-bits props ncells cell* nout cell*
//    ref    := name-hex kind x y mag-bits rot-bits (- | m) flip(0|1) rep props      kind := N | I index | O index
//    everything else as in harness/c04w.cpp; coordinates are numerators over D in grid units.
#include <fcntl.h>
#include <gdstk/gdstk.hpp>
#include "oas_layout.hpp"
#include "oas_scan.hpp"

using namespace gdstk;
using namespace oasl;

static std::string g_outdir;

static std::vector<uint8_t> slurp(const std::string& path) {
    std::vector<uint8_t> v;
    FILE* f = fopen(path.c_str(), "rb");
    if (!f) return v;
    uint8_t buf[65536];
    size_t r;
    while ((r = fread(buf, 1, sizeof buf, f)) > 0) v.insert(v.end(), buf, buf + r);
    fclose(f);
    return v;
}

static std::string hexstr(const std::string& s) {
    if (s.empty()) return "-";
    return hex_bytes((const uint8_t*)s.data(), s.size());
}

struct Case {
    ALib L;                      // library cells (numerators over D)
    std::vector<ACell> outside;  // Cell objects outside the library, same order as L.outside
    int64_t D = 1;
    bool cell_offset = false, f_max = false, f_top = false, f_bbox = false;
    unsigned flags() const {
        return (cell_offset ? OASIS_CONFIG_PROPERTY_CELL_OFFSET : 0) | (f_max ? OASIS_CONFIG_PROPERTY_MAX_COUNTS : 0) |
               (f_top ? OASIS_CONFIG_PROPERTY_TOP_LEVEL : 0) | (f_bbox ? OASIS_CONFIG_PROPERTY_BOUNDING_BOX : 0);
    }
    // index of the Cell object a name resolves to (build_library: the LAST cell of that name), -1 when absent
    int lib_index(const std::string& n) const {
        int r = -1;
        for (size_t i = 0; i < L.cells.size(); i++)
            if (L.cells[i].name == n) r = (int)i;
        return r;
    }
    // an outside Cell object is built under a unique name and renamed afterwards when it is to carry the name of a library cell
    std::map<std::string, std::string> twin;
    std::string wname(const std::string& n) const {
        auto it = twin.find(n);
        return it == twin.end() ? n : it->second;
    }
    int out_index(const std::string& n) const {
        for (size_t i = 0; i < outside.size(); i++)
            if (outside[i].name == n) return (int)i;
        return -1;
    }
};

struct Ser {
    std::string s;
    void w(const std::string& t) {
        if (!s.empty()) s += ' ';
        s += t;
    }
    void u(uint64_t v) { w(hex_u64(v)); }
    void i(int64_t v) { w(hex_i64(v)); }
    void props(const AProps& ps) {
        u(ps.size());
        for (auto& p : ps) {
            w(hexstr(p.name));
            u(p.v.size());
            for (auto& v : p.v) {
                switch (v.t) {
                    case 0: w("U"); u(v.u); break;
                    case 1: w("I"); i(v.i); break;
                    case 2: w("R"); w(hex_dbl(v.r)); break;
                    default: w("S"); w(hexstr(v.s));
                }
            }
        }
    }
    void rep(const ARep& r) {
        switch (r.kind) {
            case 1: w("R"); u(r.cols); u(r.rows); i(r.sx); i(r.sy); break;
            case 2: w("G"); u(r.cols); u(r.rows); i(r.v1x); i(r.v1y); i(r.v2x); i(r.v2y); break;
            case 3: w("E"); u(r.offs.size()); for (auto& o : r.offs) { i(o.first); i(o.second); } break;
            case 4: w("X"); u(r.coords.size()); for (auto c : r.coords) i(c); break;
            case 5: w("Y"); u(r.coords.size()); for (auto c : r.coords) i(c); break;
            default: w("N");
        }
    }
    void pts(const std::vector<P2>& p) {
        u(p.size());
        for (auto& q : p) { i(q.first); i(q.second); }
    }
    void cell(const Case& C, const ACell& c) {
        w(hexstr(C.wname(c.name)));
        u(c.polys.size());
        for (auto& p : c.polys) {
            u(p.layer); u(p.type); pts(p.pts); rep(p.rep); props(p.props);
        }
        u(c.paths.size());
        for (auto& p : c.paths) {
            u(p.els.size());
            for (auto& e : p.els) {
                u(e.layer); u(e.type); u((uint64_t)(e.width / 2));
                if (e.end == 0) w("F");
                else if (e.end == 2) w("H");
                else { w("E"); i(e.e0); i(e.e1); }
            }
            pts(p.pts); rep(p.rep); props(p.props);
        }
        u(c.refs.size());
        for (auto& r : c.refs) {
            w(hexstr(r.how == 3 ? C.wname(r.target) : r.target));
            if (r.how == 0) { w("I"); u((uint64_t)C.lib_index(r.target)); }
            else if (r.how == 3) { w("O"); u((uint64_t)C.out_index(r.target)); }
            else w("N");
            i(r.x); i(r.y);
            w(hex_dbl(r.mag));
            double rot = r.radians();
            w(hex_dbl(rot));
            int64_t m = 0;
            if (is_multiple_of_pi_over_2(rot, m)) i(m); else w("-");
            u(r.refl ? 1 : 0);
            rep(r.rep); props(r.props);
        }
        u(c.labels.size());
        for (auto& t : c.labels) {
            w(hexstr(t.text)); u(t.layer); u(t.type); i(t.x); i(t.y); rep(t.rep); props(t.props);
        }
        props(c.props);
    }
};

static std::string serialise(const Case& C) {
    Ser o;
    o.u(C.cell_offset ? 1 : 0);
    o.u((C.f_max ? 1 : 0) | (C.f_top ? 2 : 0) | (C.f_bbox ? 4 : 0));
    o.u((uint64_t)C.D);
    o.w(hex_dbl(1e-6 / C.L.precision));
    o.props(C.L.props);
    o.u(C.L.cells.size());
    for (auto& c : C.L.cells) o.cell(C, c);
    o.u(C.outside.size());
    for (auto& c : C.outside) o.cell(C, c);
    return o.s;
}

template <class T>
static auto clear_outline(T& p, int) -> decltype(p.outline, void()) { p.outline = false; }
template <class T>
static void clear_outline(T&, long) {}

static const char* reserved_names[] = {"S_MAX_SIGNED_INTEGER_WIDTH", "S_MAX_UNSIGNED_INTEGER_WIDTH", "S_MAX_STRING_LENGTH",
                                       "S_POLYGON_MAX_VERTICES",     "S_PATH_MAX_VERTICES",          "S_TOP_CELL",
                                       "S_BOUNDING_BOXES_AVAILABLE", "S_BOUNDING_BOX",               "S_CELL_OFFSET"};

static AProp user_reserved(Gen& gen, Rng& g, bool cell_level) {
    AProp q;
    q.name = cell_level ? reserved_names[7 + g.below(2)] : reserved_names[g.below(7)];
    if (g.chance(15)) q.name = reserved_names[g.below(9)];
    int nv = (int)g.below(4);
    for (int k = 0; k < nv; k++) {
        APV v;
        v.t = (int)g.below(4);
        if (v.t == 2) v.t = 0;
        v.u = g.below(1000);
        v.i = g.range(-1000, 1000);
        v.s = g.chance(30) ? gen.nstring(30, 50) : gen.nstring(1, 8);   // a long string value counts for S_MAX_STRING_LENGTH
        q.v.push_back(v);
    }
    return q;
}

static void insert_reserved(Gen& gen, Rng& g, AProps& ps, bool cell_level, Out* out) {
    int n = 1 + (int)g.below(3);
    for (int k = 0; k < n; k++) {
        AProp q = user_reserved(gen, g, cell_level);
        if (k > 0 && g.coin()) q.name = ps[g.below(ps.size())].name;   // several entries of one name
        size_t pos = ps.empty() ? 0 : g.below(ps.size() + 1);
        ps.insert(ps.begin() + pos, q);
    }
    if (out) out->count(cell_level ? "class:user-reserved-cell-prop" : "class:user-reserved-lib-prop");
}

static void scale_rep(ARep& r, int64_t k) {
    r.sx *= k; r.sy *= k; r.v1x *= k; r.v1y *= k; r.v2x *= k; r.v2y *= k;
    for (auto& o : r.offs) { o.first *= k; o.second *= k; }
    for (auto& c : r.coords) c *= k;
}

// restrict a generated layout to the subset of the model (as harness/c04w.cpp) and add the input classes of this unit
static void prepare(Case& C, Gen& gen, Rng& g, unsigned variant, Out* out) {
    ALib& L = C.L;
    C.cell_offset = variant & 1;
    C.f_max = variant & 2;
    C.f_top = variant & 4;
    C.f_bbox = variant & 8;
    bool offgrid = (variant & 16) && L.unit == L.precision;
    C.D = offgrid ? 4 : 1;
    for (auto& c : L.cells) {
        for (auto& p : c.polys) {
            if (p.circle) {
                p.circle = false;
                p.pts = {{p.cx, p.cy}, {p.cx + p.cr, p.cy}, {p.cx, p.cy + p.cr}};
                p.shape = "triangle";
            }
            if (g.chance(3)) p.pts.resize(1 + g.below(2));
            if (g.chance(4)) p.pts.push_back(p.pts.back());
        }
        for (auto& p : c.paths) {
            p.robust = false;
            clear_outline(p, 0);
            if (g.chance(20) && !p.els.empty()) {   // up to four elements
                int extra = 1 + (int)g.below(2);
                for (int k = 0; k < extra; k++) {
                    APathEl e = p.els[g.below(p.els.size())];
                    e.layer = (uint32_t)g.below(64);
                    p.els.push_back(e);
                }
                if (out) out->count("class:multi-element-path");
            }
            for (auto& e : p.els) e.width &= ~(int64_t)1;
            if (g.chance(3)) p.pts.resize(1);
        }
    }
    // references to shared children and by name, more often than the generator does
    for (size_t i = 0; i + 1 < L.cells.size(); i++) {
        if (!g.chance(35)) continue;
        ARef r;
        r.how = g.chance(60) ? 0 : 1;
        r.target = L.cells[(size_t)g.range((int64_t)i + 1, (int64_t)L.cells.size() - 1)].name;
        r.x = gen.coord();
        r.y = gen.coord();
        r.quarter = true;
        r.k = (int)g.range(-4, 4);
        r.refl = g.coin();
        r.rep = gen.rep(40, false);
        L.cells[i].refs.push_back(r);
        if (out) out->count("class:extra-reference");
    }
    if (g.chance(6)) {
        L.cells.clear();
        if (out) out->count("class:no-cells");
    }
    // the Cell objects outside the library get geometry of their own (no references)
    for (auto& n : L.outside) {
        ACell c;
        c.name = n;
        int np = (int)g.below(3), nl = (int)g.below(2), npa = (int)g.below(2);
        for (int k = 0; k < np; k++) {
            APoly p = gen.polygon();
            if (p.circle) { p.circle = false; p.pts = {{p.cx, p.cy}, {p.cx + p.cr, p.cy}, {p.cx, p.cy + p.cr}}; }
            c.polys.push_back(p);
        }
        for (int k = 0; k < nl; k++) c.labels.push_back(gen.label());
        for (int k = 0; k < npa; k++) {
            APath p = gen.path(false);
            p.robust = false;
            clear_outline(p, 0);
            for (auto& e : p.els) e.width &= ~(int64_t)1;
            c.paths.push_back(p);
        }
        C.outside.push_back(c);
    }
    auto all_cells = [&](std::function<void(ACell&)> f) {
        for (auto& c : L.cells) f(c);
        for (auto& c : C.outside) f(c);
    };
    if (C.f_bbox) {
        all_cells([&](ACell& c) {
            for (auto& p : c.paths) {
                if (p.pts.size() < 2) continue;
                P2 a = p.pts[0], b = p.pts[1];
                int64_t d = b.first != a.first ? b.first - a.first : b.second - a.second;
                if (d == 0) d = 7;
                p.pts.clear();
                p.pts.push_back(a);
                p.pts.push_back(g.coin() ? P2(a.first + d, a.second) : P2(a.first, a.second + d));
            }
            for (auto& r : c.refs) {
                // every reference a quarter turn with an integer magnification: the exact box is then an integer box
                r.quarter = true;
                r.mag = g.chance(70) ? 1.0 : (double)g.range(2, 3);
            }
        });
    }
    if (offgrid) {
        // the numbers of the layout become numerators over 4.  Paths and the explicit repetition kinds stay on the grid
        // (oasis_write_repetition rounds DIFFERENCES of explicit offsets; path outlines are compared on the grid), a
        // lattice spacing of -1/4 would be written with the sign test on the unrounded value: avoided
        all_cells([&](ACell& c) {
            for (auto& p : c.paths) {
                for (auto& q : p.pts) { q.first *= 4; q.second *= 4; }
                for (auto& e : p.els) { e.width *= 4; e.e0 *= 4; e.e1 *= 4; }
                scale_rep(p.rep, 4);
            }
            auto fix = [&](ARep& r) {
                if (r.kind >= 3) scale_rep(r, 4);
                else {
                    int64_t* v[] = {&r.sx, &r.sy, &r.v1x, &r.v1y, &r.v2x, &r.v2y};
                    for (auto q : v)
                        if (*q == -1) *q = -2;
                }
            };
            for (auto& p : c.polys) fix(p.rep);
            for (auto& p : c.labels) fix(p.rep);
            for (auto& p : c.refs) fix(p.rep);
            // Reference::repeat_and_transform multiplies by cos(rotation) and sin(rotation) from libm: cos(pi / 2) = 6e-17, not 0.
            // On the grid that is far below half a grid step; off the grid a box corner that is EXACTLY half a step from two
            // grid points is then rounded by the sign of that error.  The model has the exact 0 and +-1, so Cell-typed
            // references stay unrotated in the off-grid cases that ask for bounding boxes
            if (C.f_bbox)
                for (auto& r : c.refs)
                    if (r.how == 0 || r.how == 3) r.k = 0;
        });
        if (out) out->count("class:off-grid");
    }
    // strings longer than the 28 bytes S_MAX_STRING_LENGTH starts from: cell names, label texts, property names and values
    if (g.chance(30)) {
        auto longer = [&](std::string& t) { t += gen.nstring(20, 40); };
        auto props_longer = [&](AProps& ps) {
            for (auto& p : ps) {
                if (p.name == "S_GDS_PROPERTY" || oas_standard_name(p.name) || !g.chance(30)) continue;
                if (g.coin()) longer(p.name);
                else
                    for (auto& v : p.v)
                        if (v.t == 3) { longer(v.s); break; }
            }
        };
        props_longer(L.props);
        for (auto& c : L.cells) {
            if (g.chance(20)) {
                std::string old = c.name, nn = c.name + gen.nstring(20, 40);
                bool clash = false;
                for (auto& d : L.cells) clash = clash || d.name == nn;
                if (!clash) {
                    for (auto& d : L.cells)
                        for (auto& r : d.refs)
                            if (r.target == old && r.how <= 1) r.target = nn;
                    c.name = nn;
                }
            }
            props_longer(c.props);
            for (auto& p : c.polys) props_longer(p.props);
            for (auto& p : c.paths) props_longer(p.props);
            for (auto& p : c.refs) props_longer(p.props);
            for (auto& t : c.labels) {
                if (g.chance(30)) longer(t.text);
                props_longer(t.props);
            }
        }
        if (out) out->count("class:long-strings");
    }
    // a Cell object outside the library that carries the NAME of a library cell, with a Cell-typed reference to it
    // (Library::top_level keys its map by name).  Not with the BOUNDING_BOX flag: the GeometryInfo cache is keyed by name too
    if (!C.f_bbox && !C.outside.empty() && L.cells.size() >= 2 && g.chance(12)) {
        size_t j = g.below(C.outside.size()), i = g.below(L.cells.size());
        size_t k = (i + 1 + g.below(L.cells.size() - 1)) % L.cells.size();
        C.twin[C.outside[j].name] = L.cells[i].name;
        ARef r;
        r.how = 3;
        r.target = C.outside[j].name;
        r.x = gen.coord();
        r.y = gen.coord();
        r.quarter = true;
        r.k = (int)g.range(-4, 4);
        L.cells[k].refs.push_back(r);
        if (out) out->count("class:outside-twin-name");
    }
    // user properties with the writer's reserved names
    if (g.chance(30)) insert_reserved(gen, g, L.props, false, out);
    if (g.chance(6)) {   // the library's list made ONLY of reserved names (remove_property all-match, fixed by b762f5e)
        L.props.clear();
        insert_reserved(gen, g, L.props, false, out);
        if (out) out->count("class:only-reserved-lib-props");
    }
    for (auto& c : L.cells) {
        if (g.chance(20)) insert_reserved(gen, g, c.props, true, out);
        if (g.chance(4)) {
            c.props.clear();
            insert_reserved(gen, g, c.props, true, out);
        }
    }
    if (L.cells.size() >= 2 && g.chance(5) && !C.f_top && !C.f_bbox) {
        // duplicate cell name (see harness/c04w.cpp): both ACells end up in the LAST Cell object
        ACell& first = L.cells.front();
        ACell& last = L.cells.back();
        std::string old = last.name;
        for (auto& c : L.cells)
            for (auto& r : c.refs)
                if (r.target == old) r.target = first.name;
        last.name = first.name;
        last.polys.insert(last.polys.begin(), first.polys.begin(), first.polys.end());
        last.paths.insert(last.paths.begin(), first.paths.begin(), first.paths.end());
        last.labels.insert(last.labels.begin(), first.labels.begin(), first.labels.end());
        last.refs.insert(last.refs.begin(), first.refs.begin(), first.refs.end());
        first.polys.clear();
        first.paths.clear();
        first.labels.clear();
        first.refs.clear();
        first.props.clear();
        if (out) out->count("class:duplicate-cell-name");
    }
}

// ------------------------------------------------------------------ truth, from the abstract layout alone
struct IBox {
    bool empty = true;
    int64_t x0 = 0, y0 = 0, x1 = 0, y1 = 0;
    void add(int64_t x, int64_t y) {
        if (empty) { empty = false; x0 = x1 = x; y0 = y1 = y; return; }
        if (x < x0) x0 = x;
        if (x > x1) x1 = x;
        if (y < y0) y0 = y;
        if (y > y1) y1 = y;
    }
    void add(const IBox& b, int64_t dx, int64_t dy) {
        if (b.empty) return;
        add(b.x0 + dx, b.y0 + dy);
        add(b.x1 + dx, b.y1 + dy);
    }
};
static int64_t rnd(int64_t n, int64_t D) {   // nearest integer to n / D, halves away from zero
    if (D == 1) return n;
    int64_t a = n < 0 ? -n : n;
    int64_t q = (2 * a + D) / (2 * D);
    return n < 0 ? -q : q;
}
static std::vector<P2> rounded_offsets(const ARep& r, int64_t D) {
    ARep q = r;
    q.sx = rnd(r.sx, D); q.sy = rnd(r.sy, D); q.v1x = rnd(r.v1x, D); q.v1y = rnd(r.v1y, D); q.v2x = rnd(r.v2x, D); q.v2y = rnd(r.v2y, D);
    for (auto& o : q.offs) { o.first = rnd(o.first, D); o.second = rnd(o.second, D); }
    for (auto& c : q.coords) c = rnd(c, D);
    std::vector<P2> v = q.offsets();
    if (v.empty()) v.push_back(P2(0, 0));
    return v;
}
// the geometry of one cell AS THE FILE HOLDS IT (every field rounded on its own), placements expanded; by_name: follow
// Name-typed references to cells of the library as well (the file has a PLACEMENT for them)
static IBox file_box(const Case& C, const ACell& c, bool by_name, int depth = 0) {
    IBox b;
    int64_t D = C.D;
    if (depth > 12) return b;
    for (auto& p : c.polys) {
        IBox e;
        for (auto& v : p.pts) e.add(rnd(v.first, D), rnd(v.second, D));
        for (auto& o : rounded_offsets(p.rep, D)) b.add(e, o.first, o.second);
    }
    for (auto& t : c.labels) {
        IBox e;
        e.add(rnd(t.x, D), rnd(t.y, D));
        for (auto& o : rounded_offsets(t.rep, D)) b.add(e, o.first, o.second);
    }
    for (auto& p : c.paths) {
        if (p.pts.size() != 2) continue;
        for (auto& el : p.els) {
            // the region of an OASIS PATH with two points: the rectangle of half width hw around the segment, lengthened by
            // the start / end extension (negative: shortened).  Corner points of the outline gdstk draws:
            int64_t hw = rnd(el.width / 2, D);
            int64_t e0 = el.end == 0 ? 0 : el.end == 2 ? hw : rnd(el.e0, D), e1 = el.end == 0 ? 0 : el.end == 2 ? hw : rnd(el.e1, D);
            int64_t ax = rnd(p.pts[0].first, D), ay = rnd(p.pts[0].second, D), bx = rnd(p.pts[1].first, D), by = rnd(p.pts[1].second, D);
            IBox e;
            bool horiz = ay == by;
            int64_t s = horiz ? (bx > ax ? 1 : -1) : (by > ay ? 1 : -1);
            auto along = [&](int64_t t) {
                if (horiz) { e.add(t, ay - hw); e.add(t, ay + hw); }
                else { e.add(ax - hw, t); e.add(ax + hw, t); }
            };
            int64_t a = horiz ? ax : ay, z = horiz ? bx : by;
            along(a - s * e0);
            if (el.end != 0 && e0 > 0) along(a);
            along(z + s * e1);
            if (el.end != 0 && e1 > 0) along(z);
            for (auto& o : rounded_offsets(p.rep, D)) b.add(e, o.first, o.second);
        }
    }
    for (auto& r : c.refs) {
        const ACell* ch = NULL;
        if (r.how == 0) ch = &C.L.cells[(size_t)C.lib_index(r.target)];
        else if (r.how == 3) ch = &C.outside[(size_t)C.out_index(r.target)];
        else if (by_name && C.lib_index(r.target) >= 0) ch = &C.L.cells[(size_t)C.lib_index(r.target)];
        if (!ch) continue;
        IBox cb = file_box(C, *ch, by_name, depth + 1);
        if (cb.empty) continue;
        if (!r.quarter || r.mag != floor(r.mag)) continue;   // not generated under the BOUNDING_BOX flag
        int64_t m = (int64_t)r.mag;
        int k = ((r.k % 4) + 4) % 4;
        IBox e;
        int64_t cx[2] = {cb.x0, cb.x1}, cy[2] = {cb.y0, cb.y1};
        for (int i = 0; i < 2; i++)
            for (int j = 0; j < 2; j++) {
                int64_t x = cx[i] * m, y = cy[j] * m;
                if (r.refl) y = -y;
                int64_t X = k == 0 ? x : k == 1 ? -y : k == 2 ? -x : y;
                int64_t Y = k == 0 ? y : k == 1 ? x : k == 2 ? -y : -x;
                e.add(X + rnd(r.x, D), Y + rnd(r.y, D));
            }
        for (auto& o : rounded_offsets(r.rep, D)) b.add(e, o.first, o.second);
    }
    return b;
}

struct Truth {
    std::vector<std::pair<std::string, std::string>> fails;   // (key, text)
    void fail(const std::string& k, const std::string& s) { fails.push_back({k, s}); }
};

static void truth(const Case& C, const std::vector<uint8_t>& file, Truth& t) {
    using namespace oscan;
    const ALib& L = C.L;
    Scan sc = scan_file(file);
    if (!sc.ok) { t.fail("oas-std-truth", "scanner: " + sc.error); return; }
    std::map<uint64_t, std::string> propname, propstring, cellname;
    uint64_t ps_next = 0, cn_next = 0, pn_next = 0;
    size_t max_table_string = 0;
    for (auto& r : sc.records) {
        if (r.id == 3) cellname[cn_next++] = r.name;
        if (r.id == 4) cellname[r.ref] = r.name;
        if (r.id == 7) propname[pn_next++] = r.name;
        if (r.id == 8) propname[r.ref] = r.name;
        if (r.id == 9) propstring[ps_next++] = r.name;
        if (r.id == 10) propstring[r.ref] = r.name;
        if (r.id >= 3 && r.id <= 10) max_table_string = std::max(max_table_string, r.name.size());
    }
    auto pname = [&](const RawProp& p) { return p.name_is_ref ? (propname.count(p.name_ref) ? propname[p.name_ref] : std::string("?")) : p.name; };
    std::vector<size_t> cell_offsets;
    std::vector<std::string> cell_names;
    for (auto& r : sc.records)
        if (r.id == 13 || r.id == 14) {
            cell_offsets.push_back(r.file_offset);
            cell_names.push_back(r.id == 14 ? r.name : (cellname.count(r.ref) ? cellname[r.ref] : std::string("?")));
        }
    if (cell_names.size() != L.cells.size()) t.fail("oas-std-truth", "number of CELL records");

    std::vector<std::string> top_listed;
    std::map<std::string, std::vector<uint64_t>> lib_uint;
    std::map<std::string, int> lib_count;
    for (auto& p : sc.props) {
        std::string n = pname(p);
        const Rec& host = sc.records[p.after_record];
        if (host.id != 1) continue;
        lib_count[n]++;
        if (n == "S_TOP_CELL")
            for (auto& v : p.values) top_listed.push_back(v.type >= 13 ? (propstring.count(v.u) ? propstring[v.u] : "?") : v.s);
        if (p.values.size() == 1 && p.values[0].type == 8) lib_uint[n].push_back(p.values[0].u);
    }
    auto one = [&](const char* n, uint64_t& v) {
        if (lib_count[n] != 1 || lib_uint[n].size() != 1) { t.fail("oas-std-truth", std::string(n) + " present " + std::to_string(lib_count[n]) + " times"); return false; }
        v = lib_uint[n][0];
        return true;
    };
    if (C.f_top) {
        std::set<std::string> referenced, referenced_by_pointer;
        for (auto& c : L.cells)
            for (auto& r : c.refs) {
                referenced.insert(r.how == 3 ? C.wname(r.target) : r.target);
                if (r.how == 0) referenced_by_pointer.insert(r.target);
            }
        std::multiset<std::string> want, want_ptr_only, got(top_listed.begin(), top_listed.end());
        for (auto& c : L.cells) {
            if (!referenced.count(c.name)) want.insert(c.name);
            if (!referenced_by_pointer.count(c.name)) want_ptr_only.insert(c.name);
        }
        if (got != want) {
            // with a Cell object outside the library that carries the name of a library cell, a Cell-typed reference to it is
            // written as a PLACEMENT of the library cell while top_level compares pointers found under the NAME: the last
            // Cell-typed reference of that name decides (name-keyed map, the recorded C16 behaviour)
            std::map<std::string, long> last;   // written name -> object (library index, or -1 - outside index)
            for (auto& c : L.cells)
                for (auto& r : c.refs) {
                    if (r.how == 0) last[r.target] = C.lib_index(r.target);
                    if (r.how == 3) last[C.wname(r.target)] = -1 - C.out_index(r.target);
                }
            std::multiset<std::string> want_keyed;
            for (size_t i = 0; i < L.cells.size(); i++)
                if (!last.count(L.cells[i].name) || last[L.cells[i].name] != (long)i) want_keyed.insert(L.cells[i].name);
            if (got == want_ptr_only) t.fail("write_oas:top-cell-ignores-name-references", "S_TOP_CELL lists a cell that a PLACEMENT by name designates");
            else if (!C.twin.empty() && got == want_keyed) t.fail("write_oas:top-cell-outside-cell-of-same-name", "S_TOP_CELL lists a cell that a PLACEMENT designates through a same-named Cell object outside the library");
            else t.fail("oas-std-truth", "S_TOP_CELL lists " + std::to_string(got.size()) + " cells, " + std::to_string(want.size()) + " are unreferenced");
        }
    }
    if (C.f_bbox) {
        uint64_t v = 0;
        if (one("S_BOUNDING_BOXES_AVAILABLE", v) && v != 2) t.fail("oas-std-truth", "S_BOUNDING_BOXES_AVAILABLE != 2");
    }
    if (C.f_max) {
        uint64_t a = 0, b = 0, smax = 0, pmax = 0, hmax = 0;
        if (one("S_MAX_SIGNED_INTEGER_WIDTH", a) && one("S_MAX_UNSIGNED_INTEGER_WIDTH", b) && (a != 8 || b != 8)) t.fail("oas-std-truth", "S_MAX_*_INTEGER_WIDTH");
        if (one("S_MAX_STRING_LENGTH", smax)) {
            if (smax < max_table_string) t.fail("oas-std-truth", "S_MAX_STRING_LENGTH " + std::to_string(smax) + " below a table string of " + std::to_string(max_table_string));
            else if (smax < sc.max_inline_string) t.fail("write_oas:max-string-length-ignores-placement-names", "S_MAX_STRING_LENGTH below an inline string");
        }
        uint64_t want_p = 0, want_h = 0, want_h_elements = 0;
        for (auto& c : L.cells) {
            for (auto& p : c.polys) want_p = std::max<uint64_t>(want_p, p.pts.size());
            for (auto& p : c.paths)
                if (p.pts.size() >= 2) {
                    want_h = std::max<uint64_t>(want_h, p.pts.size());
                    want_h_elements = std::max<uint64_t>(want_h_elements, p.pts.size() * p.els.size());
                }
        }
        if (one("S_POLYGON_MAX_VERTICES", pmax)) {
            if (pmax != want_p) t.fail("oas-std-truth", "S_POLYGON_MAX_VERTICES " + std::to_string(pmax) + " != " + std::to_string(want_p));
            if (pmax < sc.max_polygon_vertices) t.fail("oas-std-truth", "S_POLYGON_MAX_VERTICES below a POLYGON record of the file");
        }
        if (one("S_PATH_MAX_VERTICES", hmax)) {
            if (hmax < sc.max_path_vertices || hmax < want_h) t.fail("oas-std-truth", "S_PATH_MAX_VERTICES below a PATH record of the file");
            else if (hmax != want_h) {
                if (hmax == want_h_elements) t.fail("write_oas:path-max-vertices-counts-elements", "S_PATH_MAX_VERTICES " + std::to_string(hmax) + " but the longest PATH record has " + std::to_string(want_h) + " vertices");
                else t.fail("oas-std-truth", "S_PATH_MAX_VERTICES " + std::to_string(hmax) + " != " + std::to_string(want_h));
            }
        }
    }
    // per cell: S_CELL_OFFSET and S_BOUNDING_BOX on the CELLNAME record
    std::map<std::string, int> n_off, n_box;
    for (auto& p : sc.props) {
        const Rec& host = sc.records[p.after_record];
        if (host.id != 3 && host.id != 4) continue;
        std::string n = pname(p);
        size_t ci = (size_t)-1;
        for (size_t k = 0; k < cell_names.size(); k++)
            if (cell_names[k] == host.name) ci = k;
        if (ci == (size_t)-1) continue;
        if (n == "S_CELL_OFFSET" && C.cell_offset) {
            n_off[host.name]++;
            if (p.values.size() != 1 || p.values[0].type != 8 || p.values[0].u != cell_offsets[ci])
                t.fail("oas-std-truth", "S_CELL_OFFSET of " + host.name + " is not the position of its CELL record");
        }
        if (n == "S_BOUNDING_BOX" && C.f_bbox) {
            n_box[host.name]++;
            if (p.values.size() != 5 || p.values[0].type != 8 || p.values[0].u != 0 || p.values[1].type != 9 || p.values[2].type != 9 ||
                p.values[3].type != 8 || p.values[4].type != 8) { t.fail("oas-std-truth", "S_BOUNDING_BOX shape"); continue; }
            int li = C.lib_index(host.name);
            if (li < 0) continue;
            auto same = [&](const IBox& b) {
                int64_t x = b.empty ? 0 : b.x0, y = b.empty ? 0 : b.y0;
                uint64_t w = b.empty ? 0 : (uint64_t)(b.x1 - b.x0), h = b.empty ? 0 : (uint64_t)(b.y1 - b.y0);
                return p.values[1].i == x && p.values[2].i == y && p.values[3].u == w && p.values[4].u == h;
            };
            IBox all = file_box(C, L.cells[(size_t)li], true), ptr = file_box(C, L.cells[(size_t)li], false);
            if (same(all)) continue;
            std::string got = "(" + hex_i64(p.values[1].i) + "," + hex_i64(p.values[2].i) + "," + hex_u64(p.values[3].u) + "," + hex_u64(p.values[4].u) + ")";
            if (same(ptr)) t.fail("write_oas:bounding-box-ignores-name-references", "S_BOUNDING_BOX of " + host.name + " = " + got + " leaves out a PLACEMENT by name");
            else if (C.D != 1) t.fail("write_oas:bounding-box-of-unrounded-geometry", "S_BOUNDING_BOX of " + host.name + " = " + got + " is not the box of the coordinates in the file");
            else t.fail("oas-std-truth", "S_BOUNDING_BOX of " + host.name + " = " + got + " but the geometry spans (" + hex_i64(all.x0) + "," + hex_i64(all.y0) + ")-(" + hex_i64(all.x1) + "," + hex_i64(all.y1) + ")");
        }
    }
    for (auto& c : L.cells) {
        int same_name = 0;
        for (auto& d : L.cells) same_name += d.name == c.name;
        if (C.cell_offset && n_off[c.name] != same_name) t.fail("oas-std-truth", "S_CELL_OFFSET count of " + c.name);
        if (C.f_bbox && n_box[c.name] != same_name) t.fail("oas-std-truth", "S_BOUNDING_BOX count of " + c.name);
    }
}

static void run_case(Out& out, uint64_t ls, unsigned variant) {
    Rng lg(ls);
    Gen gen(lg, true);
    Case C;
    C.L = gen.layout();
    prepare(C, gen, lg, variant, &out);
    const ALib& L = C.L;
    std::string text = serialise(C);
    char head[64];
    snprintf(head, sizeof head, "%llu %u | ", (unsigned long long)ls, variant);
    std::string id = out.add("std", head + text);
    out.count(std::string("flags:") + (C.cell_offset ? "O" : "-") + (C.f_max ? "M" : "-") + (C.f_top ? "T" : "-") + (C.f_bbox ? "B" : "-"));
    for (auto& c : L.cells) {
        out.count("polygons", (long)c.polys.size());
        out.count("paths", (long)c.paths.size());
        out.count("labels", (long)c.labels.size());
        for (auto& r : c.refs) out.count("ref-kind:" + std::to_string(r.how));
    }
    out.count("outside-cells", (long)C.outside.size());
    auto work = [&](FILE* o) {
        set_error_logger(NULL);
        // library cells and outside cells are built together (references by Cell pointer resolve), then the outside cells are
        // taken out of the library again
        ALib all = L;
        all.outside.clear();
        for (auto& c : C.outside) all.cells.push_back(c);
        if (C.D != 1) all.unit = all.precision * (double)C.D;   // build_library divides by unit / precision
        Built b;
        build_library(all, b);
        b.lib.unit = L.unit;
        b.lib.cell_array.count = L.cells.size();
        for (size_t j = 0; j < C.outside.size(); j++) {
            Cell* oc = b.lib.cell_array.items[L.cells.size() + j];
            std::string fin = C.wname(C.outside[j].name);
            if (fin != oc->name) {
                free_allocation(oc->name);
                oc->name = copy_string(fin.c_str(), NULL);
            }
        }
        for (uint64_t ci = 0; ci < b.lib.cell_array.count + C.outside.size(); ci++) {
            Cell* c = b.lib.cell_array.items[ci];
            for (uint64_t k = 0; k < c->flexpath_array.count; k++) c->flexpath_array[k]->simple_path = true;
        }
        unsigned flags = C.flags();
        std::string f = g_outdir + "/s1.oas", f2 = g_outdir + "/s2.oas";
        unlink(f.c_str());
        unlink(f2.c_str());
        b.lib.write_oas(f.c_str(), 0.0, 0, (uint16_t)flags);
        std::vector<uint8_t> file = slurp(f);
        b.lib.write_oas(f2.c_str(), 0.0, 0, (uint16_t)flags);
        std::vector<uint8_t> file2 = slurp(f2);
        fputs(hex_bytes(file.data(), file.size()).c_str(), o);
        if (file2 == file) fputs(" same", o);
        else { fputs(" second:", o); fputs(hex_bytes(file2.data(), file2.size()).c_str(), o); }
        fputc('\n', o);
        Truth t;
        truth(C, file, t);
        // a failure that no recorded finding explains is reported first
        size_t pick = 0;
        for (size_t k = 0; k < t.fails.size(); k++)
            if (t.fails[k].first == "oas-std-truth") { pick = k; break; }
        if (t.fails.empty()) fputs("ok", o);
        else fprintf(o, "FAIL %s %s", t.fails[pick].first.c_str(), t.fails[pick].second.c_str());
    };
    if (getenv("OAS_STD_NOFORK")) {
        work(stdout);
        return;
    }
    std::string res = in_child(work, 30);
    size_t nl = res.find('\n');
    if (nl == std::string::npos) {
        out.I(id, res);
        return;
    }
    out.I(id, res.substr(0, nl));
    std::string p = res.substr(nl + 1);
    out.P(id, p);
    if (p.compare(0, 4, "FAIL") == 0) out.count("finding:" + p.substr(5, p.find(' ', 5) - 5));
}

int main(int argc, char** argv) {
    if (argc < 4) {
        fprintf(stderr, "usage: oas_std seed tier outdir [corpus] [replay]\n");
        return 2;
    }
    uint64_t seed = strtoull(argv[1], NULL, 10);
    bool thorough = strcmp(argv[2], "thorough") == 0;
    g_outdir = argv[3];
    set_error_logger(NULL);
    Out out;
    out.open(argv[3]);
    auto from_payload = [&](const std::string& p) {
        unsigned long long ls = 0;
        unsigned variant = 0;
        if (sscanf(p.c_str(), "%llu %u", &ls, &variant) == 2) run_case(out, ls, variant);
    };
    if (argc > 5) {
        std::string k, p;
        if (load_replay(argv[5], k, p) && k == "std") from_payload(p);
        out.close();
        return 0;
    }
    for (auto& c : load_corpus(argc > 4 ? argv[4] : NULL))
        if (c.first == "std") from_payload(c.second);
    Rng g(seed * 0x100000001B3ULL + 12345);
    int layouts = thorough ? 16000 : 400;
    for (int li = 0; li < layouts; li++) {
        uint64_t ls = g.next() >> 1;
        run_case(out, ls, (unsigned)(li & 31));
    }
    out.close();
    return 0;
}
