// Shared by the C02 / C04 harnesses: an abstract layout on the integer grid (independent of gdstk's
// in-memory structures), a seeded generator for it, a builder that turns it into a gdstk Library, the
// canonical dump computed from the abstract layout (the expectation) and the canonical dump computed
// from a gdstk Library (what the implementation holds after read_oas).
//
// Canonical dump: one line per library / cell / element, sections separated by '|':
//   LIB|props
//   CELL name|props
//   POLY layer type|n x y ...|rep|props            vertex cycle, canonical rotation+orientation
//   PATH layer type|hw e0 e1|n x y ...|rep|props   centre line without collinear points, half width, extensions
//   LABEL layer type|x y text|rep|props
//   REF name|x y rot mag refl|rep|props            rot in 1e-6 degree mod 360, mag as the bits of the double
//   rep   = '-' or 'n x y ...'  : the sorted offsets the repetition denotes (including (0,0))
//   props = '-' or 'name=Uhex,Ihex,Rbits,Shexbytes;name=...' in list order, standard S_* properties left out
// all integers in hex (hex_i64).  Lines of a cell are sorted; cells are sorted by name.
#pragma once
#include <math.h>
#include <algorithm>
#include <set>
#include <gdstk/gdstk.hpp>
#include "common.hpp"

namespace oasl {
using namespace gdstk;

typedef std::pair<int64_t, int64_t> P2;

// ------------------------------------------------------------------ abstract layout
struct ARep {
    int kind = 0;  // 0 none 1 rectangular 2 regular 3 explicit 4 explicit-x 5 explicit-y
    uint64_t cols = 0, rows = 0;
    int64_t sx = 0, sy = 0, v1x = 0, v1y = 0, v2x = 0, v2y = 0;
    std::vector<P2> offs;
    std::vector<int64_t> coords;
    std::vector<P2> offsets() const {
        std::vector<P2> r;
        switch (kind) {
            case 1:
                for (uint64_t i = 0; i < cols; i++)
                    for (uint64_t j = 0; j < rows; j++) r.push_back(P2((int64_t)i * sx, (int64_t)j * sy));
                break;
            case 2:
                for (uint64_t i = 0; i < cols; i++)
                    for (uint64_t j = 0; j < rows; j++)
                        r.push_back(P2((int64_t)i * v1x + (int64_t)j * v2x, (int64_t)i * v1y + (int64_t)j * v2y));
                break;
            case 3:
                r.push_back(P2(0, 0));
                for (auto& o : offs) r.push_back(o);
                break;
            case 4:
                r.push_back(P2(0, 0));
                for (auto c : coords) r.push_back(P2(c, 0));
                break;
            case 5:
                r.push_back(P2(0, 0));
                for (auto c : coords) r.push_back(P2(0, c));
                break;
        }
        return r;
    }
    // the input class of the suspected defect: explicit-x / explicit-y list whose smallest coordinate is negative
    bool negative_explicit() const {
        if (kind != 4 && kind != 5) return false;
        for (auto c : coords)
            if (c < 0) return true;
        return false;
    }
};

struct APV {
    int t = 0;  // 0 unsigned 1 integer 2 real 3 string
    uint64_t u = 0;
    int64_t i = 0;
    double r = 0;
    std::string s;
};
struct AProp {
    std::string name;
    std::vector<APV> v;
};
typedef std::vector<AProp> AProps;

struct APoly {
    uint32_t layer = 0, type = 0;
    std::vector<P2> pts;  // grid
    bool circle = false;  // generated with gdstk's ellipse(): pts empty, centre/radius on the grid
    int64_t cx = 0, cy = 0, cr = 0, ctol = 1;
    std::string shape;  // generator class, for the statistics
    ARep rep;
    AProps props;
};
struct APathEl {
    uint32_t layer = 0, type = 0;
    int64_t width = 0;  // full width, grid
    int end = 0;        // 0 flush 2 half-width 3 extended
    int64_t e0 = 0, e1 = 0;
};
struct APath {
    bool robust = false;
    bool outline = false;  // non-simple path: written as the polygons of its outline (one axis-parallel segment, even widths)
    std::vector<APathEl> els;
    std::vector<P2> pts;
    ARep rep;
    AProps props;
};
struct ALabel {
    std::string text;
    uint32_t layer = 0, type = 0;
    int64_t x = 0, y = 0;
    int anchor = 8;
    double rot = 0, mag = 1;
    bool refl = false;
    ARep rep;
    AProps props;
};
struct ARef {
    int how = 0;  // 0 Cell pointer to a library cell, 1 name of a library cell, 2 name of a cell outside,
                  // 3 Cell pointer to a cell outside the library
    std::string target;
    int64_t x = 0, y = 0;
    bool quarter = true;
    int k = 0;       // quarter turns -4..4 when quarter
    int64_t q = 0;   // angle in 1/64 degree otherwise
    double mag = 1;
    bool refl = false;
    ARep rep;
    AProps props;
    double radians() const { return quarter ? k * 0.5 * M_PI : (q / 64.0) * (M_PI / 180.0); }
    int64_t microdeg() const {
        int64_t v = quarter ? (int64_t)k * 90000000LL : q * 15625LL;
        v %= 360000000LL;
        if (v < 0) v += 360000000LL;
        return v;
    }
};
struct ACell {
    std::string name;
    std::vector<APoly> polys;
    std::vector<APath> paths;
    std::vector<ALabel> labels;
    std::vector<ARef> refs;
    AProps props;
};
struct ALib {
    double unit = 1e-6, precision = 1e-9;
    std::vector<ACell> cells;
    std::vector<std::string> outside;  // names of cells that exist but are not in the library
    AProps props;
    double scaling() const { return unit / precision; }
};

// ------------------------------------------------------------------ text helpers
static inline bool plain_name(const std::string& s) {
    if (s.empty()) return false;
    for (unsigned char c : s)
        if (!(isalnum(c) || c == '_' || c == '.' || c == '$')) return false;
    return true;
}
static inline std::string show_str(const std::string& s) {
    if (plain_name(s)) return s;
    return "0x" + hex_bytes((const uint8_t*)s.data(), s.size());
}
static inline bool oas_standard_name(const std::string& n) {
    static const char* names[] = {"S_MAX_SIGNED_INTEGER_WIDTH", "S_MAX_UNSIGNED_INTEGER_WIDTH", "S_MAX_STRING_LENGTH",
                                  "S_POLYGON_MAX_VERTICES",     "S_PATH_MAX_VERTICES",          "S_TOP_CELL",
                                  "S_BOUNDING_BOXES_AVAILABLE", "S_BOUNDING_BOX",               "S_CELL_OFFSET"};
    for (auto p : names)
        if (n == p) return true;
    return false;
}
// the input class of F6: a non-integer double whose reciprocal is an exact integer although 1/(1/x) != x
static inline bool recip_lossy(double x) {
    if (!(x == x) || x == 0 || trunc(x) == x) return false;
    double inv = 1.0 / x;
    if (!(trunc(inv) == inv && fabs(inv) < 18446744073709551615.0)) return false;
    return 1.0 / inv != x;
}

static inline std::string props_text(const AProps& ps) {
    std::string s;
    for (auto& p : ps) {
        if (oas_standard_name(p.name)) continue;
        if (!s.empty()) s += ";";
        s += show_str(p.name) + "=";
        bool first = true;
        for (auto& v : p.v) {
            if (!first) s += ",";
            first = false;
            switch (v.t) {
                case 0: s += "U" + hex_u64(v.u); break;
                case 1: s += "I" + hex_i64(v.i); break;
                case 2: s += "R" + hex_dbl(v.r); break;
                default: s += "S" + hex_bytes((const uint8_t*)v.s.data(), v.s.size());
            }
        }
    }
    return s.empty() ? "-" : s;
}
static inline bool props_recip(const AProps& ps) {
    for (auto& p : ps)
        for (auto& v : p.v)
            if (v.t == 2 && recip_lossy(v.r)) return true;
    return false;
}
static inline std::string rep_text(std::vector<P2> offs) {
    if (offs.size() <= 1) return "-";
    std::sort(offs.begin(), offs.end());
    std::string s = hex_u64(offs.size());
    for (auto& o : offs) s += " " + hex_i64(o.first) + " " + hex_i64(o.second);
    return s;
}
static inline std::string pts_text(const std::vector<P2>& pts) {
    std::string s = hex_u64(pts.size());
    for (auto& p : pts) s += " " + hex_i64(p.first) + " " + hex_i64(p.second);
    return s;
}
// vertex cycle up to starting vertex and orientation: the lexicographically least of the 2n readings
static inline std::vector<P2> canon_cycle(const std::vector<P2>& in) {
    std::vector<P2> p;
    for (auto& v : in)
        if (p.empty() || p.back() != v) p.push_back(v);
    while (p.size() > 1 && p.front() == p.back()) p.pop_back();
    size_t n = p.size();
    if (n == 0) return p;
    std::vector<P2> best;
    for (int dir = 0; dir < 2; dir++)
        for (size_t s = 0; s < n; s++) {
            std::vector<P2> c(n);
            for (size_t i = 0; i < n; i++) c[i] = dir ? p[(s + n - i) % n] : p[(s + i) % n];
            if (best.empty() || c < best) best = c;
        }
    return best;
}
// open centre line: drop repeated points and interior points on a straight continuation
static inline std::vector<P2> canon_line(const std::vector<P2>& in) {
    std::vector<P2> p;
    for (auto& v : in)
        if (p.empty() || p.back() != v) p.push_back(v);
    bool changed = true;
    while (changed) {
        changed = false;
        for (size_t i = 1; i + 1 < p.size(); i++) {
            __int128 ax = p[i].first - p[i - 1].first, ay = p[i].second - p[i - 1].second;
            __int128 bx = p[i + 1].first - p[i].first, by = p[i + 1].second - p[i].second;
            if (ax * by - ay * bx == 0 && ax * bx + ay * by > 0) {
                p.erase(p.begin() + i);
                changed = true;
                break;
            }
        }
    }
    return p;
}

// ------------------------------------------------------------------ dump lines
struct Line {
    std::string text;
    // known-defect input classes this element belongs to: (finding key, index of the section it can alter)
    std::vector<std::pair<std::string, int>> cand;
};
static inline std::vector<std::string> split_sections(const std::string& s) {
    std::vector<std::string> v;
    size_t p = 0;
    while (true) {
        size_t q = s.find('|', p);
        if (q == std::string::npos) {
            v.push_back(s.substr(p));
            break;
        }
        v.push_back(s.substr(p, q - p));
        p = q + 1;
    }
    return v;
}
static inline std::string mask_sections(const std::string& s, const std::vector<int>& secs) {
    std::vector<std::string> v = split_sections(s);
    for (int i : secs)
        if (i >= 0 && (size_t)i < v.size()) v[i] = "*";
    std::string r;
    for (size_t i = 0; i < v.size(); i++) r += (i ? "|" : "") + v[i];
    return r;
}

struct Dump {
    // per cell name: header line + element lines (sorted when finished)
    std::vector<Line> lines;
    std::vector<std::string> texts() const {
        std::vector<std::string> v;
        for (auto& l : lines) v.push_back(l.text);
        return v;
    }
    std::string joined() const {
        std::string s;
        for (auto& l : lines) s += (s.empty() ? "" : " ;; ") + l.text;
        return s;
    }
};

static inline int64_t half_width_grid(int64_t width) { return (int64_t)llround(width / 2.0); }

// expectation, computed from the abstract layout alone
static inline Dump expected_dump(const ALib& L) {
    Dump d;
    {
        Line l;
        l.text = "LIB|" + props_text(L.props);
        if (props_recip(L.props)) l.cand.push_back({"oasis_write_real:reciprocal", 1});
        d.lines.push_back(l);
    }
    std::vector<const ACell*> cells;
    for (auto& c : L.cells) cells.push_back(&c);
    std::sort(cells.begin(), cells.end(), [](const ACell* a, const ACell* b) { return a->name < b->name; });
    for (auto cp : cells) {
        const ACell& c = *cp;
        std::vector<Line> ls;
        for (auto& p : c.polys) {
            Line l;
            std::vector<P2> pts = canon_cycle(p.pts);
            l.text = "POLY " + hex_u64(p.layer) + " " + hex_u64(p.type) + "|" + (p.circle ? std::string("circle") : pts_text(pts)) +
                     "|" + rep_text(p.rep.offsets()) + "|" + props_text(p.props);
            if (p.rep.negative_explicit()) l.cand.push_back({"oasis_write_repetition:negative-explicit", 2});
            if (props_recip(p.props)) l.cand.push_back({"oasis_write_real:reciprocal", 3});
            ls.push_back(l);
        }
        for (auto& p : c.paths)
            for (auto& e : p.els) {
                Line l;
                if (p.outline && p.robust) {
                    // taken from the built library by expected_with_circles (the sampled outline has interior collinear vertices)
                    l.text = "POLY " + hex_u64(e.layer) + " " + hex_u64(e.type) + "|robust-outline|" + rep_text(p.rep.offsets()) + "|" + props_text(p.props);
                    ls.push_back(l);
                    continue;
                }
                if (p.outline) {
                    // the outline of one axis-parallel segment: a rectangle, lengthened by the end extensions
                    int64_t h = e.width / 2;
                    int64_t x0 = p.pts[0].first, y0 = p.pts[0].second, x1 = p.pts[1].first, y1 = p.pts[1].second;
                    int64_t a0 = e.end == 0 ? 0 : e.end == 2 ? h : e.e0, a1 = e.end == 0 ? 0 : e.end == 2 ? h : e.e1;
                    // to_polygons keeps the two spine points on each side and adds the cap points beyond them
                    std::vector<P2> r;
                    if (y0 == y1) {
                        int64_t s = x1 > x0 ? 1 : -1;
                        if (a0 > 0) r.push_back(P2(x0 - s * a0, y0 - h));
                        r.push_back(P2(x0, y0 - h));
                        r.push_back(P2(x1, y0 - h));
                        if (a1 > 0) r.push_back(P2(x1 + s * a1, y0 - h));
                        if (a1 > 0) r.push_back(P2(x1 + s * a1, y0 + h));
                        r.push_back(P2(x1, y0 + h));
                        r.push_back(P2(x0, y0 + h));
                        if (a0 > 0) r.push_back(P2(x0 - s * a0, y0 + h));
                    } else {
                        int64_t s = y1 > y0 ? 1 : -1;
                        if (a0 > 0) r.push_back(P2(x0 - h, y0 - s * a0));
                        r.push_back(P2(x0 - h, y0));
                        r.push_back(P2(x0 - h, y1));
                        if (a1 > 0) r.push_back(P2(x0 - h, y1 + s * a1));
                        if (a1 > 0) r.push_back(P2(x0 + h, y1 + s * a1));
                        r.push_back(P2(x0 + h, y1));
                        r.push_back(P2(x0 + h, y0));
                        if (a0 > 0) r.push_back(P2(x0 + h, y0 - s * a0));
                    }
                    l.text = "POLY " + hex_u64(e.layer) + " " + hex_u64(e.type) + "|" + pts_text(canon_cycle(r)) + "|" +
                             rep_text(p.rep.offsets()) + "|" + props_text(p.props);
                    if (p.rep.negative_explicit()) l.cand.push_back({"oasis_write_repetition:negative-explicit", 2});
                    if (props_recip(p.props)) l.cand.push_back({"oasis_write_real:reciprocal", 3});
                    ls.push_back(l);
                    continue;
                }
                int64_t hw = half_width_grid(e.width);
                int64_t e0 = e.end == 0 ? 0 : e.end == 2 ? hw : e.e0;
                int64_t e1 = e.end == 0 ? 0 : e.end == 2 ? hw : e.e1;
                l.text = "PATH " + hex_u64(e.layer) + " " + hex_u64(e.type) + "|" + hex_i64(hw) + " " + hex_i64(e0) + " " +
                         hex_i64(e1) + "|" + pts_text(canon_line(p.pts)) + "|" + rep_text(p.rep.offsets()) + "|" +
                         props_text(p.props);
                if (p.robust && e.width != 0) l.cand.push_back({"RobustPath::to_oas:half-width", 1});
                if (p.rep.negative_explicit()) l.cand.push_back({"oasis_write_repetition:negative-explicit", 3});
                if (props_recip(p.props)) l.cand.push_back({"oasis_write_real:reciprocal", 4});
                ls.push_back(l);
            }
        for (auto& t : c.labels) {
            Line l;
            l.text = "LABEL " + hex_u64(t.layer) + " " + hex_u64(t.type) + "|" + hex_i64(t.x) + " " + hex_i64(t.y) + " " +
                     show_str(t.text) + "|" + rep_text(t.rep.offsets()) + "|" + props_text(t.props);
            if (t.rep.negative_explicit()) l.cand.push_back({"oasis_write_repetition:negative-explicit", 2});
            if (props_recip(t.props)) l.cand.push_back({"oasis_write_real:reciprocal", 3});
            ls.push_back(l);
        }
        for (auto& r : c.refs) {
            Line l;
            l.text = "REF " + show_str(r.target) + "|" + hex_i64(r.x) + " " + hex_i64(r.y) + " " + hex_i64(r.microdeg()) + " " +
                     hex_dbl(r.mag) + " " + (r.refl ? "1" : "0") + "|" + rep_text(r.rep.offsets()) + "|" + props_text(r.props);
            if (r.how == 3) l.cand.push_back({"write_oas:dangling-cell-ref", 0});
            if (recip_lossy(r.mag)) l.cand.push_back({"oasis_write_real:reciprocal", 1});
            if (r.rep.negative_explicit()) l.cand.push_back({"oasis_write_repetition:negative-explicit", 2});
            if (props_recip(r.props)) l.cand.push_back({"oasis_write_real:reciprocal", 3});
            ls.push_back(l);
        }
        std::sort(ls.begin(), ls.end(), [](const Line& a, const Line& b) { return a.text < b.text; });
        Line h;
        h.text = "CELL " + show_str(c.name) + "|" + props_text(c.props);
        if (props_recip(c.props)) h.cand.push_back({"oasis_write_real:reciprocal", 1});
        d.lines.push_back(h);
        for (auto& l : ls) d.lines.push_back(l);
    }
    return d;
}

// ------------------------------------------------------------------ gdstk -> abstract pieces
static inline AProps props_of(const Property* p) {
    AProps r;
    for (; p; p = p->next) {
        AProp a;
        a.name = p->name ? p->name : "";
        for (PropertyValue* v = p->value; v; v = v->next) {
            APV x;
            switch (v->type) {
                case PropertyType::UnsignedInteger: x.t = 0; x.u = v->unsigned_integer; break;
                case PropertyType::Integer: x.t = 1; x.i = v->integer; break;
                case PropertyType::Real: x.t = 2; x.r = v->real; break;
                default: x.t = 3; x.s = std::string((const char*)v->bytes, v->bytes ? v->count : 0);
            }
            a.v.push_back(x);
        }
        r.push_back(a);
    }
    return r;
}
static inline int64_t to_grid(double v, double scaling) { return (int64_t)llround(v * scaling); }
static inline std::vector<P2> rep_offsets_of(const Repetition& r, double scaling) {
    std::vector<P2> v;
    switch (r.type) {
        case RepetitionType::Rectangular:
            for (uint64_t i = 0; i < r.columns; i++)
                for (uint64_t j = 0; j < r.rows; j++)
                    v.push_back(P2(to_grid((double)i * r.spacing.x, scaling), to_grid((double)j * r.spacing.y, scaling)));
            break;
        case RepetitionType::Regular:
            for (uint64_t i = 0; i < r.columns; i++)
                for (uint64_t j = 0; j < r.rows; j++)
                    v.push_back(P2(to_grid((double)i * r.v1.x + (double)j * r.v2.x, scaling),
                                   to_grid((double)i * r.v1.y + (double)j * r.v2.y, scaling)));
            break;
        case RepetitionType::Explicit:
            v.push_back(P2(0, 0));
            for (uint64_t i = 0; i < r.offsets.count; i++)
                v.push_back(P2(to_grid(r.offsets[i].x, scaling), to_grid(r.offsets[i].y, scaling)));
            break;
        case RepetitionType::ExplicitX:
            v.push_back(P2(0, 0));
            for (uint64_t i = 0; i < r.coords.count; i++) v.push_back(P2(to_grid(r.coords[i], scaling), 0));
            break;
        case RepetitionType::ExplicitY:
            v.push_back(P2(0, 0));
            for (uint64_t i = 0; i < r.coords.count; i++) v.push_back(P2(0, to_grid(r.coords[i], scaling)));
            break;
        default: break;
    }
    return v;
}
static inline std::vector<P2> grid_points(const Array<Vec2>& a, double scaling) {
    std::vector<P2> v;
    for (uint64_t i = 0; i < a.count; i++) v.push_back(P2(to_grid(a[i].x, scaling), to_grid(a[i].y, scaling)));
    return v;
}

// `subst` (optional): per cell name and polygon index, a replacement for the vertex section (used for
// detected circles once the re-loaded polygon has been checked against the original within tolerance)
typedef std::map<std::pair<std::string, size_t>, std::string> PolySubst;

// `unit_step_paths` (optional) receives the text of every PATH line whose stored spine has two consecutive points
// within sqrt(2) grid steps of each other (the input class of the grid-step finding; the canonical centre line may
// hide such a step when it is collinear with its neighbours)
static inline Dump library_dump(const Library& lib, const PolySubst* subst = NULL, std::set<std::string>* unit_step_paths = NULL) {
    Dump d;
    double scaling = lib.unit / lib.precision;
    {
        Line l;
        l.text = "LIB|" + props_text(props_of(lib.properties));
        d.lines.push_back(l);
    }
    std::vector<Cell*> cells;
    for (uint64_t i = 0; i < lib.cell_array.count; i++) cells.push_back(lib.cell_array[i]);
    std::sort(cells.begin(), cells.end(), [](Cell* a, Cell* b) { return strcmp(a->name, b->name) < 0; });
    for (Cell* c : cells) {
        std::vector<std::string> ls;
        for (uint64_t i = 0; i < c->polygon_array.count; i++) {
            Polygon* p = c->polygon_array[i];
            std::string pts = pts_text(canon_cycle(grid_points(p->point_array, scaling)));
            if (subst) {
                auto it = subst->find({c->name, (size_t)i});
                if (it != subst->end()) pts = it->second;
            }
            ls.push_back("POLY " + hex_u64(get_layer(p->tag)) + " " + hex_u64(get_type(p->tag)) + "|" + pts + "|" +
                         rep_text(rep_offsets_of(p->repetition, scaling)) + "|" + props_text(props_of(p->properties)));
        }
        for (uint64_t i = 0; i < c->flexpath_array.count; i++) {
            FlexPath* p = c->flexpath_array[i];
            if (!p->simple_path) {
                // a non-simple path stands for the polygons of its outline (this is what the writer stores)
                Array<Polygon*> outl = {};
                p->to_polygons(false, 0, outl);
                for (uint64_t k = 0; k < outl.count; k++) {
                    Polygon* q = outl[k];
                    ls.push_back("POLY " + hex_u64(get_layer(q->tag)) + " " + hex_u64(get_type(q->tag)) + "|" +
                                 pts_text(canon_cycle(grid_points(q->point_array, scaling))) + "|" +
                                 rep_text(rep_offsets_of(q->repetition, scaling)) + "|" + props_text(props_of(q->properties)));
                    q->clear();
                    free_allocation(q);
                }
                outl.clear();
                continue;
            }
            for (uint64_t e = 0; e < p->num_elements; e++) {
                FlexPathElement* el = p->elements + e;
                int64_t hw = to_grid(el->half_width_and_offset[0].u, scaling);
                int64_t e0 = 0, e1 = 0;
                if (el->end_type == EndType::HalfWidth) e0 = e1 = hw;
                else if (el->end_type == EndType::Extended) {
                    e0 = to_grid(el->end_extensions.u, scaling);
                    e1 = to_grid(el->end_extensions.v, scaling);
                } else if (el->end_type != EndType::Flush) e0 = e1 = -999999;
                ls.push_back("PATH " + hex_u64(get_layer(el->tag)) + " " + hex_u64(get_type(el->tag)) + "|" + hex_i64(hw) + " " +
                             hex_i64(e0) + " " + hex_i64(e1) + "|" +
                             pts_text(canon_line(grid_points(p->spine.point_array, scaling))) + "|" +
                             rep_text(rep_offsets_of(p->repetition, scaling)) + "|" + props_text(props_of(p->properties)));
                if (unit_step_paths) {
                    std::vector<P2> raw = grid_points(p->spine.point_array, scaling);
                    for (size_t k = 1; k < raw.size(); k++) {
                        int64_t dx = raw[k].first - raw[k - 1].first, dy = raw[k].second - raw[k - 1].second;
                        if (dx * dx + dy * dy <= 2) unit_step_paths->insert(ls.back());
                    }
                }
            }
        }
        for (uint64_t i = 0; i < c->robustpath_array.count; i++) {
            RobustPath* p = c->robustpath_array[i];
            if (!p->simple_path) {
                Array<Polygon*> outl = {};
                p->to_polygons(false, 0, outl);
                for (uint64_t k = 0; k < outl.count; k++) {
                    Polygon* q = outl[k];
                    ls.push_back("POLY " + hex_u64(get_layer(q->tag)) + " " + hex_u64(get_type(q->tag)) + "|" +
                                 pts_text(canon_cycle(grid_points(q->point_array, scaling))) + "|" +
                                 rep_text(rep_offsets_of(q->repetition, scaling)) + "|" + props_text(props_of(q->properties)));
                    q->clear();
                    free_allocation(q);
                }
                outl.clear();
                continue;
            }
            for (uint64_t e = 0; e < p->num_elements; e++) {
                RobustPathElement* el = p->elements + e;
                // only used for libraries built by the harness: constant width, straight segments
                double w = el->width_array.count ? el->width_array[0].value : el->end_width;
                int64_t hw = to_grid(0.5 * w * p->width_scale, scaling);
                int64_t e0 = 0, e1 = 0;
                if (el->end_type == EndType::HalfWidth) e0 = e1 = hw;
                else if (el->end_type == EndType::Extended) {
                    e0 = to_grid(el->end_extensions.u, scaling);
                    e1 = to_grid(el->end_extensions.v, scaling);
                }
                std::vector<P2> pts;
                for (uint64_t k = 0; k < p->subpath_array.count; k++) {
                    const SubPath& sp = p->subpath_array[k];
                    if (k == 0) pts.push_back(P2(to_grid(sp.begin.x, scaling), to_grid(sp.begin.y, scaling)));
                    pts.push_back(P2(to_grid(sp.end.x, scaling), to_grid(sp.end.y, scaling)));
                }
                ls.push_back("PATH " + hex_u64(get_layer(el->tag)) + " " + hex_u64(get_type(el->tag)) + "|" + hex_i64(hw) + " " +
                             hex_i64(e0) + " " + hex_i64(e1) + "|" + pts_text(canon_line(pts)) + "|" +
                             rep_text(rep_offsets_of(p->repetition, scaling)) + "|" + props_text(props_of(p->properties)));
            }
        }
        for (uint64_t i = 0; i < c->label_array.count; i++) {
            Label* t = c->label_array[i];
            ls.push_back("LABEL " + hex_u64(get_layer(t->tag)) + " " + hex_u64(get_type(t->tag)) + "|" +
                         hex_i64(to_grid(t->origin.x, scaling)) + " " + hex_i64(to_grid(t->origin.y, scaling)) + " " +
                         show_str(t->text ? t->text : "") + "|" + rep_text(rep_offsets_of(t->repetition, scaling)) + "|" +
                         props_text(props_of(t->properties)));
        }
        for (uint64_t i = 0; i < c->reference_array.count; i++) {
            Reference* r = c->reference_array[i];
            std::string name = r->type == ReferenceType::Cell ? (r->cell && r->cell->name ? r->cell->name : "")
                               : r->type == ReferenceType::Name ? (r->name ? r->name : "")
                                                               : "<rawcell>";
            int64_t md = (int64_t)llround(r->rotation * (180.0 / M_PI) * 1e6) % 360000000LL;
            if (md < 0) md += 360000000LL;
            ls.push_back("REF " + show_str(name) + "|" + hex_i64(to_grid(r->origin.x, scaling)) + " " +
                         hex_i64(to_grid(r->origin.y, scaling)) + " " + hex_i64(md) + " " + hex_dbl(r->magnification) + " " +
                         (r->x_reflection ? "1" : "0") + "|" + rep_text(rep_offsets_of(r->repetition, scaling)) + "|" +
                         props_text(props_of(r->properties)));
        }
        std::sort(ls.begin(), ls.end());
        Line h;
        h.text = "CELL " + show_str(c->name ? c->name : "") + "|" + props_text(props_of(c->properties));
        d.lines.push_back(h);
        for (auto& s : ls) {
            Line l;
            l.text = s;
            d.lines.push_back(l);
        }
    }
    return d;
}

// ------------------------------------------------------------------ abstract -> gdstk
static inline Property* build_props(const AProps& ps) {
    Property* head = NULL;
    Property** next = &head;
    for (auto& a : ps) {
        Property* p = (Property*)allocate_clear(sizeof(Property));
        p->name = copy_string(a.name.c_str(), NULL);
        PropertyValue** nv = &p->value;
        for (auto& x : a.v) {
            PropertyValue* v = (PropertyValue*)allocate_clear(sizeof(PropertyValue));
            switch (x.t) {
                case 0: v->type = PropertyType::UnsignedInteger; v->unsigned_integer = x.u; break;
                case 1: v->type = PropertyType::Integer; v->integer = x.i; break;
                case 2: v->type = PropertyType::Real; v->real = x.r; break;
                default:
                    v->type = PropertyType::String;
                    v->count = x.s.size();
                    v->bytes = (uint8_t*)allocate(x.s.size() ? x.s.size() : 1);
                    memcpy(v->bytes, x.s.data(), x.s.size());
            }
            *nv = v;
            nv = &v->next;
        }
        *next = p;
        next = &p->next;
    }
    return head;
}
static inline void build_rep(const ARep& a, double sc, Repetition& r) {
    memset(&r, 0, sizeof r);
    switch (a.kind) {
        case 1:
            r.type = RepetitionType::Rectangular;
            r.columns = a.cols;
            r.rows = a.rows;
            r.spacing = Vec2{a.sx / sc, a.sy / sc};
            break;
        case 2:
            r.type = RepetitionType::Regular;
            r.columns = a.cols;
            r.rows = a.rows;
            r.v1 = Vec2{a.v1x / sc, a.v1y / sc};
            r.v2 = Vec2{a.v2x / sc, a.v2y / sc};
            break;
        case 3:
            r.type = RepetitionType::Explicit;
            for (auto& o : a.offs) r.offsets.append(Vec2{o.first / sc, o.second / sc});
            break;
        case 4:
        case 5:
            r.type = a.kind == 4 ? RepetitionType::ExplicitX : RepetitionType::ExplicitY;
            for (auto c : a.coords) r.coords.append(c / sc);
            break;
        default: r.type = RepetitionType::None;
    }
}

struct Built {
    Library lib;
    std::vector<Cell*> outside;  // kept alive, not in the library
};

static inline Cell* new_cell(const std::string& name) {
    Cell* c = (Cell*)allocate_clear(sizeof(Cell));
    c->name = copy_string(name.c_str(), NULL);
    return c;
}

static inline void build_library(const ALib& L, Built& b) {
    memset(&b.lib, 0, sizeof b.lib);
    b.lib.init("LIB", L.unit, L.precision);
    double sc = L.scaling();
    std::map<std::string, Cell*> by_name;
    for (auto& ac : L.cells) {
        Cell* c = new_cell(ac.name);
        by_name[ac.name] = c;
        b.lib.cell_array.append(c);
    }
    for (auto& n : L.outside) {
        Cell* c = new_cell(n);
        by_name[n] = c;
        b.outside.push_back(c);
    }
    b.lib.properties = build_props(L.props);
    for (auto& ac : L.cells) {
        Cell* c = by_name[ac.name];
        c->properties = build_props(ac.props);
        for (auto& ap : ac.polys) {
            Polygon* p = (Polygon*)allocate_clear(sizeof(Polygon));
            if (ap.circle) {
                *p = ellipse(Vec2{ap.cx / sc, ap.cy / sc}, ap.cr / sc, ap.cr / sc, 0, 0, 0, 0, ap.ctol / sc,
                             make_tag(ap.layer, ap.type));
            } else {
                p->tag = make_tag(ap.layer, ap.type);
                for (auto& v : ap.pts) p->point_array.append(Vec2{v.first / sc, v.second / sc});
            }
            build_rep(ap.rep, sc, p->repetition);
            p->properties = build_props(ap.props);
            c->polygon_array.append(p);
        }
        for (auto& ap : ac.paths) {
            size_t ne = ap.els.size();
            std::vector<double> widths, offsets;
            std::vector<Tag> tags;
            for (auto& e : ap.els) {
                widths.push_back(e.width / sc);
                offsets.push_back(0);
                tags.push_back(make_tag(e.layer, e.type));
            }
            Vec2 p0 = Vec2{ap.pts[0].first / sc, ap.pts[0].second / sc};
            if (!ap.robust) {
                FlexPath* p = (FlexPath*)allocate_clear(sizeof(FlexPath));
                p->num_elements = ne;
                p->elements = (FlexPathElement*)allocate_clear(ne * sizeof(FlexPathElement));
                p->simple_path = !ap.outline;
                p->scale_width = true;
                p->init(p0, widths.data(), offsets.data(), 0.1 / sc, tags.data());
                for (size_t i = 0; i < ne; i++) {
                    p->elements[i].end_type = ap.els[i].end == 0 ? EndType::Flush
                                              : ap.els[i].end == 2 ? EndType::HalfWidth
                                                                   : EndType::Extended;
                    if (ap.els[i].end == 3) p->elements[i].end_extensions = Vec2{ap.els[i].e0 / sc, ap.els[i].e1 / sc};
                }
                Array<Vec2> pts = {};
                for (size_t i = 1; i < ap.pts.size(); i++) pts.append(Vec2{ap.pts[i].first / sc, ap.pts[i].second / sc});
                p->segment(pts, NULL, NULL, false);
                pts.clear();
                build_rep(ap.rep, sc, p->repetition);
                p->properties = build_props(ap.props);
                c->flexpath_array.append(p);
            } else {
                RobustPath* p = (RobustPath*)allocate_clear(sizeof(RobustPath));
                p->num_elements = ne;
                p->elements = (RobustPathElement*)allocate_clear(ne * sizeof(RobustPathElement));
                p->simple_path = !ap.outline;
                p->scale_width = true;
                p->init(p0, widths.data(), offsets.data(), 0.1 / sc, 1000, tags.data());
                for (size_t i = 0; i < ne; i++) {
                    p->elements[i].end_type = ap.els[i].end == 0 ? EndType::Flush
                                              : ap.els[i].end == 2 ? EndType::HalfWidth
                                                                   : EndType::Extended;
                    if (ap.els[i].end == 3) p->elements[i].end_extensions = Vec2{ap.els[i].e0 / sc, ap.els[i].e1 / sc};
                }
                for (size_t i = 1; i < ap.pts.size(); i++)
                    p->segment(Vec2{ap.pts[i].first / sc, ap.pts[i].second / sc}, NULL, NULL, false);
                build_rep(ap.rep, sc, p->repetition);
                p->properties = build_props(ap.props);
                c->robustpath_array.append(p);
            }
        }
        for (auto& at : ac.labels) {
            Label* t = (Label*)allocate_clear(sizeof(Label));
            t->text = copy_string(at.text.c_str(), NULL);
            t->tag = make_tag(at.layer, at.type);
            t->origin = Vec2{at.x / sc, at.y / sc};
            t->anchor = (Anchor)at.anchor;
            t->rotation = at.rot;
            t->magnification = at.mag;
            t->x_reflection = at.refl;
            build_rep(at.rep, sc, t->repetition);
            t->properties = build_props(at.props);
            c->label_array.append(t);
        }
        for (auto& ar : ac.refs) {
            Reference* r = (Reference*)allocate_clear(sizeof(Reference));
            if (ar.how == 0 || ar.how == 3) {
                r->type = ReferenceType::Cell;
                r->cell = by_name[ar.target];
            } else {
                r->type = ReferenceType::Name;
                r->name = copy_string(ar.target.c_str(), NULL);
            }
            r->origin = Vec2{ar.x / sc, ar.y / sc};
            r->rotation = ar.radians();
            r->magnification = ar.mag;
            r->x_reflection = ar.refl;
            build_rep(ar.rep, sc, r->repetition);
            r->properties = build_props(ar.props);
            c->reference_array.append(r);
        }
    }
}

// ------------------------------------------------------------------ the 26 compact trapezoids, transcribed by hand
// vertices relative to (x, y) for width w and height h (third transcription, independent of the Coq
// table and of gdstk's switch): types 0-7 horizontal, 8-15 vertical, 16-23 triangles, 24 rectangle, 25 square
static inline std::vector<P2> ctrapezoid_vertices(int type, int64_t w, int64_t h) {
    switch (type) {
        case 0: return {{0, 0}, {w, 0}, {w - h, h}, {0, h}};
        case 1: return {{0, 0}, {w - h, 0}, {w, h}, {0, h}};
        case 2: return {{0, 0}, {w, 0}, {w, h}, {h, h}};
        case 3: return {{h, 0}, {w, 0}, {w, h}, {0, h}};
        case 4: return {{0, 0}, {w, 0}, {w - h, h}, {h, h}};
        case 5: return {{h, 0}, {w - h, 0}, {w, h}, {0, h}};
        case 6: return {{0, 0}, {w - h, 0}, {w, h}, {h, h}};
        case 7: return {{h, 0}, {w, 0}, {w - h, h}, {0, h}};
        case 8: return {{0, 0}, {w, 0}, {w, h - w}, {0, h}};
        case 9: return {{0, 0}, {w, 0}, {w, h}, {0, h - w}};
        case 10: return {{0, 0}, {w, w}, {w, h}, {0, h}};
        case 11: return {{0, w}, {w, 0}, {w, h}, {0, h}};
        case 12: return {{0, 0}, {w, w}, {w, h - w}, {0, h}};
        case 13: return {{0, w}, {w, 0}, {w, h}, {0, h - w}};
        case 14: return {{0, 0}, {w, w}, {w, h}, {0, h - w}};
        case 15: return {{0, w}, {w, 0}, {w, h - w}, {0, h}};
        case 16: return {{0, 0}, {w, 0}, {0, w}};
        case 17: return {{0, 0}, {w, w}, {0, w}};
        case 18: return {{0, 0}, {w, 0}, {w, w}};
        case 19: return {{w, 0}, {w, w}, {0, w}};
        case 20: return {{0, 0}, {2 * h, 0}, {h, h}};
        case 21: return {{h, 0}, {2 * h, h}, {0, h}};
        case 22: return {{0, 0}, {w, w}, {0, 2 * w}};
        case 23: return {{w, 0}, {w, 2 * w}, {0, w}};
        case 24: return {{0, 0}, {w, 0}, {w, h}, {0, h}};
        default: return {{0, 0}, {w, 0}, {w, w}, {0, w}};
    }
}

// ------------------------------------------------------------------ generator
struct Gen {
    Rng& g;
    bool with_defect_classes;  // also produce the input classes of the known defects
    explicit Gen(Rng& r, bool d = true) : g(r), with_defect_classes(d) {}

    int64_t coord(int64_t span = 2000) {
        switch (g.below(8)) {
            case 0: return g.range(-40, 40);
            case 1: return g.range(-70000, 70000);        // more than two bytes of a signed integer
            case 2:  // beyond 32 bits (only in the layouts that also carry the known-defect input classes: the circle
                     // fit of is_circle loses the grid that far from the origin)
                return with_defect_classes ? g.range(-(1LL << 33), 1LL << 33) : g.range(-(1LL << 24), 1LL << 24);
            default: return g.range(-span, span);
        }
    }
    uint32_t tag32() {
        switch (g.below(6)) {
            case 0: return 0;
            case 1: return (uint32_t)g.below(256);
            case 2: return 65535 + (uint32_t)g.below(3);
            case 3: return 0xFFFFFFFFu - (uint32_t)g.below(2);
            case 4: return (uint32_t)g.next();
            default: return (uint32_t)g.below(64);
        }
    }
    std::string nstring(size_t lo, size_t hi) {
        size_t n = (size_t)g.range((int64_t)lo, (int64_t)hi);
        const char* a = "ABCDEFGHIJKLMNOPQRSTUVWXYZabcdefghijklmnopqrstuvwxyz0123456789_$.";
        std::string s;
        for (size_t i = 0; i < n; i++) s += a[g.below(65)];
        return s;
    }
    std::string astring(size_t lo, size_t hi) {
        size_t n = (size_t)g.range((int64_t)lo, (int64_t)hi);
        std::string s;
        for (size_t i = 0; i < n; i++) s += (char)g.range(0x20, 0x7e);
        return s;
    }
    std::string bstring(size_t lo, size_t hi) {
        size_t n = (size_t)g.range((int64_t)lo, (int64_t)hi);
        std::string s;
        for (size_t i = 0; i < n; i++) s += (char)g.below(256);
        return s;
    }
    double real_value(bool allow_recip) {
        switch (g.below(allow_recip ? 9 : 8)) {
            case 0: return (double)g.range(-1000, 1000);
            case 1: return 1.0 / (double)g.range(2, 4000);
            case 2: return -1.0 / (double)g.range(2, 4000);
            case 3: return (double)g.range(-100000, 100000) / 1024.0;
            case 4: return bits_dbl(0x3ff0000000000000ULL + g.below(1ULL << 52));  // [1,2)
            case 5: return (double)(g.next() >> 11);
            case 6: return ldexp((double)g.range(1, 1 << 20), (int)g.range(-60, 60));
            case 7: return 0.1 * (double)g.range(-50, 50);
            default: {
                // F6 input class: neighbours of 1/n whose reciprocal rounds to the integer n
                for (int tries = 0; tries < 50; tries++) {
                    double n = (double)g.range(2, 2000);
                    double x = nextafter(1.0 / n, g.coin() ? 0.0 : 1.0);
                    if (recip_lossy(x)) return g.coin() ? x : -x;
                }
                return 0.19999999999999998;
            }
        }
    }
    AProps props(int pct, bool allow_recip) {
        AProps ps;
        if (!g.chance(pct)) return ps;
        int n = 1 + (int)g.below(3);
        for (int i = 0; i < n; i++) {
            AProp p;
            if (g.chance(10)) {
                p.name = "S_GDS_PROPERTY";
                APV a, s;
                a.t = 0;
                a.u = g.below(65536);
                s.t = 3;
                s.s = astring(0, 12);
                s.s.push_back('\0');
                p.v = {a, s};
                ps.push_back(p);
                continue;
            }
            p.name = g.chance(30) ? std::string("P") + std::to_string(g.below(4)) : nstring(1, 12);
            int nv = g.chance(8) ? (int)g.range(15, 20) : g.chance(10) ? 0 : (int)g.range(1, 4);
            for (int k = 0; k < nv; k++) {
                APV v;
                v.t = (int)g.below(4);
                switch (v.t) {
                    case 0: v.u = g.chance(20) ? g.next() : g.below(100000); break;
                    case 1: v.i = g.chance(20) ? (int64_t)(g.next() >> 1) * (g.coin() ? 1 : -1) : g.range(-100000, 100000); break;
                    case 2: v.r = real_value(allow_recip && g.chance(40)); break;
                    default:
                        switch (g.below(4)) {
                            case 0: v.s = nstring(1, 10); break;
                            case 1: v.s = astring(0, 16); break;
                            case 2: v.s = bstring(1, 16); break;
                            default: v.s = g.coin() ? "dup" : "dup value";
                        }
                }
                p.v.push_back(v);
            }
            ps.push_back(p);
        }
        return ps;
    }
    ARep rep(int pct, bool allow_negexp) {
        ARep r;
        if (!g.chance(pct)) return r;
        r.kind = 1 + (int)g.below(5);
        auto sp = [&]() { return g.chance(15) ? g.range(-100000, 100000) : g.range(-60, 60); };
        switch (r.kind) {
            case 1:
                switch (g.below(4)) {
                    case 0: r.cols = (uint64_t)g.range(2, 5); r.rows = 1; break;
                    case 1: r.cols = 1; r.rows = (uint64_t)g.range(2, 5); break;
                    default: r.cols = (uint64_t)g.range(2, 5); r.rows = (uint64_t)g.range(2, 4);
                }
                r.sx = sp();
                r.sy = sp();
                if (g.chance(50)) { r.sx = llabs(r.sx); r.sy = llabs(r.sy); }
                break;
            case 2:
                switch (g.below(4)) {
                    case 0: r.cols = (uint64_t)g.range(2, 5); r.rows = 1; break;
                    case 1: r.cols = 1; r.rows = (uint64_t)g.range(2, 5); break;
                    default: r.cols = (uint64_t)g.range(2, 5); r.rows = (uint64_t)g.range(2, 4);
                }
                r.v1x = sp(); r.v1y = sp(); r.v2x = sp(); r.v2y = sp();
                if (g.chance(25)) r.v1y = 0;
                if (g.chance(25)) r.v2x = 0;
                if (g.chance(15)) r.v1y = r.v1x;
                break;
            case 3: {
                int n = (int)g.range(1, 6);
                for (int i = 0; i < n; i++) r.offs.push_back(P2(sp(), sp()));
                if (g.chance(20)) r.offs.push_back(r.offs[0]);
            } break;
            default: {
                int n = (int)g.range(1, 6);
                bool neg = allow_negexp && g.chance(50);
                for (int i = 0; i < n; i++) {
                    int64_t c = sp();
                    r.coords.push_back(neg ? c : llabs(c));
                }
                if (neg) r.coords[g.below(r.coords.size())] = -(int64_t)g.range(1, 60);
            }
        }
        return r;
    }
    void rotate_reverse(std::vector<P2>& p) {
        size_t n = p.size();
        size_t s = g.below(n);
        std::rotate(p.begin(), p.begin() + s, p.end());
        if (g.coin()) std::reverse(p.begin(), p.end());
    }
    std::vector<P2> star_polygon(int n, int64_t cx, int64_t cy, int64_t rad) {
        for (int attempt = 0; attempt < 8; attempt++) {
            std::vector<P2> r = star_polygon_once(n, cx, cy, rad);
            if (!r.empty()) return r;
        }
        return {{cx, cy}, {cx + rad + 1, cy}, {cx + 3, cy + rad + 1}};
    }
    std::vector<P2> star_polygon_once(int n, int64_t cx, int64_t cy, int64_t rad) {
        // n points at distinct directions around (cx, cy), sorted by exact angle
        std::vector<P2> d;
        for (int tries = 0; tries < 200 && (int)d.size() < n; tries++) {
            P2 v(g.range(-rad, rad), g.range(-rad, rad));
            if (v.first == 0 && v.second == 0) continue;
            bool dup = false;
            for (auto& o : d) {
                __int128 cr = (__int128)o.first * v.second - (__int128)o.second * v.first;
                __int128 dt = (__int128)o.first * v.first + (__int128)o.second * v.second;
                if (cr == 0 && dt > 0) dup = true;
            }
            if (!dup) d.push_back(v);
        }
        auto half = [](const P2& v) { return (v.second > 0 || (v.second == 0 && v.first > 0)) ? 0 : 1; };
        std::sort(d.begin(), d.end(), [&](const P2& a, const P2& b) {
            if (half(a) != half(b)) return half(a) < half(b);
            return (__int128)a.first * b.second - (__int128)a.second * b.first > 0;
        });
        // keep it star-shaped: every consecutive pair must turn by less than 180 degrees
        bool ok = d.size() >= 3;
        for (size_t i = 0; ok && i < d.size(); i++) {
            const P2 &a = d[i], &b = d[(i + 1) % d.size()];
            if ((__int128)a.first * b.second - (__int128)a.second * b.first <= 0) ok = false;
        }
        if (!ok) return {};
        for (auto& v : d) { v.first += cx; v.second += cy; }
        return d;
    }
    std::vector<P2> staircase(int64_t x, int64_t y) {
        // Manhattan polygon: monotone staircase closed along the axes
        int steps = (int)g.range(1, 4);
        // without the defect classes keep many-vertex polygons larger than sqrt(circle tolerance) in user units
        int64_t lo = with_defect_classes ? 1 : 30, hi = with_defect_classes ? 30 : 80;
        std::vector<P2> p;
        int64_t cx = x, cy = y;
        p.push_back(P2(cx, cy));
        int64_t total_h = 0;
        for (int i = 0; i < steps; i++) {
            cx += g.range(lo, hi);
            p.push_back(P2(cx, cy));
            int64_t dy = g.range(lo, hi);
            cy += dy;
            total_h += dy;
            p.push_back(P2(cx, cy));
        }
        p.push_back(P2(x, cy));
        return p;
    }
    APoly polygon() {
        APoly p;
        p.layer = tag32();
        p.type = tag32();
        int64_t x = coord(), y = coord();
        int sel = (int)g.below(100);
        if (sel < 14) {
            int64_t w = g.range(1, 300), h = g.chance(25) ? w : g.range(1, 300);
            p.pts = {{x, y}, {x + w, y}, {x + w, y + h}, {x, y + h}};
            rotate_reverse(p.pts);
            p.shape = w == h ? "square" : "rectangle";
        } else if (sel < 40) {
            int type = (int)g.below(26);
            int64_t a = g.range(1, 120), b = g.range(1, 120);
            int64_t w, h;
            // sizes that keep every vertex distinct (strict inequalities of the figure)
            if (type <= 3) { h = a; w = a + b; }
            else if (type <= 5) { h = a; w = 2 * a + b; }
            else if (type <= 7) { h = a; w = a + b; }
            else if (type <= 11) { w = a; h = a + b; }
            else if (type <= 13) { w = a; h = 2 * a + b; }
            else if (type <= 15) { w = a; h = a + b; }
            else { w = a; h = b; }
            p.pts = ctrapezoid_vertices(type, w, h);
            for (auto& v : p.pts) { v.first += x; v.second += y; }
            rotate_reverse(p.pts);
            p.shape = "ctrapezoid" + std::to_string(type);
        } else if (sel < 52) {
            // general trapezoid with two horizontal or two vertical sides
            int64_t h = g.range(1, 200);
            int64_t b0 = g.range(-100, 100), b1 = b0 + g.range(1, 200);
            int64_t t0 = g.range(-100, 100), t1 = t0 + g.range(1, 200);
            if (g.chance(25)) t0 = b0;
            if (g.chance(25)) t1 = b1;
            std::vector<P2> q = {{b0, 0}, {b1, 0}, {t1, h}, {t0, h}};
            bool vertical = g.coin();
            for (auto& v : q) {
                if (vertical) std::swap(v.first, v.second);
                v.first += x;
                v.second += y;
            }
            p.pts = q;
            rotate_reverse(p.pts);
            p.shape = vertical ? "trapezoid-v" : "trapezoid-h";
        } else if (sel < 56) {
            // a disc with a flat cut (half disc ... four fifths of a disc): every vertex lies on one circle and is close to its
            // neighbours, except for ONE long chord - which circle detection has to notice wherever it sits in the vertex list
            double r = (double)g.range(150, 1500);
            double span = M_PI * (1.0 + 0.8 * (double)g.below(1001) / 1000.0);
            double tol = 1.0;
            int n0 = (int)ceil(2 * M_PI / (2 * acos(1 - tol / r))) + 4;
            int n = (int)ceil(1.3 * n0);
            double a0 = 2 * M_PI * (double)g.below(1000) / 1000.0;
            std::vector<P2> q;
            for (int i = 0; i <= n; i++) {
                double t = a0 + span * i / n;
                P2 v((int64_t)llround(x + r * cos(t)), (int64_t)llround(y + r * sin(t)));
                if (q.empty() || q.back() != v) q.push_back(v);
            }
            if (q.size() > 8 && q.front() != q.back()) {
                p.pts = q;
                if (g.coin()) rotate_reverse(p.pts);   // otherwise the chord is the closing edge last -> first
                p.shape = "disc-segment";
            } else {
                p.pts = {{x, y}, {x + 40, y}, {x + 40, y + 30}};
                p.shape = "triangle";
            }
        } else if (sel < 60) {
            p.circle = true;
            p.cx = x;
            p.cy = y;
            p.cr = g.range(40, 3000);
            p.ctol = 1 + (int64_t)g.below(3);
            p.shape = "circle";
        } else if (sel < 70) {
            p.pts = staircase(x, y);
            rotate_reverse(p.pts);
            p.shape = "manhattan";
        } else if (sel < 78) {
            // octangular: a rectangle with cut corners
            int64_t w = g.range(with_defect_classes ? 20 : 70, 200), h = g.range(with_defect_classes ? 20 : 70, 200), c = g.range(1, 9);
            p.pts = {{x + c, y}, {x + w - c, y}, {x + w, y + c}, {x + w, y + h - c}, {x + w - c, y + h}, {x + c, y + h},
                     {x, y + h - c}, {x, y + c}};
            rotate_reverse(p.pts);
            p.shape = "octangular";
        } else if (sel < 84) {
            p.pts = star_polygon(3, x, y, g.chance(30) ? 1LL << 20 : 200);
            p.shape = "triangle";
        } else {
            p.pts = star_polygon((int)g.range(4, 12), x, y, g.chance(20) ? 1LL << 20 : 300);
            p.shape = "general";
        }
        p.rep = rep(25, with_defect_classes && g.chance(20));
        p.props = props(25, with_defect_classes && g.chance(20));
        return p;
    }
    APath path(bool grid1) {
        APath p;
        p.robust = g.chance(35);
        bool robust_nonzero = with_defect_classes && g.chance(40);  // F14 input class only in some layouts' paths
        int ne = g.chance(15) ? 2 : 1;
        for (int i = 0; i < ne; i++) {
            APathEl e;
            e.layer = tag32();
            e.type = tag32();
            e.width = 2 * g.range(0, 40);
            if (grid1 && g.chance(20)) e.width += 1;
            if (g.chance(10)) e.width = 0;
            if (p.robust && !robust_nonzero) e.width = 0;
            switch (g.below(4)) {
                case 0: e.end = 0; break;
                case 1: e.end = 2; break;
                default:
                    e.end = 3;
                    e.e0 = g.chance(20) ? 0 : g.chance(20) ? half_width_grid(e.width) : g.range(-20, 60);
                    e.e1 = g.chance(20) ? 0 : g.chance(20) ? half_width_grid(e.width) : g.range(-20, 60);
            }
            p.els.push_back(e);
        }
        int n = (int)g.range(2, 7);
        int64_t x = coord(), y = coord();
        int style = (int)g.below(4);  // 0 manhattan alternating, 1 manhattan, 2 octangular, 3 general
        // a RobustPath is written with 4 samples per segment: keep them 2 grid steps apart unless the grid-step
        // defect class is wanted
        int64_t unit_step = p.robust ? (with_defect_classes ? 4 : 8) : 1;
        p.pts.push_back(P2(x, y));
        bool horiz = g.coin();
        for (int i = 1; i < n; i++) {
            int64_t dx = 0, dy = 0;
            for (int tries = 0; tries < 20 && dx == 0 && dy == 0; tries++) {
                int64_t a = unit_step * g.range(-30, 30), b = unit_step * g.range(-30, 30);
                if (!p.robust && with_defect_classes && g.chance(12)) a = g.coin() ? 1 : -1;  // single grid step
                switch (style) {
                    case 0: if (horiz) dx = a; else dy = a; break;
                    case 1: if (g.coin()) dx = a; else dy = a; break;
                    case 2:
                        switch (g.below(3)) {
                            case 0: dx = a; break;
                            case 1: dy = a; break;
                            default: dx = a; dy = g.coin() ? a : -a;
                        }
                        break;
                    default: dx = a; dy = b;
                }
            }
            if (dx == 0 && dy == 0) dx = unit_step;
            horiz = !horiz;
            x += dx;
            y += dy;
            p.pts.push_back(P2(x, y));
        }
        p.rep = rep(20, with_defect_classes && g.chance(20));
        p.props = props(20, with_defect_classes && g.chance(20));
        if (g.chance(15)) {
            // a non-simple path, written through to_polygons: one axis-parallel segment, even non-zero widths, extensions >= 0
            p.outline = true;
            int64_t len = 2 * g.range(2, 60) * (g.coin() ? 1 : -1);
            P2 a = p.pts[0];
            p.pts.clear();
            p.pts.push_back(a);
            p.pts.push_back(g.coin() ? P2(a.first + len, a.second) : P2(a.first, a.second + len));
            for (auto& e : p.els) {
                e.width = 2 * g.range(1, 40);
                if (e.end == 3) {
                    e.e0 = g.range(1, 60);
                    e.e1 = g.range(1, 60);
                }
            }
        }
        return p;
    }
    ALabel label() {
        ALabel t;
        t.text = g.chance(30) ? std::string("T") + std::to_string(g.below(3)) : astring(1, 14);
        t.layer = tag32();
        t.type = tag32();
        t.x = coord();
        t.y = coord();
        static const int anchors[] = {0, 1, 2, 4, 5, 6, 8, 9, 10};
        t.anchor = anchors[g.below(9)];
        t.rot = g.chance(30) ? 0.3 : 0;
        t.mag = g.chance(30) ? 2.5 : 1;
        t.refl = g.chance(20);
        t.rep = rep(20, with_defect_classes && g.chance(20));
        t.props = props(20, with_defect_classes && g.chance(20));
        return t;
    }
    ALib layout() {
        ALib L;
        switch (g.below(4)) {
            case 0: L.unit = 1e-6; L.precision = 1e-6; break;
            case 1: L.unit = 1e-6; L.precision = 1e-9; break;
            case 2: L.unit = 1e-9; L.precision = 1e-9; break;
            default: L.unit = 1e-6; L.precision = 5e-9;
        }
        bool grid1 = L.unit == L.precision;
        int nc = (int)g.range(1, 5);
        std::set<std::string> names;
        for (int i = 0; i < nc; i++) {
            ACell c;
            do { c.name = g.chance(50) ? std::string("C") + std::to_string(g.below(40)) : nstring(1, 16); } while (names.count(c.name));
            names.insert(c.name);
            L.cells.push_back(c);
        }
        int no = (int)g.below(3);
        for (int i = 0; i < no; i++) {
            std::string n;
            do {
                n = std::string("OUT") + std::to_string(g.below(40));
                if (g.chance(15)) n = "OUTSIDE_" + nstring(30, 45);  // longer than every other string of the file
            } while (names.count(n));
            names.insert(n);
            L.outside.push_back(n);
        }
        bool dangling_cell_refs = with_defect_classes && g.chance(35);  // F5 input class
        // F1 input class (a property list made only of the writer's own S_* entries) is avoided in half of the layouts
        bool all_props = g.chance(50);
        L.props = props(all_props ? 100 : 40, with_defect_classes && g.chance(20));
        for (int i = 0; i < nc; i++) {
            ACell& c = L.cells[i];
            c.props = props(all_props ? 100 : 35, with_defect_classes && g.chance(20));
            int np = (int)g.below(6), npa = (int)g.below(4), nl = (int)g.below(4), nr = (int)g.below(4);
            if (g.chance(10)) np = npa = nl = nr = 0;  // empty cell
            for (int k = 0; k < np; k++) c.polys.push_back(polygon());
            for (int k = 0; k < npa; k++) c.paths.push_back(path(grid1));
            for (int k = 0; k < nl; k++) c.labels.push_back(label());
            for (int k = 0; k < nr; k++) {
                ARef r;
                bool inside = i + 1 < nc && g.chance(70);
                if (inside) {
                    r.how = g.coin() ? 0 : 1;
                    r.target = L.cells[(size_t)g.range(i + 1, nc - 1)].name;
                } else if (!L.outside.empty()) {
                    r.how = dangling_cell_refs && g.coin() ? 3 : 2;
                    r.target = L.outside[g.below(L.outside.size())];
                } else {
                    r.how = 2;
                    r.target = "MISSING_" + nstring(1, 5);
                }
                r.x = coord();
                r.y = coord();
                r.quarter = g.chance(60);
                r.k = (int)g.range(-4, 4);
                r.q = g.range(-64 * 720, 64 * 720);
                if (!r.quarter && r.q % (64 * 90) == 0) r.q += 1;
                r.mag = g.chance(65) ? 1.0 : real_value(with_defect_classes && g.chance(15));
                if (!(r.mag > 0)) r.mag = r.mag < 0 ? -r.mag : 2.0;
                while (r.mag > 4096) r.mag /= 1024.0;  // keep magnified coordinates far inside the 64-bit grid
                while (r.mag < 1.0 / 4096) r.mag *= 1024.0;
                r.refl = g.coin();
                r.rep = rep(30, with_defect_classes && g.chance(20));
                r.props = props(20, with_defect_classes && g.chance(20));
                c.refs.push_back(r);
            }
        }
        return L;
    }
};

}  // namespace oasl
