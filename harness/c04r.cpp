// C04R harness: the real read_oas against the statement-level Coq model read_oas_model (coq/OasisRead.v).
// Every case is a byte stream without CBLOCK records (payload "<tag> x<hex bytes>", the bytes are the last word); the
// harness writes it to a file, runs read_oas(file, 0, 0, &ec) in a forked child and prints the canonical dump of the
// loaded library or an outcome word (I line).  The OCaml driver prints the dump of read_oas_model on the same bytes.
//   kind spec   : streams of the specification-level random encoder (oas_encoder.hpp), CBLOCK-free form
//   kind rand   : reader-grammar-directed random records: random info bytes followed by the fields they demand
//   kind gdstk  : files written by gdstk itself (all option words, deflate levels) with CBLOCKs inflated and spliced
//   kind trunc  : a prefix of a small valid stream (every offset of the first bases, random offsets afterwards)
//   kind flip   : one byte of a valid stream replaced
//   kind badrec : one record byte replaced by another record id (START out of place, XNAME..XGEOMETRY, CBLOCK, unknown)
//   kind dangle : one CELLNAME / TEXTSTRING / PROPNAME / PROPSTRING record removed (reference numbers left dangling)
//   kind cut    : one record removed / kind dup : one record duplicated
//   kind reader : corpus cases (corpus/C04/*.case): the witnesses of the known deviations of read_oas from the strict decoder
// Outcome words: eof overflow invalid unsupported crash hang error<n>; dumps may start with "MISSING ;; ".
#include <fcntl.h>
#include <gdstk/gdstk.hpp>
#include "oas_layout.hpp"
#include "oas_scan.hpp"
#include "oas_encoder.hpp"

using namespace gdstk;
using namespace oasl;

static std::string g_outdir;

static void spit(const std::string& path, const std::vector<uint8_t>& v) {
    FILE* f = fopen(path.c_str(), "wb");
    if (!f) return;
    if (!v.empty()) fwrite(v.data(), 1, v.size(), f);
    fclose(f);
}
static std::vector<uint8_t> slurp(const std::string& path) {
    std::vector<uint8_t> v;
    FILE* f = fopen(path.c_str(), "rb");
    if (!f) return v;
    uint8_t buf[65536];
    size_t r;
    while ((r = fread(buf, 1, sizeof buf, f)) > 0) v.insert(v.end(), buf, buf + r);
    fclose(f);
    return v;
}

// ------------------------------------------------------------------ canonical dump of a loaded library
struct Big {};
static const double LIMIT = 1099511627776.0;  // 2^40: beyond it the doubles are too coarse for the circle recognition
static int64_t grid(double v, double scaling) {
    double t = v * scaling;
    if (!(fabs(t) < LIMIT)) throw Big();
    return (int64_t)llround(t);
}
static std::vector<P2> gpoints(const Array<Vec2>& a, double scaling) {
    std::vector<P2> v;
    for (uint64_t i = 0; i < a.count; i++) v.push_back(P2(grid(a[i].x, scaling), grid(a[i].y, scaling)));
    return v;
}
static std::string rep_dump(const Repetition& r, double scaling) {
    std::vector<P2> v;
    switch (r.type) {
        case RepetitionType::Rectangular:
        case RepetitionType::Regular: {
            bool many = r.columns > 4096 || r.rows > 4096 || r.columns * r.rows > 4096;
            if (many) {
                if (r.type == RepetitionType::Rectangular)
                    return "rect " + hex_u64(r.columns) + " " + hex_u64(r.rows) + " " + hex_u64((uint64_t)grid(r.spacing.x, scaling)) + " " +
                           hex_u64((uint64_t)grid(r.spacing.y, scaling));
                return "regular " + hex_u64(r.columns) + " " + hex_u64(r.rows) + " " + hex_i64(grid(r.v1.x, scaling)) + " " +
                       hex_i64(grid(r.v1.y, scaling)) + " " + hex_i64(grid(r.v2.x, scaling)) + " " + hex_i64(grid(r.v2.y, scaling));
            }
            for (uint64_t i = 0; i < r.columns; i++)
                for (uint64_t j = 0; j < r.rows; j++) {
                    if (r.type == RepetitionType::Rectangular)
                        v.push_back(P2(grid((double)i * r.spacing.x, scaling), grid((double)j * r.spacing.y, scaling)));
                    else
                        v.push_back(P2(grid((double)i * r.v1.x + (double)j * r.v2.x, scaling),
                                       grid((double)i * r.v1.y + (double)j * r.v2.y, scaling)));
                }
        } break;
        case RepetitionType::Explicit:
            v.push_back(P2(0, 0));
            for (uint64_t i = 0; i < r.offsets.count; i++) v.push_back(P2(grid(r.offsets[i].x, scaling), grid(r.offsets[i].y, scaling)));
            break;
        case RepetitionType::ExplicitX:
            v.push_back(P2(0, 0));
            for (uint64_t i = 0; i < r.coords.count; i++) v.push_back(P2(grid(r.coords[i], scaling), 0));
            break;
        case RepetitionType::ExplicitY:
            v.push_back(P2(0, 0));
            for (uint64_t i = 0; i < r.coords.count; i++) v.push_back(P2(0, grid(r.coords[i], scaling)));
            break;
        default: break;
    }
    std::string txt = rep_text(v);
    // a Regular repetition also shows its two vectors (v2 of a one-row lattice does not show in the offsets)
    if (r.type == RepetitionType::Regular && txt != "-")
        txt += " R " + hex_i64(grid(r.v1.x, scaling)) + " " + hex_i64(grid(r.v1.y, scaling)) + " " + hex_i64(grid(r.v2.x, scaling)) + " " +
               hex_i64(grid(r.v2.y, scaling));
    return txt;
}
// a polygon sampled by ellipse(centre, r, r, 0, 0, 0, 0, tolerance): n >= 5 vertices at the angles 2 pi i / n of a
// circle with grid centre and grid radius >= 3 (smaller radii give the 4 grid points of a diamond, printed as such)
static bool circle_of(const Polygon* p, double scaling, int64_t& cx, int64_t& cy, int64_t& cr) {
    uint64_t n = p->point_array.count;
    if (n < 5) return false;
    double mx = 0, my = 0;
    for (uint64_t i = 0; i < n; i++) { mx += p->point_array[i].x; my += p->point_array[i].y; }
    mx = mx / (double)n * scaling;
    my = my / (double)n * scaling;
    if (!(fabs(mx) < LIMIT && fabs(my) < LIMIT)) return false;
    cx = (int64_t)llround(mx);
    cy = (int64_t)llround(my);
    double r0 = hypot(p->point_array[0].x * scaling - (double)cx, p->point_array[0].y * scaling - (double)cy);
    if (!(r0 < LIMIT)) return false;
    cr = (int64_t)llround(r0);
    if (cr < 3) return false;
    double tol = 1e-3 + 1e-12 * (double)cr;
    for (uint64_t i = 0; i < n; i++) {
        double a = (double)i * 2 * M_PI / (double)n;
        double ex = (double)cx + (double)cr * cos(a), ey = (double)cy + (double)cr * sin(a);
        if (fabs(p->point_array[i].x * scaling - ex) > tol || fabs(p->point_array[i].y * scaling - ey) > tol) return false;
    }
    return true;
}
static std::string dump_lib(const Library& lib, bool missing) {
    if (!(lib.precision > 1e-15 && lib.precision < 1e3)) return "badunit";
    double scaling = lib.unit / lib.precision;
    try {
        std::vector<std::pair<std::string, std::string>> blocks;
        for (uint64_t ci = 0; ci < lib.cell_array.count; ci++) {
            Cell* c = lib.cell_array[ci];
            std::vector<std::string> ls;
            for (uint64_t i = 0; i < c->polygon_array.count; i++) {
                Polygon* p = c->polygon_array[i];
                int64_t cx, cy, cr;
                std::string pts;
                if (circle_of(p, scaling, cx, cy, cr)) pts = "circle " + hex_i64(cx) + " " + hex_i64(cy) + " " + hex_i64(cr);
                else pts = pts_text(canon_cycle(gpoints(p->point_array, scaling)));
                ls.push_back("POLY " + hex_u64(get_layer(p->tag)) + " " + hex_u64(get_type(p->tag)) + "|" + pts + "|" +
                             rep_dump(p->repetition, scaling) + "|" + props_text(props_of(p->properties)));
            }
            for (uint64_t i = 0; i < c->flexpath_array.count; i++) {
                FlexPath* p = c->flexpath_array[i];
                for (uint64_t e = 0; e < p->num_elements; e++) {
                    FlexPathElement* el = p->elements + e;
                    int64_t hw = grid(el->half_width_and_offset[0].u, scaling);
                    int64_t e0 = 0, e1 = 0;
                    if (el->end_type == EndType::HalfWidth) e0 = e1 = hw;
                    else if (el->end_type == EndType::Extended) {
                        e0 = grid(el->end_extensions.u, scaling);
                        e1 = grid(el->end_extensions.v, scaling);
                    } else if (el->end_type != EndType::Flush) e0 = e1 = -999999;
                    ls.push_back("PATH " + hex_u64(get_layer(el->tag)) + " " + hex_u64(get_type(el->tag)) + "|" + hex_i64(hw) + " " +
                                 hex_i64(e0) + " " + hex_i64(e1) + "|" + pts_text(canon_line(gpoints(p->spine.point_array, scaling))) +
                                 "|" + rep_dump(p->repetition, scaling) + "|" + props_text(props_of(p->properties)));
                }
            }
            for (uint64_t i = 0; i < c->label_array.count; i++) {
                Label* t = c->label_array[i];
                ls.push_back("LABEL " + hex_u64(get_layer(t->tag)) + " " + hex_u64(get_type(t->tag)) + "|" +
                             hex_i64(grid(t->origin.x, scaling)) + " " + hex_i64(grid(t->origin.y, scaling)) + " " +
                             show_str(t->text ? t->text : "") + "|" + rep_dump(t->repetition, scaling) + "|" +
                             props_text(props_of(t->properties)));
            }
            for (uint64_t i = 0; i < c->reference_array.count; i++) {
                Reference* r = c->reference_array[i];
                std::string name = r->type == ReferenceType::Cell ? (r->cell && r->cell->name ? r->cell->name : "")
                                   : r->type == ReferenceType::Name ? (r->name ? r->name : "")
                                                                   : "<rawcell>";
                double t = r->rotation * (180.0 / M_PI) * 1e6;
                std::string mds = "x";
                if (fabs(t) < 9e18) {
                    int64_t md = (int64_t)llround(t) % 360000000LL;
                    if (md < 0) md += 360000000LL;
                    mds = hex_i64(md);
                }
                ls.push_back("REF " + show_str(name) + "|" + hex_i64(grid(r->origin.x, scaling)) + " " + hex_i64(grid(r->origin.y, scaling)) +
                             " " + mds + " " + hex_dbl(r->magnification) + " " + (r->x_reflection ? "1" : "0") + "|" +
                             rep_dump(r->repetition, scaling) + "|" + props_text(props_of(r->properties)));
            }
            std::sort(ls.begin(), ls.end());
            std::string name = c->name ? c->name : "";
            std::string block = "CELL " + show_str(name) + "|" + props_text(props_of(c->properties));
            for (auto& s : ls) block += " ;; " + s;
            blocks.push_back({name, block});
        }
        std::sort(blocks.begin(), blocks.end());
        std::string s = std::string(missing ? "MISSING ;; " : "") + "LIB|" + props_text(props_of(lib.properties));
        for (auto& b : blocks) s += " ;; " + b.second;
        return s + " ;; PREC " + hex_dbl(lib.precision);
    } catch (Big&) {
        return "bigcoord";
    }
}


// ------------------------------------------------------------------ kind rand: reader-grammar-directed random records
// Every info byte is drawn at random and followed by exactly the fields its bits demand (the reader has a value for
// every modal variable except the text / placement / property pointers, which the first record of the kind sets), so
// each info bit, extension scheme, repetition type, point-list type and compact-trapezoid type varies independently.
struct RandGen {
    Rng& g;
    oasenc::W w;
    bool have_text = false, have_place = false, have_prop = false, have_path = false;
    explicit RandGen(Rng& r) : g(r) { w.g = NULL; }
    uint64_t small() { return g.chance(10) ? g.below(100000) : g.below(50); }
    int64_t coord() { return g.chance(10) ? g.range(-100000, 100000) : g.range(-60, 60); }
    void layer() { w.uint(g.chance(5) ? 0x100000000ULL + g.below(300) : g.chance(10) ? 0xFFFFFFFFULL : g.below(70)); }
    void str(const char* pre) { w.str(std::string(pre) + std::to_string(g.below(4))); }
    void gdelta() { w.g = &g; w.gdelta(coord(), g.chance(40) ? 0 : coord()); w.g = NULL; }
    void real() {
        oasenc::Real r;
        r.type = (unsigned)g.below(8);
        r.a = (uint64_t)g.range(1, 400);
        r.b = (uint64_t)g.range(1, 400);
        r.f = (float)g.range(-10000, 10000) / 64.0f;
        r.d = (double)g.range(-100000, 100000) / 1024.0;
        r.write(w);
    }
    void rep() {
        unsigned ty = (unsigned)g.below(13);
        if (ty == 12) ty = g.chance(50) ? 0 : 12 + (unsigned)g.below(5);
        w.byte(ty);
        switch (ty) {
            case 1: w.uint(g.below(4)); w.uint(g.below(4)); w.uint(small()); w.uint(small()); break;
            case 2: case 3: w.uint(g.below(5)); w.uint(small()); break;
            case 4: case 5: case 6: case 7: {
                uint64_t n = g.below(5);
                w.uint(n);
                if (ty == 5 || ty == 7) w.uint(g.below(20));
                for (uint64_t i = 0; i <= n; i++) w.uint(small());
            } break;
            case 8: w.uint(g.below(4)); w.uint(g.below(4)); gdelta(); gdelta(); break;
            case 9: w.uint(g.below(5)); gdelta(); break;
            case 10: case 11: {
                uint64_t n = g.below(5);
                w.uint(n);
                if (ty == 11) w.uint(g.below(20));
                for (uint64_t i = 0; i <= n; i++) gdelta();
            } break;
            default: break;
        }
    }
    void plist(bool nonempty) {
        unsigned ty = (unsigned)g.below(6);
        uint64_t n = g.below(6);
        if (nonempty && n == 0) n = 1;
        w.byte(ty);
        w.uint(n);
        for (uint64_t i = 0; i < n; i++) {
            int64_t a = coord();
            switch (ty) {
                case 0: case 1: w.sint(a); break;
                case 2: w.packed((uint64_t)llabs(a), 2, (unsigned)g.below(4)); break;
                case 3: w.packed((uint64_t)llabs(a), 3, (unsigned)g.below(8)); break;
                default: gdelta();
            }
        }
    }
    void xy(unsigned info, unsigned bx, unsigned by) {
        if (info & bx) w.sint(coord());
        if (info & by) w.sint(coord());
    }
    void geometry() {
        unsigned kind = (unsigned)g.below(8);
        unsigned info = (unsigned)g.below(256);
        switch (kind) {
            case 0:  // RECTANGLE
                w.byte(20); w.byte(info);
                if (info & 1) layer();
                if (info & 2) layer();
                if (info & 0x40) w.uint(small());
                if (info & 0x20) w.uint(small());
                xy(info, 0x10, 0x08);
                if (info & 4) rep();
                break;
            case 1:  // POLYGON
                w.byte(21); w.byte(info);
                if (info & 1) layer();
                if (info & 2) layer();
                if (info & 0x20) plist(false);
                xy(info, 0x10, 0x08);
                if (info & 4) rep();
                break;
            case 2: {  // PATH: the point list must not be empty (the reader reads before the array otherwise)
                if (!have_path) info |= 0x20;
                have_path = true;
                w.byte(22); w.byte(info);
                if (info & 1) layer();
                if (info & 2) layer();
                if (info & 0x40) w.uint(g.below(40));
                if (info & 0x80) {
                    unsigned sch = (unsigned)g.below(16) | (g.chance(10) ? 0x30u : 0u);
                    w.byte(sch);
                    if ((sch & 0x0c) == 0x0c) w.sint(g.range(-20, 60));
                    if ((sch & 0x03) == 0x03) w.sint(g.range(-20, 60));
                }
                if (info & 0x20) plist(true);
                xy(info, 0x10, 0x08);
                if (info & 4) rep();
            } break;
            case 3: case 4: {  // TRAPEZOID
                unsigned code = 23 + (unsigned)g.below(3);
                w.byte(code); w.byte(info);
                if (info & 1) layer();
                if (info & 2) layer();
                if (info & 0x40) w.uint(small());
                if (info & 0x20) w.uint(small());
                if (code != 25) w.sint(g.range(-30, 30));
                if (code != 24) w.sint(g.range(-30, 30));
                xy(info, 0x10, 0x08);
                if (info & 4) rep();
            } break;
            case 5: case 6:  // CTRAPEZOID
                w.byte(26); w.byte(info);
                if (info & 1) layer();
                if (info & 2) layer();
                if (info & 0x80) w.byte((unsigned)g.below(30));
                if (info & 0x40) w.uint(small());
                if (info & 0x20) w.uint(small());
                xy(info, 0x10, 0x08);
                if (info & 4) rep();
                break;
            default:  // CIRCLE
                w.byte(27); w.byte(info);
                if (info & 1) layer();
                if (info & 2) layer();
                if (info & 0x20) w.uint(g.chance(20) ? g.below(4) : g.below(3000));
                xy(info, 0x10, 0x08);
                if (info & 4) rep();
        }
    }
    void text() {
        unsigned info = (unsigned)g.below(256);
        if (!have_text) info |= 0x40;
        have_text = true;
        w.byte(19); w.byte(info);
        if (info & 0x40) { if (info & 0x20) w.uint(g.below(3)); else str("txt"); }
        if (info & 1) layer();
        if (info & 2) layer();
        xy(info, 0x10, 0x08);
        if (info & 4) rep();
    }
    void placement() {
        unsigned info = (unsigned)g.below(256);
        if (!have_place) info |= 0x80;
        have_place = true;
        unsigned code = g.coin() ? 17 : 18;
        w.byte(code); w.byte(info);
        if (info & 0x80) { if (info & 0x40) w.uint(g.below(3)); else str("C"); }
        if (code == 18) { if (info & 4) real(); if (info & 2) real(); }
        xy(info, 0x20, 0x10);
        if (info & 8) rep();
    }
    void property() {
        if (have_prop && g.chance(20)) { w.byte(29); return; }
        unsigned info = (unsigned)g.below(256);
        if (!have_prop) info |= 0x04;
        have_prop = true;
        if ((info >> 4) == 15 && g.chance(70)) info = (info & 0x0f) | (unsigned)(g.below(4) << 4);
        w.byte(28); w.byte(info);
        if (info & 4) { if (info & 2) w.uint(g.below(3)); else str("P"); }
        if (!(info & 8)) {
            uint64_t n = info >> 4;
            if (n == 15) { n = g.below(20); w.uint(n); }
            for (uint64_t i = 0; i < n; i++) {
                unsigned ty = (unsigned)g.below(17);
                if (ty == 16) ty = 16 + (unsigned)g.below(100);
                if (ty < 8) { oasenc::Real r; r.type = ty; r.a = (uint64_t)g.range(1, 400); r.b = (uint64_t)g.range(1, 400);
                              r.f = (float)g.range(-1000, 1000) / 8.0f; r.d = (double)g.range(-1000, 1000) / 16.0; r.write(w); continue; }
                w.byte(ty);
                if (ty == 8) w.uint(small());
                else if (ty == 9) w.sint(coord());
                else if (ty <= 12) w.str(g.chance(20) ? std::string() : "v" + std::to_string(g.below(50)));
                else if (ty <= 15) w.uint(g.below(3));
            }
        }
    }
    std::vector<uint8_t> run() {
        static const char magic[] = "%SEMI-OASIS\r\n";
        for (int i = 0; i < 13; i++) w.byte((unsigned char)magic[i]);
        w.byte(1);
        w.str("1.0");
        w.byte(0); w.uint(g.chance(50) ? 1000 : 1 + g.below(5000));
        w.byte(1);
        // name tables 0..2 of each kind, explicit numbers, before or after the cells
        bool tables_first = g.coin();
        auto tables = [&]() {
            for (unsigned k = 0; k < 3; k++) {
                w.byte(4); w.str("C" + std::to_string(k)); w.uint(k);
                if (g.chance(20)) property();
                w.byte(6); w.str("txt" + std::to_string(k)); w.uint(k);
                if (g.chance(15)) property();
                w.byte(8); w.str("P" + std::to_string(k)); w.uint(k);
                if (g.chance(8)) property();
                w.byte(10); w.str(g.chance(15) ? std::string() : "s" + std::to_string(k)); w.uint(k);
                if (g.chance(8)) property();
                if (g.chance(5)) {
                    w.byte(g.coin() ? 11 : 12);
                    w.str("L");
                    for (int iv = 0; iv < 2; iv++) {
                        unsigned ty = (unsigned)g.below(5);
                        w.byte(ty);
                        if (ty >= 1) w.uint(small());
                        if (ty == 4) w.uint(small());
                    }
                    if (g.chance(50)) property();
                }
            }
        };
        if (tables_first) tables();
        if (g.chance(30)) property();
        int ncell = 1 + (int)g.below(3);
        for (int c = 0; c < ncell; c++) {
            if (g.coin()) { w.byte(14); w.str("C" + std::to_string(c)); } else { w.byte(13); w.uint((uint64_t)c); }
            int n = (int)g.range(1, 12);
            for (int i = 0; i < n; i++) {
                switch (g.below(12)) {
                    case 0: w.byte(g.coin() ? 15 : 16); break;
                    case 1: w.byte(0); break;
                    case 2: text(); break;
                    case 3: placement(); break;
                    case 4: case 5: property(); break;
                    default: geometry();
                }
            }
        }
        if (!tables_first) tables();
        w.byte(2);
        for (int i = 0; i < 255; i++) w.byte(0);
        return w.b;
    }
};

// ------------------------------------------------------------------ one case
static std::string read_real_once(const std::vector<uint8_t>& bytes, unsigned seconds) {
    std::string f = g_outdir + "/r.oas";
    spit(f, bytes);
    std::string res = in_child([&](FILE* o) {
        int dn = open("/dev/null", O_WRONLY);
        if (dn >= 0) dup2(dn, 2);
        set_error_logger(NULL);
        ErrorCode ec = ErrorCode::NoError;
        Library lib = read_oas(f.c_str(), 0, 0, &ec);
        std::string r;
        switch (ec) {
            case ErrorCode::NoError: r = dump_lib(lib, false); break;
            case ErrorCode::MissingReference: r = dump_lib(lib, true); break;
            case ErrorCode::InputFileError: r = "eof"; break;
            case ErrorCode::Overflow: r = "overflow"; break;
            case ErrorCode::InvalidFile: r = "invalid"; break;
            case ErrorCode::UnsupportedRecord: r = "unsupported"; break;
            default: r = "error" + std::to_string((int)ec);
        }
        fputs(r.c_str(), o);
    }, seconds);
    if (res.compare(0, 5, "CRASH") == 0) return "crash";
    if (res == "HANG") return "hang";
    return res;
}
// a time-out is taken for a hang only when it repeats with a much longer limit (the machine may be loaded; read_oas
// legitimately spends seconds writing table fillers for reference numbers around 1e8)
static std::string read_real(const std::vector<uint8_t>& bytes) {
    std::string r = read_real_once(bytes, 10);
    if (r == "hang") r = read_real_once(bytes, 90);
    return r;
}

static void run_case(Out& out, const std::string& kind, const std::string& payload) {
    size_t sp = payload.rfind(' ');
    std::string hex = sp == std::string::npos ? payload : payload.substr(sp + 1);
    if (!hex.empty() && hex[0] == 'x') hex = hex.substr(1);   // "x" keeps the word non-empty for the empty stream
    std::vector<uint8_t> bytes = unhex(hex);
    std::string id = out.add(kind, payload);
    std::string r = read_real(bytes);
    out.I(id, r);
    std::string cls = r.find('|') != std::string::npos ? (r.compare(0, 7, "MISSING") == 0 ? "loaded-missingref" : "loaded") : r;
    out.count("outcome:" + cls);
    out.count("outcome-" + kind + ":" + cls);
}
static void emit(Out& out, const std::string& kind, const std::string& tag, const std::vector<uint8_t>& b) {
    run_case(out, kind, tag + " x" + hex_bytes(b.data(), b.size()));
}

// a file written by gdstk (child: write_oas may hit known writer defects), CBLOCKs spliced out; empty on failure
static std::vector<uint8_t> gdstk_written(uint64_t ls, unsigned flags, unsigned level) {
    std::string res = in_child([&](FILE* o) {
        int dn = open("/dev/null", O_WRONLY);
        if (dn >= 0) dup2(dn, 2);
        set_error_logger(NULL);
        Rng lg(ls);
        Gen gen(lg, false);
        ALib L = gen.layout();
        Built b;
        build_library(L, b);
        std::string f = g_outdir + "/w.oas";
        b.lib.write_oas(f.c_str(), 0, (uint8_t)level, (uint16_t)flags);
        std::vector<uint8_t> file = slurp(f);
        oscan::Scan sc = oscan::scan_file(file);
        if (sc.ok) fputs(hex_bytes(sc.spliced.data(), sc.spliced.size()).c_str(), o);
    }, 30);
    if (res.compare(0, 5, "CRASH") == 0 || res == "HANG") return {};
    return unhex(res);
}

int main(int argc, char** argv) {
    if (argc < 4) {
        fprintf(stderr, "usage: c04r seed tier outdir [corpus] [replay]\n");
        return 2;
    }
    uint64_t seed = strtoull(argv[1], NULL, 10);
    bool thorough = strcmp(argv[2], "thorough") == 0;
    g_outdir = argv[3];
    set_error_logger(NULL);
    Out out;
    out.open(argv[3]);
    if (argc > 5) {
        std::string k, p;
        if (load_replay(argv[5], k, p)) run_case(out, k, p);
        out.close();
        return 0;
    }
    // corpus first: only the cases of this unit (kind "reader", payload "<key> x<hex bytes>"); the directory is shared with
    // harness/c04.cpp, whose kinds have other payload formats (and which ignores the kind "reader")
    for (auto& c : load_corpus(argc > 4 ? argv[4] : NULL))
        if (c.first == "reader") run_case(out, c.first, c.second);
    Rng g0(seed);
    Rng g(g0.next());
    char tag[96];

    std::vector<std::vector<uint8_t>> bases;  // valid streams the malformed cases are derived from
    // (a) specification-level encoder
    long nspec = thorough ? 30000 : 900;
    for (long i = 0; i < nspec; i++) {
        uint64_t es = g.next() >> 1;
        Rng eg(es);
        oasenc::Encoded e = oasenc::encode_random(eg);
        snprintf(tag, sizeof tag, "%llu", (unsigned long long)es);
        emit(out, "spec", tag, e.plain);
        if (e.plain.size() < 700 && bases.size() < (thorough ? 400u : 60u) && g.chance(30)) bases.push_back(e.plain);
    }
    // (a') reader-grammar-directed random records
    long nrand = thorough ? 40000 : 1500;
    for (long i = 0; i < nrand; i++) {
        uint64_t rs = g.next() >> 1;
        Rng rg(rs);
        RandGen gen(rg);
        snprintf(tag, sizeof tag, "%llu", (unsigned long long)rs);
        emit(out, "rand", tag, gen.run());
    }
    // (b) gdstk's own writer
    long ngd = thorough ? 6000 : 250;
    unsigned counter = (unsigned)g.below(256);
    for (long i = 0; i < ngd; i++) {
        uint64_t ls = g.next() >> 1;
        unsigned flags = (counter++ * 37u) & 0xFFu;
        unsigned level = g.chance(40) ? 0 : (unsigned)g.below(10);
        std::vector<uint8_t> b = gdstk_written(ls, flags, level);
        if (b.empty()) { out.count("gdstk:write-failed"); continue; }
        snprintf(tag, sizeof tag, "%llu %x %u", (unsigned long long)ls, flags, level);
        emit(out, "gdstk", tag, b);
        if (b.size() < 700 && bases.size() < (thorough ? 500u : 80u) && g.chance(30)) bases.push_back(b);
    }
    out.count("bases", (long)bases.size());
    if (bases.empty()) { out.close(); return 0; }
    // (c) malformed streams
    size_t nfull = thorough ? 40 : 3;       // bases truncated at every offset
    for (size_t bi = 0; bi < bases.size() && bi < nfull; bi++) {
        const std::vector<uint8_t>& b = bases[bi];
        for (size_t k = 0; k < b.size(); k++) {
            snprintf(tag, sizeof tag, "b%zu@%zu", bi, k);
            emit(out, "trunc", tag, std::vector<uint8_t>(b.begin(), b.begin() + k));
        }
    }
    long nmal = thorough ? 60000 : 1200;
    for (long i = 0; i < nmal; i++) {
        size_t bi = (size_t)g.below(bases.size());
        std::vector<uint8_t> b = bases[bi];
        oscan::Scan sc = oscan::scan_file(b);
        int what = (int)g.below(100);
        if (what < 15) {
            size_t k = (size_t)g.below(b.size());
            snprintf(tag, sizeof tag, "b%zu@%zu", bi, k);
            emit(out, "trunc", tag, std::vector<uint8_t>(b.begin(), b.begin() + k));
        } else if (what < 55) {
            size_t k = 13 + (size_t)g.below(b.size() - 13);
            uint8_t old = b[k];
            switch (g.below(4)) {
                case 0: b[k] = (uint8_t)g.below(256); break;
                case 1: b[k] = (uint8_t)(old ^ (1u << g.below(8))); break;
                case 2: b[k] = (uint8_t)(old + 1); break;
                default: b[k] = (uint8_t)(old | 0x80); break;
            }
            snprintf(tag, sizeof tag, "b%zu@%zu:%02x", bi, k, (unsigned)b[k]);
            emit(out, "flip", tag, b);
        } else if (!sc.ok || sc.records.size() < 3) {
            continue;
        } else if (what < 70) {
            size_t ri = 1 + (size_t)g.below(sc.records.size() - 1);
            static const uint8_t ids[] = {1, 30, 31, 32, 33, 34, 35, 40, 0x80, 0xff, 2, 0, 15, 16, 11, 12};
            uint8_t nid = g.chance(70) ? ids[g.below(sizeof ids)] : (uint8_t)g.below(256);
            b[sc.records[ri].offset] = nid;
            snprintf(tag, sizeof tag, "b%zu#%zu:%02x", bi, ri, (unsigned)nid);
            emit(out, "badrec", tag, b);
        } else {
            // record removal / duplication by spliced offsets (records 1 .. n-2; the last one is END)
            std::vector<size_t> cand;
            bool want_table = what < 85;
            for (size_t ri = 1; ri + 1 < sc.records.size(); ri++) {
                bool table = sc.records[ri].id >= 3 && sc.records[ri].id <= 10;
                if (!want_table || table) cand.push_back(ri);
            }
            if (cand.empty()) continue;
            size_t ri = cand[g.below(cand.size())];
            size_t from = sc.records[ri].offset, to = sc.records[ri + 1].offset;
            std::vector<uint8_t> nb(b.begin(), b.begin() + from);
            const char* kind = "dangle";
            if (!want_table && g.coin()) {
                kind = "dup";
                nb.insert(nb.end(), b.begin() + from, b.begin() + to);
                nb.insert(nb.end(), b.begin() + from, b.end());
            } else {
                if (!want_table) kind = "cut";
                nb.insert(nb.end(), b.begin() + to, b.end());
            }
            snprintf(tag, sizeof tag, "b%zu#%zu:%u", bi, ri, sc.records[ri].id);
            emit(out, kind, tag, nb);
        }
    }
    out.close();
    return 0;
}
