// C12 / unit c12_cuts: the cut choice of Polygon::fracture (axis, cut positions) on the REAL code path.
// src/polygon.cpp is compiled into this translation unit with the call `slice(...)` inside Polygon::fracture renamed to
// logging_slice(...) (a macro around the #include; /repo is not edited): logging_slice writes the subject polygon, the axis
// flag and the cut array it receives to a log file and forwards to gdstk::slice, so every round of the fracture loop yields one
// (subject, axis, cuts) triple computed by the library itself.  The extracted Coq model FractureCuts.fracture_cuts
// (ocaml/c12_cuts_driver.ml) computes axis and cuts from the subject: compared bit for bit (hex doubles).
//   kind cuts    first round: the subject is the generated polygon           payload: L <limit> S <precision> N <n> x y x y ...
//   kind cutsn   later rounds: the subject is a piece Clipper returned       same payload
//   kind cutsall corpus / replay only: like cuts, all rounds on the real slice, a hang / crash of fracture is a failing oracle line
//   kind fracidx the expression `(uint64_t)(j * (count / (num_cuts + 1.0)))` for huge counts (compiler arithmetic vs Flocq)
// I: `x c1 c2 ...` / `y c1 ...` (hex doubles) / `nocall` / `crash` / `hang` (before the first call of slice).
// P: what the harness decides alone: cut list non-empty, non-decreasing, within the subject's extent on the chosen axis; the
//    first subject is the polygon itself; a crash on all-identical vertices is the repaired defect c12-fracture-scan-oob
//    (commit e912cb9 bounds the first scan); the doubles fracture allocates for `coords` end at an inaccessible page, so a
//    read past the array faults in every build.
#include <algorithm>
#include <gdstk/gdstk.hpp>
#include <gdstk/allocator.hpp>
#include <gdstk/font.hpp>
#include "clip_common.hpp"
#include <sys/mman.h>

namespace gdstk {
ErrorCode logging_slice(const Polygon& polygon, const Array<double>& positions, bool x_axis, double scaling, Array<Polygon*>* result);
void* guard_allocate(uint64_t size);
void guard_free(void* ptr);
}
// inside the included polygon.cpp: slice(...) -> logging_slice(...), allocate(...) -> guard_allocate(...),
// free_allocation(...) -> guard_free(...)   (the calls written in polygon.cpp itself; /repo is not edited)
#define slice logging_slice
#define allocate guard_allocate
#define free_allocation guard_free
#include "polygon.cpp"  // listed in include_cpp of checks/c12_cuts.py
#undef slice
#undef allocate
#undef free_allocation

using namespace gdstk;

static FILE* g_log = NULL;      // child only
static long g_calls = 0;        // calls of slice seen in this fracture
static long g_log_limit = 1;    // calls logged
static bool g_first_only = true;  // leave the child after the first call (arbitrary vertex lists: Clipper is not the subject here)
static bool g_guard = false;      // child only: blocks from polygon.cpp's own allocate() calls end at a PROT_NONE page
static const int GUARD_MAX = 4096;
static char* g_guard_lo[GUARD_MAX];
static char* g_guard_hi[GUARD_MAX];
static int g_guard_n = 0;

namespace gdstk {
ErrorCode logging_slice(const Polygon& polygon, const Array<double>& positions, bool x_axis, double scaling, Array<Polygon*>* result) {
    g_calls++;
    if (g_log && g_calls <= g_log_limit) {
        fprintf(g_log, "call %llu", (unsigned long long)polygon.point_array.count);
        for (uint64_t i = 0; i < polygon.point_array.count; i++)
            fprintf(g_log, " %s %s", hex_dbl(polygon.point_array[i].x).c_str(), hex_dbl(polygon.point_array[i].y).c_str());
        fprintf(g_log, " | %s %s %llu", x_axis ? "x" : "y", hex_dbl(scaling).c_str(), (unsigned long long)positions.count);
        for (uint64_t i = 0; i < positions.count; i++) fprintf(g_log, " %s", hex_dbl(positions[i]).c_str());
        fprintf(g_log, "\n");
        fflush(g_log);
    }
    if (g_first_only) {
        VERIF_COV_DUMP();
        _exit(0);
    }
    return slice(polygon, positions, x_axis, scaling, result);
}
// `double* coords = (double*)allocate(sizeof(double) * num_points)` of Polygon::fracture (and every other allocate() written in
// polygon.cpp): in a guarded child the block is placed so that its last byte is the last byte before an inaccessible page
void* guard_allocate(uint64_t size) {
    if (!g_guard || size == 0 || size % 8 != 0 || g_guard_n >= GUARD_MAX) return allocate(size);
    long page = sysconf(_SC_PAGESIZE);
    uint64_t body = (size + (uint64_t)page - 1) / (uint64_t)page * (uint64_t)page;
    char* base = (char*)mmap(NULL, body + (uint64_t)page, PROT_READ | PROT_WRITE, MAP_PRIVATE | MAP_ANONYMOUS, -1, 0);
    if (base == (char*)MAP_FAILED) return allocate(size);
    mprotect(base + body, (size_t)page, PROT_NONE);
    g_guard_lo[g_guard_n] = base;
    g_guard_hi[g_guard_n] = base + body;
    g_guard_n++;
    return base + body - size;
}
void guard_free(void* ptr) {
    for (int i = 0; i < g_guard_n; i++)
        if ((char*)ptr >= g_guard_lo[i] && (char*)ptr < g_guard_hi[i]) return;  // the child exits soon: never unmapped
    free_allocation(ptr);
}
}  // namespace gdstk

static bool g_thorough = false;

struct Call {
    DPoly subj;
    bool x_axis;
    double scaling;
    std::vector<double> cuts;
};

static std::vector<Call> read_log(const std::string& fn) {
    std::vector<Call> v;
    FILE* f = fopen(fn.c_str(), "r");
    if (!f) return v;
    char* line = NULL;
    size_t cap = 0;
    while (getline(&line, &cap, f) > 0) {
        std::string s(line);
        if (s.empty() || s.back() != '\n') break;  // a line cut short by a crash
        char* p = line;
        if (strncmp(p, "call ", 5) != 0) continue;
        p += 5;
        Call c;
        uint64_t n = strtoull(p, &p, 10);
        for (uint64_t i = 0; i < n; i++) {
            uint64_t a = strtoull(p, &p, 16), b = strtoull(p, &p, 16);
            c.subj.push_back(Vec2{bits_dbl(a), bits_dbl(b)});
        }
        while (*p == ' ' || *p == '|') p++;
        c.x_axis = *p == 'x';
        p++;
        c.scaling = bits_dbl(strtoull(p, &p, 16));
        uint64_t m = strtoull(p, &p, 10);
        for (uint64_t i = 0; i < m; i++) c.cuts.push_back(bits_dbl(strtoull(p, &p, 16)));
        v.push_back(c);
    }
    free(line);
    fclose(f);
    return v;
}

static std::string payload_of(uint64_t limit, double precision, const DPoly& P) {
    std::string s = "L " + hex_u64(limit) + " S " + hex_dbl(precision) + " N " + hex_u64(P.size());
    s.reserve(s.size() + P.size() * 34);
    for (auto& v : P) {
        s += ' ';
        s += hex_dbl(v.x);
        s += ' ';
        s += hex_dbl(v.y);
    }
    return s;
}

static std::string result_text(const Call& c) {
    std::string s = c.x_axis ? "x" : "y";
    for (double d : c.cuts) {
        s += ' ';
        s += hex_dbl(d);
    }
    return s;
}

static bool same_points(const DPoly& a, const DPoly& b) {
    if (a.size() != b.size()) return false;
    for (size_t i = 0; i < a.size(); i++)
        if (dbl_bits(a[i].x) != dbl_bits(b[i].x) || dbl_bits(a[i].y) != dbl_bits(b[i].y)) return false;
    return true;
}

// what can be said about one (subject, axis, cuts) triple without any model
static std::string cuts_oracle(const Call& c) {
    if (c.cuts.empty()) return "FAIL c12-cuts-empty fracture called slice without a cut";
    double lo = 0, hi = 0;
    bool first = true;
    for (auto& v : c.subj) {
        double t = c.x_axis ? v.x : v.y;
        if (first || t < lo) lo = t;
        if (first || t > hi) hi = t;
        first = false;
    }
    for (size_t i = 0; i < c.cuts.size(); i++) {
        if (!(c.cuts[i] >= lo && c.cuts[i] <= hi)) return "FAIL c12-cuts-outside cut " + hex_dbl(c.cuts[i]) + " is outside the subject's extent on the chosen axis";
        if (i > 0 && c.cuts[i] < c.cuts[i - 1]) return "FAIL c12-cuts-unsorted the cut list given to slice decreases at index " + std::to_string(i);
    }
    return "ok";
}

static bool all_identical(const DPoly& P) {
    for (auto& v : P)
        if (!(v.x == P[0].x && v.y == P[0].y)) return false;
    return true;
}

// one fracture call in a child; `expand`: forward to the real slice and log the later rounds too
static void run_cuts(Out& out, const DPoly& P, uint64_t limit, double precision, bool expand, const std::string& shape,
                     const std::string& kind = "cuts") {
    std::string logfn = out.dir + "/c12_cuts_log.txt";
    remove(logfn.c_str());
    bool degenerate = limit > 4 && P.size() > limit && all_identical(P);
    std::string res = in_child(
        [&](FILE* o) {
            g_log = fopen(logfn.c_str(), "w");
            g_calls = 0;
            g_first_only = !expand;
            g_log_limit = expand ? (g_thorough ? 24 : 12) : 1;
            Polygon* poly = make_polygon(P);
            g_guard = true;
            Array<Polygon*> result = {};
            poly->fracture(limit, precision, result);
            fprintf(o, "done %llu", (unsigned long long)result.count);
            if (g_log) fclose(g_log);
        },
        expand ? 20 : 10);
    std::vector<Call> calls = read_log(logfn);
    remove(logfn.c_str());
    bool finished = res.compare(0, 5, "done ") == 0 || (res.empty() && !calls.empty());  // first-only children leave inside slice
    std::string id = out.add(kind, payload_of(limit, precision, P));
    out.count("cuts:shape:" + shape);
    out.count(std::string("cuts:limit:") + (limit < 5 ? "below5" : limit <= 10 ? "5-10" : limit <= 50 ? "11-50" : "51-200"));
    size_t nv = P.size();
    out.count(std::string("cuts:vertices:") + (nv <= 20 ? "<=20" : nv <= 200 ? "21-200" : nv <= 1000 ? "201-1000" : ">1000"));
    if (calls.empty()) {
        std::string r = finished ? "nocall" : (res == "HANG" ? "hang" : "crash");
        out.I(id, r);
        out.count("cuts:result:" + r);
        if (degenerate && !finished)
            out.P(id, "FAIL c12-fracture-scan-oob every vertex is the same point and fracture did not reach slice (the scan for the first interior coordinate must stop at the end of the coords array): " + res.substr(0, 30));
        else if (!finished)
            out.P(id, "FAIL c12-cuts-" + r + " fracture did not reach slice: " + res.substr(0, 40));
        else out.P(id, "ok");
        return;
    }
    const Call& c = calls[0];
    out.I(id, result_text(c));
    out.count(std::string("cuts:axis:") + (c.x_axis ? "x" : "y"));
    {
        // which of the three rules applied (from the subject alone: coordinates strictly between the extremes)
        uint64_t num_cuts = limit ? P.size() / limit : 0, interior = 0;
        double lo = 0, hi = 0;
        for (size_t i = 0; i < P.size(); i++) {
            double t = c.x_axis ? P[i].x : P[i].y;
            if (i == 0 || t < lo) lo = t;
            if (i == 0 || t > hi) hi = t;
        }
        for (auto& v : P) {
            double t = c.x_axis ? v.x : v.y;
            if (t > lo && t < hi) interior++;
        }
        out.count(std::string("cuts:rule:") + (interior == 0 ? "midpoint" : interior <= num_cuts ? "all-interior" : interior == num_cuts + 1 ? "frac-count=cuts+1" : "frac"));
        out.count(std::string("cuts:num_cuts:") + (num_cuts <= 1 ? "1" : num_cuts <= 4 ? "2-4" : num_cuts <= 20 ? "5-20" : ">20"));
    }
    if (degenerate) out.count("cuts:one-point-returned");
    if (!same_points(c.subj, P)) out.P(id, "FAIL c12-cuts-subject the first subject handed to slice is not the polygon itself");
    else if (kind == "cutsall" && !finished)
        out.P(id, std::string("FAIL c12-cutsall-") + (res == "HANG" ? "hang" : "crash") + " fracture did not return (" + res.substr(0, 30) + ") after " + std::to_string(calls.size()) + " logged rounds; last logged cut list: " + result_text(calls.back()).substr(0, 60));
    else out.P(id, cuts_oracle(c));
    if (!finished) out.count(res == "HANG" ? "cuts:later-hang" : "cuts:later-crash");
    // later rounds: subjects are pieces Clipper returned
    for (size_t i = 1; i < calls.size(); i++) {
        const Call& d = calls[i];
        std::string id2 = out.add("cutsn", payload_of(limit, precision, d.subj));
        out.I(id2, result_text(d));
        out.P(id2, cuts_oracle(d));
        out.count(std::string("cutsn:axis:") + (d.x_axis ? "x" : "y"));
    }
}

// ---------------------------------------------------------------- the index expression for huge counts
static void run_fracidx(Out& out, uint64_t count, uint64_t num_cuts, uint64_t j) {
    volatile uint64_t vc = count, vn = num_cuts, vj = j;  // no constant folding
    // verbatim from Polygon::fracture:
    //   const double frac = interior_coords.count / (num_cuts + 1.0);  ... (uint64_t)(j * frac)
    const double frac = vc / (vn + 1.0);
    uint64_t idx = (uint64_t)(vj * frac);
    std::string id = out.add("fracidx", hex_u64(count) + " " + hex_u64(num_cuts) + " " + hex_u64(j));
    out.I(id, hex_dbl(frac) + " " + hex_u64(idx));
    out.P(id, idx < count ? "ok" : "FAIL c12-cuts-index-oob (uint64_t)(j * frac) is not below the count");
}

// ---------------------------------------------------------------- generators
static double pick_precision(Rng& g) {
    static const double p[] = {1e-3, 1e-2, 1.0, 1.0 / 1024, 1e-6, 0.5};
    return p[g.below(6)];
}
static uint64_t pick_limit(Rng& g) {
    return g.chance(10) ? 3 + g.below(2) : (g.chance(35) ? 5 + g.below(4) : 5 + g.below(196));
}

// a vertex list from two coordinate multisets (not a simple polygon in general: first round only)
static DPoly from_coords(Rng& g, std::vector<double> xs, std::vector<double> ys) {
    DPoly P;
    for (size_t i = xs.size(); i > 1; i--) std::swap(xs[i - 1], xs[g.below(i)]);
    for (size_t i = ys.size(); i > 1; i--) std::swap(ys[i - 1], ys[g.below(i)]);
    for (size_t i = 0; i < xs.size(); i++) P.push_back(Vec2{xs[i], ys[i]});
    return P;
}

static double rnd_double(Rng& g, int kind) {
    switch (kind) {
        case 0: return (double)g.range(-1000, 1000) * 1e-3;                        // decimal grid
        case 1: return (double)g.range(-100000, 100000) / 1024.0;                  // dyadic grid
        case 2: return (double)g.range(-20, 20);                                   // small integers (many repeats)
        case 3: return ldexp((double)g.range(-(1LL << 52), 1LL << 52), (int)g.range(-60, 10));  // full mantissas
        case 4: return (g.coin() ? -1.0 : 1.0) * ldexp(1.0, (int)g.range(-1074, -1000)) * (double)g.below(8);  // subnormal, +-0
        default: return (double)g.range(-3, 3) * 0.5 * (g.chance(10) ? -0.0 : 1.0);  // tiny set with -0.0
    }
}

static void gen_case(Out& out, Rng& g) {
    uint64_t limit = pick_limit(g);
    double precision = pick_precision(g);
    int sel = (int)g.below(100);
    if (sel < 22) {
        // simple polygons on the grid, all rounds logged (the later subjects come from Clipper)
        int64_t S = 1000;
        precision = 1e-3;
        IPoly ip;
        std::string shape;
        switch (g.below(6)) {
            case 0: ip = g_star(g, g.range(-500, 500), g.range(-500, 500), 50, 4000, (int)g.range(6, g_thorough ? 900 : 300)); shape = "star"; break;
            case 1: ip = g_comb(g, g.range(-500, 500), g.range(-500, 500), (int)g.range(2, 60), g.range(2, 30), g.range(2, 30), g.range(5, 50), g.range(5, 400)); shape = "comb"; break;
            case 2: ip = g_saw(g, g.range(-500, 500), g.range(-500, 500), (int)g.range(2, 80), 2 * g.range(2, 20), g.range(2, 30), g.range(2, 200)); shape = "saw"; break;
            case 3: ip = g_stairs(g, g.range(-500, 500), g.range(-500, 500), (int)g.range(3, 100), g.range(1, 12)); shape = "stairs"; break;
            case 4: ip = g_spiral(g.range(-100, 100), g.range(-100, 100), g.range(200, 900), g.range(12, 40), g.range(1, 5), (int)g.range(4, 60)); shape = "spiral"; break;
            default: ip = g_convex(g, g.range(-500, 500), g.range(-500, 500), g.range(20, 5000), (int)g.range(6, 400)); shape = "convex"; break;
        }
        if (g.chance(40)) ip = add_collinear(g, ip, 40, 20);
        if (g.chance(30))  // swap the axes: the y rule is exercised as often as the x rule
            for (auto& v : ip) std::swap(v.first, v.second);
        random_orient(g, ip);
        if (ip.size() < 3) return;
        if (g.coin() && ip.size() > 12) limit = std::max<uint64_t>(5, ip.size() - 1 - g.below(ip.size() / 2));
        bool simple = ip.size() <= 600 && is_simple(ip);
        run_cuts(out, to_double(ip, (double)S, g.chance(20) ? (int)g.range(1, 3) : 0), limit, precision, simple, shape);
        return;
    }
    if (limit < 5) limit = 5 + g.below(6);
    if (sel < 30) {
        // frac rule where j * count / (num_cuts + 1) is an integer for some j although count / (num_cuts + 1) is not a double:
        // the truncation sees on which side of the integer the two roundings land
        // half of the time a (count, num_cuts) pair on which the double computation differs from the exact quotient
        // floor(j * count / (num_cuts + 1)) for some j (found by search: about one pair in a hundred)
        uint64_t k = 2 + g.below(g.chance(70) ? 12 : 60), count = 0;
        if (g.coin()) {
            for (int tries = 0; tries < 2000 && !count; tries++) {
                uint64_t kk = 2 + g.below(60), cc = kk + 1 + g.below(g_thorough ? 3000 : 1200);
                volatile double frac = cc / (kk + 1.0);
                for (uint64_t j = 1; j <= kk; j++)
                    if ((uint64_t)(j * frac) != j * cc / (kk + 1)) {
                        k = kk;
                        count = cc;
                        break;
                    }
            }
        }
        uint64_t n;
        if (count) {
            limit = std::max<uint64_t>(5, (count + 3 + k) / (k + 1)) + g.below(3);
            n = std::max<uint64_t>(k * limit, count + 2);
            if (n / limit != k) n = k * limit + limit - 1;
        } else {
            limit = 5 + g.below(40);
            n = k * limit + g.below(limit);
            std::vector<uint64_t> divs;
            for (uint64_t d = 2; d <= k + 1; d++)
                if ((k + 1) % d == 0) divs.push_back(d);
            uint64_t gd = divs[g.below(divs.size())];
            uint64_t unit = (k + 1) / gd, tmax = (n - 2) / unit;
            uint64_t t = tmax ? 1 + g.below(tmax) : 1;
            count = t * unit;
            if (count <= k) count = (k / unit + 1) * unit;
            if (count > n - 2) count = n - 2;
        }
        int ck = (int)g.below(4);
        std::vector<double> vals;
        for (uint64_t i = 0; i < count + 2; i++) vals.push_back(rnd_double(g, ck));
        std::sort(vals.begin(), vals.end());
        if (vals.front() == vals.back()) vals.back() = vals.front() + 1.0;
        // make the extremes strict: interior values equal to an extreme would not be interior
        for (uint64_t i = 1; i <= count; i++) {
            if (vals[i] <= vals.front()) vals[i] = nextafter(vals.front(), INFINITY);
            if (vals[i] >= vals.back()) vals[i] = nextafter(vals.back(), -INFINITY);
        }
        std::vector<double> main_axis(vals.begin(), vals.end()), other;
        while (main_axis.size() < n) main_axis.push_back(g.coin() ? vals.front() : vals.back());
        for (uint64_t i = 0; i < n; i++) other.push_back(vals.front() + (vals.back() - vals.front()) * 0.5 * (double)g.below(1000) / 1000.0);
        bool xmain = g.coin();
        run_cuts(out, xmain ? from_coords(g, main_axis, other) : from_coords(g, other, main_axis), limit, precision, false, "frac-exact");
        return;
    }
    if (sel < 44) {
        // few distinct interior values: the chosen axis has its vertices on the two extreme lines except for m of them,
        // m around num_cuts (m = 0: midpoint rule; m <= num_cuts: all interior; m = num_cuts + 1, + 2: first frac cases)
        uint64_t n = limit + 1 + g.below(g.chance(30) ? 6 * limit : limit);
        uint64_t num_cuts = n / limit;
        int64_t m;
        switch (g.below(6)) {
            case 0: m = 0; break;
            case 1: m = (int64_t)g.below(num_cuts + 1); break;
            case 2: m = (int64_t)num_cuts; break;
            case 3: m = (int64_t)num_cuts + 1; break;
            case 4: m = (int64_t)num_cuts + 2; break;
            default: m = (int64_t)g.below(n - 1); break;
        }
        if ((uint64_t)m > n - 2) m = (int64_t)n - 2;
        int ck = (int)g.below(5);
        double lo = rnd_double(g, ck), hi = rnd_double(g, ck);
        if (lo > hi) std::swap(lo, hi);
        if (lo == hi) hi = lo + 1.0;
        std::vector<double> main_axis, other;
        uint64_t nlo = 1 + g.below(n - 1 - (uint64_t)m);
        for (uint64_t i = 0; i < n; i++) {
            double t;
            if (i < nlo) t = lo;
            else if (i < nlo + (uint64_t)m) {
                // interior values, few distinct ones
                double fr = (double)(1 + g.below(g.chance(50) ? 3 : 1000)) / 1001.0;
                t = lo + (hi - lo) * fr;
                if (!(t > lo && t < hi)) t = lo;  // adjacent extremes: no interior value exists
            } else t = hi;
            main_axis.push_back(t);
            other.push_back(lo + (hi - lo) * (double)g.below(1000) / 1000.0 * (g.chance(20) ? 1.0 : 0.5));
        }
        bool xmain = g.coin();
        DPoly P = xmain ? from_coords(g, main_axis, other) : from_coords(g, other, main_axis);
        run_cuts(out, P, limit, precision, false, "few-interior");
        return;
    }
    if (sel < 57) {
        // large counts: the frac rule with many different count / num_cuts pairs
        uint64_t n = (g_thorough ? 1000 : 300) + g.below(g_thorough ? 4000 : 1500);
        if (g.chance(50)) limit = 5 + g.below(20);
        int ck = (int)g.below(4);
        std::vector<double> xs, ys;
        uint64_t distinct = g.chance(40) ? 2 + g.below(30) : 0;  // many repeated coordinates
        std::vector<double> pool;
        for (uint64_t i = 0; i < distinct; i++) pool.push_back(rnd_double(g, ck));
        for (uint64_t i = 0; i < n; i++) {
            xs.push_back(distinct ? pool[g.below(distinct)] : rnd_double(g, ck));
            ys.push_back(distinct && g.coin() ? pool[g.below(distinct)] : rnd_double(g, ck));
        }
        run_cuts(out, from_coords(g, xs, ys), limit, precision, false, "large");
        return;
    }
    if (sel < 65) {
        // degenerate chosen axis
        uint64_t n = limit + 1 + g.below(3 * limit);
        double vx = rnd_double(g, (int)g.below(6)), vy = rnd_double(g, (int)g.below(6));
        DPoly P;
        int mode = (int)g.below(4);
        for (uint64_t i = 0; i < n; i++) {
            Vec2 v{vx, vy};
            if (mode == 1) v.x = vx + (double)g.below(4);              // horizontal line: y degenerate, x chosen
            if (mode == 2) v.y = vy + (double)g.below(4);              // vertical line: x degenerate, y chosen
            if (mode == 3) { v.x = vx + (double)g.below(3); v.y = vy + (double)g.below(3); }  // 3 x 3 lattice (extent tie)
            P.push_back(v);
        }
        if (mode == 0 && g.coin())   // same point, different zero signs
            for (auto& v : P) { if (v.x == 0) v.x = g.coin() ? 0.0 : -0.0; if (v.y == 0) v.y = g.coin() ? 0.0 : -0.0; }
        run_cuts(out, P, limit, precision, false, mode == 0 ? "one-point" : mode == 1 ? "horizontal" : mode == 2 ? "vertical" : "lattice");
        return;
    }
    if (sel < 80) {
        // near-equal extents: the axis test next to a tie, including extents whose difference vanishes in the rounding
        uint64_t n = limit + 1 + g.below(2 * limit);
        int ck = (int)g.below(4);
        double x0 = rnd_double(g, ck), y0 = rnd_double(g, ck);
        double ext = fabs(rnd_double(g, ck)) + ldexp(1.0, -20);
        double x1 = x0 + ext, y1 = y0 + ext;
        switch (g.below(6)) {
            case 0: break;
            case 1: x1 = nextafter(x1, INFINITY); break;
            case 2: y1 = nextafter(y1, INFINITY); break;
            case 3: x0 = nextafter(x0, -INFINITY); break;
            case 4: y0 = x0; y1 = x1; break;
            default: x0 -= ldexp(ext, -54 - (int)g.below(8)); break;  // exact extent larger, rounded extent equal
        }
        std::vector<double> xs{x0, x1}, ys{y0, y1};
        while (xs.size() < n) {
            xs.push_back(x0 + (x1 - x0) * (double)g.below(1 + g.below(64)) / 64.0);
            ys.push_back(y0 + (y1 - y0) * (double)g.below(1 + g.below(64)) / 64.0);
        }
        for (auto& t : xs) if (t < x0 || t > x1) t = x0;
        for (auto& t : ys) if (t < y0 || t > y1) t = y0;
        run_cuts(out, from_coords(g, xs, ys), limit, precision, false, "axis-tie");
        return;
    }
    if (sel < 92) {
        // midpoint rule with adjacent doubles / doubles a few ulps apart / opposite signs / subnormals
        uint64_t n = limit + 1 + g.below(limit);
        int ck = (int)g.below(6);
        double a = rnd_double(g, ck), b = a;
        int steps = (int)g.below(4);  // 0: equal -> repaired below, 1: adjacent, 2..3: a few ulps
        for (int i = 0; i <= steps; i++) b = nextafter(b, INFINITY);
        if (g.chance(15)) { a = -fabs(b); b = fabs(b); if (a == b) b = 1.0; }
        std::vector<double> main_axis, other;
        for (uint64_t i = 0; i < n; i++) {
            main_axis.push_back(i == 0 ? a : i == 1 ? b : (g.coin() ? a : b));
            other.push_back((b - a) * (double)g.below(17) / 16.0);  // extent not above b - a: the two-valued axis is chosen when it is y
        }
        bool xmain = g.coin();
        DPoly P = xmain ? from_coords(g, main_axis, other) : from_coords(g, other, main_axis);
        run_cuts(out, P, limit, precision, false, "midpoint");
        return;
    }
    // the index expression alone, counts up to 2^53
    for (int r = 0; r < 8; r++) {
        uint64_t count, num_cuts;
        switch (g.below(4)) {
            case 0: count = 2 + g.below(1000); break;
            case 1: count = 2 + g.below(1ULL << 32); break;
            case 2: count = (1ULL << 53) - 1 - g.below(1000); break;
            default: count = 2 + (g.next() >> (11 + g.below(40))); break;
        }
        if (count >= (1ULL << 53)) count = (1ULL << 53) - 1;
        uint64_t kmax = std::min<uint64_t>(count - 1, (1ULL << 51));
        switch (g.below(4)) {
            case 0: num_cuts = 1 + g.below(std::min<uint64_t>(kmax, 50)); break;
            case 1: num_cuts = kmax - g.below(std::min<uint64_t>(kmax, 50)); break;
            default: num_cuts = 1 + g.below(kmax); break;
        }
        uint64_t j;
        switch (g.below(3)) {
            case 0: j = num_cuts - g.below(std::min<uint64_t>(num_cuts, 4)); break;
            case 1: j = 1 + g.below(std::min<uint64_t>(num_cuts, 4)); break;
            default: j = 1 + g.below(num_cuts); break;
        }
        run_fracidx(out, count, num_cuts, j);
    }
}

// replay / corpus: the payload carries everything
static void run_case(Out& out, const std::string& kind, const std::string& payload) {
    if (kind == "fracidx") {
        const char* s = payload.c_str();
        char* e;
        uint64_t c = strtoull(s, &e, 16), k = strtoull(e, &e, 16), j = strtoull(e, &e, 16);
        run_fracidx(out, c, k, j);
        return;
    }
    if (kind != "cuts" && kind != "cutsn" && kind != "cutsall") return;
    const char* s = payload.c_str();
    if (strncmp(s, "L ", 2) != 0) return;
    char* e;
    uint64_t limit = strtoull(s + 2, &e, 16);
    while (*e == ' ') e++;
    if (*e != 'S') return;
    double precision = bits_dbl(strtoull(e + 1, &e, 16));
    while (*e == ' ') e++;
    if (*e != 'N') return;
    uint64_t n = strtoull(e + 1, &e, 16);
    DPoly P;
    for (uint64_t i = 0; i < n; i++) {
        uint64_t a = strtoull(e, &e, 16), b = strtoull(e, &e, 16);
        P.push_back(Vec2{bits_dbl(a), bits_dbl(b)});
    }
    // cutsall (corpus / replay only): all rounds on the real slice; a fracture that does not return is a failing oracle line
    run_cuts(out, P, limit, precision, kind == "cutsall", "replay", kind);
}

int main(int argc, char** argv) {
    if (argc < 4) {
        fprintf(stderr, "usage: c12_cuts seed tier outdir [corpus] [replay]\n");
        return 2;
    }
    uint64_t seed = strtoull(argv[1], NULL, 10);
    g_thorough = strcmp(argv[2], "thorough") == 0;
    set_error_logger(NULL);
    Out out;
    out.open(argv[3]);
    Rng g(seed * 0x100000001B3ULL + 12345);
    if (argc > 5) {
        std::string k, p;
        if (load_replay(argv[5], k, p)) run_case(out, k, p);
        out.close();
        return 0;
    }
    for (auto& c : load_corpus(argc > 4 ? argv[4] : NULL)) run_case(out, c.first, c.second);
    long N = g_thorough ? 8000 : 500;
    for (long i = 0; i < N; i++) gen_case(out, g);
    out.close();
    return 0;
}
