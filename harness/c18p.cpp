// C18P harness: the real oas_precision against its statement-level Coq model (coq/OasisPrecision.v) on EVERY prefix of
// OASIS files.  One case per file (payload "<tag> x<hex bytes>", the bytes are the last word); the result is the
// run-length encoded list of the statuses of the cuts 0 .. size:
//     ok <16 hex digits of the double> | ok nan | invalid | eof | overflow | err<code> | crash | hang   as `status*count;...`
// Each sweep runs in a forked child with an alarm; after a crash the sweep is resumed behind the crashing cut.
//   kind gdstk : files written by gdstk (write_oas, several unit / precision pairs, option words, deflate levels)
//   kind start : START records built by hand: every real type 0-7 for the unit (integers, reciprocals, ratios, float32,
//                float64; minimal and padded unsigned integers), version "1.0" or longer strings starting with it, a tail
//                of further bytes
//   kind odd   : other headers: wrong magic byte, versions "2.0" / "1." / empty, invalid real type, 11-byte integers
//                (Overflow), NaN / zero / negative / infinite units
//   kind bigstr: a version string whose declared length (2^40) cannot be allocated (the one input class on which
//                oas_precision does not return: oas_precision_total_refuted)
#include <fcntl.h>
#include <algorithm>
#include <gdstk/gdstk.hpp>
#include "common.hpp"

using namespace gdstk;

static std::string g_outdir;

static void spit(const std::string& path, const uint8_t* p, size_t n) {
    FILE* f = fopen(path.c_str(), "wb");
    if (!f) return;
    if (n) fwrite(p, 1, n, f);
    fclose(f);
}
static std::vector<uint8_t> slurp(const std::string& path) {
    std::vector<uint8_t> v;
    FILE* f = fopen(path.c_str(), "rb");
    if (!f) return v;
    uint8_t buf[65536];
    size_t r;
    while ((r = fread(buf, 1, sizeof buf, f)) > 0) v.insert(v.end(), buf, buf + r);
    fclose(f);
    return v;
}

static std::string status_of(const std::string& path) {
    double p = 0;
    ErrorCode err = oas_precision(path.c_str(), p);
    switch (err) {
        case ErrorCode::NoError:
            if (p != p) return "ok nan";
            return "ok " + hex_dbl(p);
        case ErrorCode::InvalidFile: return "invalid";
        case ErrorCode::InputFileError: return "eof";
        case ErrorCode::Overflow: return "overflow";
        default: return "err" + std::to_string((int)err);
    }
}

// statuses of the cuts 0 .. size
static std::vector<std::string> sweep(const std::vector<uint8_t>& bytes) {
    size_t hi = bytes.size();
    std::vector<std::string> res(hi + 1);
    size_t next = 0;
    std::string path = g_outdir + "/cut.oas";
    while (next <= hi) {
        int fd[2];
        if (pipe(fd) != 0) exit(4);
        fflush(NULL);
        pid_t pid = fork();
        if (pid == 0) {
            ::close(fd[0]);
            int dn = open("/dev/null", O_WRONLY);
            if (dn >= 0) dup2(dn, 2);
            set_error_logger(NULL);
            FILE* o = fdopen(fd[1], "w");
            for (size_t n = next; n <= hi; n++) {
                alarm(20);
                spit(path, bytes.data(), n);
                std::string st = status_of(path);
                fprintf(o, "%zu\t%s\n", n, st.c_str());
                fflush(o);
            }
            _exit(0);
        }
        ::close(fd[1]);
        FILE* in = fdopen(fd[0], "r");
        char* line = NULL;
        size_t cap = 0;
        size_t done = next;
        while (getline(&line, &cap, in) > 0) {
            std::string s(line);
            while (!s.empty() && s.back() == '\n') s.pop_back();
            size_t t = s.find('\t');
            if (t == std::string::npos) continue;
            size_t n = (size_t)strtoull(s.c_str(), NULL, 10);
            if (n <= hi) { res[n] = s.substr(t + 1); done = n + 1; }
        }
        free(line);
        fclose(in);
        int st = 0;
        waitpid(pid, &st, 0);
        if (done <= hi && (WIFSIGNALED(st) || (WIFEXITED(st) && WEXITSTATUS(st) != 0))) {
            res[done] = (WIFSIGNALED(st) && WTERMSIG(st) == SIGALRM) ? "hang" : "crash";
            done++;
        } else if (done <= hi) {  // the child ended without a signal before the last cut: should not happen
            res[done] = "crash";
            done++;
        }
        next = done;
    }
    return res;
}

static std::string rle(const std::vector<std::string>& v) {
    std::string s;
    size_t i = 0;
    while (i < v.size()) {
        size_t j = i;
        while (j < v.size() && v[j] == v[i]) j++;
        if (!s.empty()) s += ";";
        s += v[i] + "*" + std::to_string(j - i);
        i = j;
    }
    return s;
}

static void run_case(Out& out, const std::string& kind, const std::string& payload) {
    size_t sp = payload.rfind(' ');
    std::string hex = sp == std::string::npos ? payload : payload.substr(sp + 1);
    if (!hex.empty() && hex[0] == 'x') hex = hex.substr(1);
    std::vector<uint8_t> bytes = unhex(hex);
    std::string id = out.add(kind, payload);
    std::vector<std::string> st = sweep(bytes);
    out.I(id, rle(st));
    out.count("cuts", (long)st.size());
    // property-level oracle, from the implementation alone: err* then one ok value, no crash / hang
    std::string full = st.back(), verdict = "ok";
    bool seen_ok = false;
    for (size_t n = 0; n < st.size() && verdict == "ok"; n++) {
        const std::string& s = st[n];
        if (s == "crash" || s == "hang") {
            if (kind != "bigstr") verdict = "FAIL oas_precision:short-file oas_precision " + s + " on the first " + std::to_string(n) + " bytes";
        } else if (s.compare(0, 2, "ok") == 0) {
            seen_ok = true;
            if (full.compare(0, 2, "ok") == 0 && s != full)
                verdict = "FAIL oas-truncation:oas_precision cut " + std::to_string(n) + " gives [" + s + "], complete file [" + full + "]";
        } else if (seen_ok && full.compare(0, 2, "ok") == 0) {
            verdict = "FAIL oas-truncation:oas_precision error after a successful shorter cut, cut " + std::to_string(n);
        }
    }
    out.P(id, verdict);
    out.count("full:" + (full.compare(0, 2, "ok") == 0 ? std::string("ok") : full));
}
static void emit(Out& out, const std::string& kind, const std::string& tag, const std::vector<uint8_t>& b) {
    run_case(out, kind, tag + " x" + hex_bytes(b.data(), b.size()));
}

// ------------------------------------------------------------------ generators
struct B {
    std::vector<uint8_t> b;
    void byte(unsigned v) { b.push_back((uint8_t)v); }
    void uint(uint64_t v, bool pad = false) {
        while (true) {
            uint8_t c = v & 0x7f;
            v >>= 7;
            if (v || pad) {
                b.push_back(c | 0x80);
                if (!v) { b.push_back(0); break; }
            } else { b.push_back(c); break; }
        }
    }
    void str(const std::string& s) { uint(s.size()); b.insert(b.end(), s.begin(), s.end()); }
    void magic() { static const char m[] = "%SEMI-OASIS\r\n"; for (int i = 0; i < 13; i++) byte((unsigned char)m[i]); }
    void f32(float f) { uint32_t u; memcpy(&u, &f, 4); for (int k = 0; k < 4; k++) byte((u >> (8 * k)) & 0xff); }
    void f64(double d) { uint64_t u = dbl_bits(d); for (int k = 0; k < 8; k++) byte((unsigned)((u >> (8 * k)) & 0xff)); }
};

static void write_real(B& w, Rng& g, unsigned type) {
    auto big = [&]() -> uint64_t {
        switch (g.below(5)) {
            case 0: return g.below(10);
            case 1: return 1000;
            case 2: return g.below(1000000);
            case 3: return g.next();
            default: return g.next() >> g.below(60);
        }
    };
    w.byte(type);
    bool pad = g.chance(10);
    switch (type) {
        case 0: case 1: case 2: case 3: w.uint(big(), pad); break;
        case 4: case 5: w.uint(big(), pad); w.uint(big(), g.chance(10)); break;
        case 6:
            switch (g.below(5)) {
                case 0: w.f32((float)g.range(1, 100000) / 64.0f); break;
                case 1: w.f32(1000.0f); break;
                case 2: { uint32_t u = (uint32_t)g.next(); float f; memcpy(&f, &u, 4); w.f32(f); } break;
                case 3: w.f32(0.0f); break;
                default: w.f32(-(float)g.range(1, 5000));
            }
            break;
        default:
            switch (g.below(6)) {
                case 0: w.f64(1000.0); break;
                case 1: w.f64((double)g.range(1, 100000000) / 1024.0); break;
                case 2: w.f64(bits_dbl(g.next())); break;
                case 3: w.f64(0.0); break;
                case 4: w.f64(bits_dbl(0x7ff0000000000000ULL | (g.coin() ? 0 : g.below(1ULL << 52)))); break;  // inf / NaN
                default: w.f64(1e-6 / 7.3e-10);
            }
    }
}
static void tail(B& w, Rng& g) {
    if (g.coin()) { w.byte(g.coin() ? 1 : 0); }            // offset flag
    size_t n = (size_t)g.below(40);
    for (size_t i = 0; i < n; i++) w.byte((unsigned)g.below(256));
}

static std::vector<uint8_t> gdstk_file(uint64_t s, double unit, double precision, unsigned flags, unsigned level) {
    std::string res = in_child([&](FILE* o) {
        int dn = open("/dev/null", O_WRONLY);
        if (dn >= 0) dup2(dn, 2);
        set_error_logger(NULL);
        Rng g(s);
        Library lib = {};
        lib.init("LIB", unit, precision);
        int nc = 1 + (int)g.below(3);
        for (int c = 0; c < nc; c++) {
            Cell* cell = (Cell*)allocate_clear(sizeof(Cell));
            cell->name = copy_string(("C" + std::to_string(c)).c_str(), NULL);
            int np = (int)g.below(4);
            for (int k = 0; k < np; k++) {
                Polygon* p = (Polygon*)allocate_clear(sizeof(Polygon));
                double x = (double)g.range(-50, 50), y = (double)g.range(-50, 50);
                *p = rectangle(Vec2{x, y}, Vec2{x + (double)g.range(1, 20), y + (double)g.range(1, 20)}, make_tag((uint32_t)g.below(5), 0));
                cell->polygon_array.append(p);
            }
            lib.cell_array.append(cell);
        }
        std::string f = g_outdir + "/w.oas";
        lib.write_oas(f.c_str(), 0, (uint8_t)level, (uint16_t)flags);
        std::vector<uint8_t> file = slurp(f);
        fputs(hex_bytes(file.data(), file.size()).c_str(), o);
    }, 30);
    if (res.compare(0, 5, "CRASH") == 0 || res == "HANG") return {};
    return unhex(res);
}

int main(int argc, char** argv) {
    if (argc < 4) {
        fprintf(stderr, "usage: c18p seed tier outdir [corpus] [replay]\n");
        return 2;
    }
    uint64_t seed = strtoull(argv[1], NULL, 10);
    bool thorough = strcmp(argv[2], "thorough") == 0;
    g_outdir = argv[3];
    set_error_logger(NULL);
    Out out;
    out.open(argv[3]);
    if (argc > 5) {
        std::string k, p;
        if (load_replay(argv[5], k, p)) run_case(out, k, p);
        out.close();
        return 0;
    }
    for (auto& c : load_corpus(argc > 4 ? argv[4] : NULL))
        if (c.first == "precision") run_case(out, c.first, c.second);
    Rng g0(seed);
    Rng g(g0.next());
    char tag[96];
    // (a) gdstk-written files
    static const double units[][2] = {{1e-6, 1e-9}, {1e-6, 1e-6}, {1e-9, 1e-9}, {1e-6, 5e-9}, {1e-6, 2.5e-10}, {1e-6, 1e-12},
                                      {1e-6, 3e-9}, {1e-6, 1e-6 / 3}, {1e-3, 7.3e-10}, {1.0, 1.0}, {1e-6, 1e-3}, {2e-6, 1e-9}};
    long ngd = thorough ? 400 : 36;
    for (long i = 0; i < ngd; i++) {
        const double* u = units[i % 12];
        unsigned flags = (unsigned)g.below(256), level = g.chance(50) ? 0 : (unsigned)g.below(10);
        std::vector<uint8_t> b = gdstk_file(g.next() >> 1, u[0], u[1], flags, level);
        if (b.empty()) { out.count("gdstk:write-failed"); continue; }
        snprintf(tag, sizeof tag, "u%ld %x %u", i % 12, flags, level);
        emit(out, "gdstk", tag, b);
    }
    // (b) START records built by hand, every real type
    long nst = thorough ? 6000 : 400;
    for (long i = 0; i < nst; i++) {
        B w;
        w.magic();
        w.byte(1);
        std::string ver = "1.0";
        if (g.chance(10)) ver += std::string((size_t)g.range(1, 6), (char)g.range(0x20, 0x7e));
        if (g.chance(5)) { w.uint(ver.size(), true); w.b.insert(w.b.end(), ver.begin(), ver.end()); }
        else w.str(ver);
        unsigned type = (unsigned)(i % 8);
        write_real(w, g, type);
        tail(w, g);
        snprintf(tag, sizeof tag, "t%u", type);
        emit(out, "start", tag, w.b);
    }
    // (c) other headers
    long nodd = thorough ? 2000 : 160;
    for (long i = 0; i < nodd; i++) {
        B w;
        int what = (int)(i % 8);
        w.magic();
        if (what == 0) w.b[(size_t)g.below(13)] ^= (uint8_t)(1u << g.below(8));
        w.byte(what == 1 ? (unsigned)g.below(256) : 1);
        switch (what) {
            case 2: w.str(g.coin() ? "2.0" : "1.1"); break;
            case 3: w.str(g.coin() ? "1." : (g.coin() ? "" : "1")); break;
            case 4: w.uint(g.below(300)); for (uint64_t k = g.below(12); k > 0; k--) w.byte((unsigned)g.below(256)); break;  // length vs bytes at random
            default: w.str("1.0");
        }
        if (what == 5) { w.byte(8 + (unsigned)g.below(248)); }                    // invalid real type
        else if (what == 6) { w.byte((unsigned)g.below(6)); for (int k = 0; k < 10; k++) w.byte(0xff); w.byte(0x7f); }  // Overflow
        else write_real(w, g, (unsigned)g.below(8));
        tail(w, g);
        snprintf(tag, sizeof tag, "o%d", what);
        emit(out, "odd", tag, w.b);
    }
    // (d) the version string that cannot be allocated
    {
        B w;
        w.magic();
        w.byte(1);
        w.uint(1ULL << 40);
        w.byte('1'); w.byte('.'); w.byte('0');
        emit(out, "bigstr", "2^40", w.b);
    }
    out.close();
    return 0;
}
