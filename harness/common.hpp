// Common helpers for the correspondence harnesses (one translation unit each).
#pragma once
#include <stdint.h>
#include <stdio.h>
#include <stdlib.h>
#include <string.h>
#include <string>
#include <vector>
#include <map>
#include <functional>
#include <signal.h>
#include <sys/wait.h>
#include <unistd.h>
#include <dirent.h>

// coverage builds (tools/coverage.sh, -DVERIF_COVERAGE): children leave through _exit, which skips gcov's atexit dump
#ifdef VERIF_COVERAGE
extern "C" void __gcov_dump(void);
#define VERIF_COV_DUMP() __gcov_dump()
#else
#define VERIF_COV_DUMP() ((void)0)
#endif

struct Rng {  // splitmix64: every random choice of a run derives from VERIF_SEED
    uint64_t s;
    explicit Rng(uint64_t seed) {
        // one mixing round so that consecutive seeds give unrelated streams (not the same stream shifted)
        uint64_t z = seed + 0x9E3779B97F4A7C15ULL;
        z = (z ^ (z >> 30)) * 0xBF58476D1CE4E5B9ULL;
        z = (z ^ (z >> 27)) * 0x94D049BB133111EBULL;
        s = z ^ (z >> 31);
    }
    uint64_t next() {
        uint64_t z = (s += 0x9E3779B97F4A7C15ULL);
        z = (z ^ (z >> 30)) * 0xBF58476D1CE4E5B9ULL;
        z = (z ^ (z >> 27)) * 0x94D049BB133111EBULL;
        return z ^ (z >> 31);
    }
    uint64_t below(uint64_t n) { return n ? next() % n : 0; }
    int64_t range(int64_t lo, int64_t hi) { return lo + (int64_t)below((uint64_t)(hi - lo + 1)); }
    bool coin() { return next() & 1; }
    bool chance(int pct) { return (int)below(100) < pct; }
};

static inline std::string hex_u64(uint64_t v) {
    char b[32];
    snprintf(b, sizeof b, "%llx", (unsigned long long)v);
    return b;
}
static inline std::string hex_i64(int64_t v) {
    if (v < 0) return "-" + hex_u64((uint64_t)0 - (uint64_t)v);
    return hex_u64((uint64_t)v);
}
static inline std::string hex_bytes(const uint8_t* p, size_t n) {
    std::string s;
    char b[4];
    for (size_t i = 0; i < n; i++) {
        snprintf(b, sizeof b, "%02x", p[i]);
        s += b;
    }
    return s;
}
static inline std::vector<uint8_t> unhex(const std::string& s) {
    std::vector<uint8_t> v;
    for (size_t i = 0; i + 1 < s.size(); i += 2) v.push_back((uint8_t)strtoul(s.substr(i, 2).c_str(), NULL, 16));
    return v;
}
static inline uint64_t dbl_bits(double d) {
    uint64_t u;
    memcpy(&u, &d, 8);
    return u;
}
static inline double bits_dbl(uint64_t u) {
    double d;
    memcpy(&d, &u, 8);
    return d;
}
static inline std::string hex_dbl(double d) {
    char b[32];
    snprintf(b, sizeof b, "%016llx", (unsigned long long)dbl_bits(d));
    return b;
}

struct Out {
    FILE* cases;
    FILE* impl;
    uint64_t n = 0;
    std::map<std::string, long> stats;
    std::string dir;
    void open(const char* d) {
        dir = d;
        cases = fopen((dir + "/cases.txt").c_str(), "w");
        impl = fopen((dir + "/impl.txt").c_str(), "w");
        if (!cases || !impl) {
            perror("open output");
            exit(3);
        }
    }
    // returns the case id
    std::string add(const std::string& kind, const std::string& payload) {
        char id[32];
        snprintf(id, sizeof id, "%llu", (unsigned long long)(++n));
        fprintf(cases, "%s\t%s\t%s\n", id, kind.c_str(), payload.c_str());
        stats["kind:" + kind]++;
        return id;
    }
    void I(const std::string& id, const std::string& v) { fprintf(impl, "%s\tI\t%s\n", id.c_str(), v.c_str()); }
    void P(const std::string& id, const std::string& v) { fprintf(impl, "%s\tP\t%s\n", id.c_str(), v.c_str()); }
    void count(const std::string& k, long d = 1) { stats[k] += d; }
    void close() {
        fclose(cases);
        fclose(impl);
        FILE* f = fopen((dir + "/stats.json").c_str(), "w");
        fprintf(f, "{");
        bool first = true;
        for (auto& kv : stats) {
            fprintf(f, "%s\"%s\": %ld", first ? "" : ", ", kv.first.c_str(), kv.second);
            first = false;
        }
        fprintf(f, "}\n");
        fclose(f);
    }
};

// Crash guard for harnesses that call the library in-process: between guard_begin and guard_end a fatal signal (or the
// alarm) records the current input as a case of kind "<kind>-crash" with a failing oracle line, closes the output files
// and ends the run normally, so that the check reports the crashing input instead of a broken harness.
static Out* g_guard_out = NULL;
static std::string g_guard_kind, g_guard_payload, g_guard_key;
static void guard_handler(int sig) {
    if (g_guard_out && !g_guard_kind.empty()) {
        std::string id = g_guard_out->add(g_guard_kind + "-crash", g_guard_payload);
        g_guard_out->I(id, sig == SIGALRM ? "HANG" : "CRASH");
        g_guard_out->P(id, "FAIL " + g_guard_key + (sig == SIGALRM ? " the call did not return within the time limit" : " the call crashed (signal " + std::to_string(sig) + ")"));
        g_guard_out->close();
    }
    _exit(g_guard_out ? 0 : 3);
}
static inline void guard_begin(Out& out, const std::string& kind, const std::string& payload, const std::string& key, unsigned seconds = 120) {
    static bool installed = false;
    if (!installed) {
        installed = true;
        // alternate stack: a stack overflow (runaway recursion) must still reach the handler
        static char altstack[1 << 17];
        stack_t ss;
        ss.ss_sp = altstack;
        ss.ss_flags = 0;
        ss.ss_size = sizeof altstack;
        sigaltstack(&ss, NULL);
        int sigs[] = {SIGSEGV, SIGBUS, SIGFPE, SIGABRT, SIGILL, SIGALRM};
        for (int sg : sigs) {
            struct sigaction sa;
            memset(&sa, 0, sizeof sa);
            sa.sa_handler = guard_handler;
            sa.sa_flags = SA_ONSTACK;
            sigaction(sg, &sa, NULL);
        }
    }
    g_guard_out = &out;
    g_guard_kind = kind;
    g_guard_payload = payload;
    g_guard_key = key;
    alarm(seconds);
}
static inline void guard_end() {
    alarm(0);
    g_guard_kind.clear();
}

// Run f in a forked child with an alarm; its stdout text (written to the pipe through the FILE*
// given) is returned.  Crash / timeout become the outcome strings "CRASH(sig)" / "HANG".
static inline std::string in_child(std::function<void(FILE*)> f, unsigned seconds = 30) {
    int fd[2];
    if (pipe(fd) != 0) return "PIPEFAIL";
    fflush(NULL);
    pid_t pid = fork();
    if (pid == 0) {
        ::close(fd[0]);
        // the child reports through its exit status: no crash guard of the parent in here
        g_guard_out = NULL;
        g_guard_kind.clear();
        {
            int sigs[] = {SIGSEGV, SIGBUS, SIGFPE, SIGABRT, SIGILL, SIGALRM};
            for (int sg : sigs) signal(sg, SIG_DFL);
        }
        alarm(seconds);
        FILE* o = fdopen(fd[1], "w");
        // silence library diagnostics
        f(o);
        fflush(o);
        VERIF_COV_DUMP();
        _exit(0);
    }
    ::close(fd[1]);
    std::string res;
    char buf[4096];
    ssize_t r;
    while ((r = read(fd[0], buf, sizeof buf)) > 0) res.append(buf, (size_t)r);
    ::close(fd[0]);
    int st = 0;
    waitpid(pid, &st, 0);
    if (WIFSIGNALED(st)) {
        int sg = WTERMSIG(st);
        if (sg == SIGALRM) return "HANG";
        char b[32];
        snprintf(b, sizeof b, "CRASH(%d)", sg);
        return b;
    }
    if (WIFEXITED(st) && WEXITSTATUS(st) != 0) {
        char b[32];
        snprintf(b, sizeof b, "CRASH(exit%d)", WEXITSTATUS(st));
        return b;
    }
    while (!res.empty() && (res.back() == '\n' || res.back() == ' ')) res.pop_back();
    return res;
}

// corpus: every file <corpus>/*.case holds lines "kind<TAB>payload" that run first
static inline std::vector<std::pair<std::string, std::string>> load_corpus(const char* dir) {
    std::vector<std::pair<std::string, std::string>> v;
    if (!dir) return v;
    DIR* d = opendir(dir);
    if (!d) return v;
    std::vector<std::string> names;
    while (dirent* e = readdir(d)) {
        std::string n = e->d_name;
        if (n.size() > 5 && n.substr(n.size() - 5) == ".case") names.push_back(n);
    }
    closedir(d);
    std::sort(names.begin(), names.end());
    for (auto& n : names) {
        FILE* f = fopen((std::string(dir) + "/" + n).c_str(), "r");
        if (!f) continue;
        char* line = NULL;
        size_t cap = 0;
        while (getline(&line, &cap, f) > 0) {
            std::string s(line);
            while (!s.empty() && (s.back() == '\n' || s.back() == '\r')) s.pop_back();
            size_t t = s.find('\t');
            if (t == std::string::npos) continue;
            v.push_back({s.substr(0, t), s.substr(t + 1)});
        }
        free(line);
        fclose(f);
    }
    return v;
}

// replay file (json written by bin/check): extract "kind" and "input" string fields, naive parse
static inline bool load_replay(const char* path, std::string& kind, std::string& payload) {
    FILE* f = fopen(path, "r");
    if (!f) return false;
    std::string s;
    char buf[4096];
    size_t r;
    while ((r = fread(buf, 1, sizeof buf, f)) > 0) s.append(buf, r);
    fclose(f);
    auto field = [&](const char* name) -> std::string {
        std::string key = std::string("\"") + name + "\": \"";
        size_t p = s.find(key);
        if (p == std::string::npos) return "";
        p += key.size();
        size_t e = s.find('"', p);
        return s.substr(p, e - p);
    };
    kind = field("kind");
    payload = field("input");
    // json escapes of tabs
    size_t p;
    while ((p = payload.find("\\t")) != std::string::npos) payload.replace(p, 2, "\t");
    return !kind.empty();
}
