// C04W harness: the real OASIS writer against its statement-level Gallina model (coq/OasisWrite.v).
//  kind "wr": a random library ON THE GRID (generator of oas_layout.hpp restricted to the subset the model covers:
//  polygons, simple FlexPaths with offset 0, labels, references, every repetition type, properties on everything) is
//  saved by Library::write_oas with compression level 0, circle tolerance 0 and config flags 0 or
//  OASIS_CONFIG_PROPERTY_CELL_OFFSET.  I line = hex of the bytes of the file; the driver prints the hex of
//  write_oas_model on the same library (M line).  The two must be identical.
//  Payload: "<layout-seed> <variant> | <library text>" - the harness regenerates the library from the first two
//  words (replay), the OCaml driver parses the text after the bar:
//    lib    := cfg(0|1) unit-bits props ncells cell*
//    props  := n { name-hex nvals { U hex | I hex | R hex16 | S bytes-hex } }          ("-" = empty byte string)
//    rep    := N | R cols rows sx sy | G cols rows v1x v1y v2x v2y | E n {x y} | X n {c} | Y n {c}
//    cell   := name-hex npolys poly* npaths path* nrefs ref* nlabels label* props
//    poly   := layer type npts {x y} rep props
//    path   := nels { layer type halfwidth (F | H | E es ee) } npts {x y} rep props
//    ref    := name-hex x y mag-bits rot-bits (- | m) flip(0|1) rep props
//    label  := text-hex layer type x y rep props
//  All integers hexadecimal (signed with a leading '-'), doubles as the 16 hex digits of their bit pattern.
//  kind "wrd": the same with the shape-detection flags of Polygon::to_oas (coq/OasisWriteDetect.v): write_oas is called
//  with OASIS_CONFIG_DETECT_RECTANGLES and / or OASIS_CONFIG_DETECT_TRAPEZOIDS (circle tolerance 0, compression 0) on a
//  library whose polygons are mostly detection material: rectangles, squares, each of the 26 compact trapezoid shapes,
//  general horizontal / vertical trapezoids (one or two slanted sides, either sign), crossed quadrilaterals with two
//  parallel sides, and near-misses of all of these (one vertex one grid step off, a fifth collinear vertex, zero height
//  or width, a repeated vertex), from every starting vertex in both orientations.  The M line is the extracted
//  write_oas_model_d.  Payload: "<layout-seed> <variant> | <dr(0|1)> <dt(0|1)> <library text>", variant = cfg + 2 * dr + 4 * dt.
#include <fcntl.h>
#include <gdstk/gdstk.hpp>
#include "oas_layout.hpp"

using namespace gdstk;
using namespace oasl;

static std::string g_outdir;

static std::vector<uint8_t> slurp(const std::string& path) {
    std::vector<uint8_t> v;
    FILE* f = fopen(path.c_str(), "rb");
    if (!f) return v;
    uint8_t buf[65536];
    size_t r;
    while ((r = fread(buf, 1, sizeof buf, f)) > 0) v.insert(v.end(), buf, buf + r);
    fclose(f);
    return v;
}

static std::string hexstr(const std::string& s) {
    if (s.empty()) return "-";
    return hex_bytes((const uint8_t*)s.data(), s.size());
}

struct Ser {
    std::string s;
    void w(const std::string& t) {
        if (!s.empty()) s += ' ';
        s += t;
    }
    void u(uint64_t v) { w(hex_u64(v)); }
    void i(int64_t v) { w(hex_i64(v)); }
    void props(const AProps& ps) {
        u(ps.size());
        for (auto& p : ps) {
            w(hexstr(p.name));
            u(p.v.size());
            for (auto& v : p.v) {
                switch (v.t) {
                    case 0: w("U"); u(v.u); break;
                    case 1: w("I"); i(v.i); break;
                    case 2: w("R"); w(hex_dbl(v.r)); break;
                    default: w("S"); w(hexstr(v.s));
                }
            }
        }
    }
    void rep(const ARep& r) {
        switch (r.kind) {
            case 1: w("R"); u(r.cols); u(r.rows); i(r.sx); i(r.sy); break;
            case 2: w("G"); u(r.cols); u(r.rows); i(r.v1x); i(r.v1y); i(r.v2x); i(r.v2y); break;
            case 3: w("E"); u(r.offs.size()); for (auto& o : r.offs) { i(o.first); i(o.second); } break;
            case 4: w("X"); u(r.coords.size()); for (auto c : r.coords) i(c); break;
            case 5: w("Y"); u(r.coords.size()); for (auto c : r.coords) i(c); break;
            default: w("N");
        }
    }
    void pts(const std::vector<P2>& p) {
        u(p.size());
        for (auto& q : p) { i(q.first); i(q.second); }
    }
};

static std::string serialise(const ALib& L, bool cell_offset) {
    Ser o;
    o.u(cell_offset ? 1 : 0);
    o.w(hex_dbl(1e-6 / L.precision));
    o.props(L.props);
    o.u(L.cells.size());
    for (auto& c : L.cells) {
        o.w(hexstr(c.name));
        o.u(c.polys.size());
        for (auto& p : c.polys) {
            o.u(p.layer); o.u(p.type); o.pts(p.pts); o.rep(p.rep); o.props(p.props);
        }
        o.u(c.paths.size());
        for (auto& p : c.paths) {
            o.u(p.els.size());
            for (auto& e : p.els) {
                o.u(e.layer); o.u(e.type); o.u((uint64_t)(e.width / 2));
                if (e.end == 0) o.w("F");
                else if (e.end == 2) o.w("H");
                else { o.w("E"); o.i(e.e0); o.i(e.e1); }
            }
            o.pts(p.pts); o.rep(p.rep); o.props(p.props);
        }
        o.u(c.refs.size());
        for (auto& r : c.refs) {
            o.w(hexstr(r.target)); o.i(r.x); o.i(r.y);
            o.w(hex_dbl(r.mag));
            double rot = r.radians();
            o.w(hex_dbl(rot));
            int64_t m = 0;
            if (is_multiple_of_pi_over_2(rot, m)) o.i(m); else o.w("-");
            o.u(r.refl ? 1 : 0);
            o.rep(r.rep); o.props(r.props);
        }
        o.u(c.labels.size());
        for (auto& t : c.labels) {
            o.w(hexstr(t.text)); o.u(t.layer); o.u(t.type); o.i(t.x); o.i(t.y); o.rep(t.rep); o.props(t.props);
        }
        o.props(c.props);
    }
    return o.s;
}

// oas_layout.hpp is shared with other checks and grows new input classes; a path flagged as "outline" (written through
// to_polygons) is outside the model.  The flag is cleared when the generator has it (member detection, so that this file
// compiles against either version of the header); the built FlexPaths are forced to simple_path below in any case.
template <class T>
static auto clear_outline(T& p, int) -> decltype(p.outline, void()) { p.outline = false; }
template <class T>
static void clear_outline(T&, long) {}

// restrict a generated layout to the subset of the model and add the input classes the generator lacks
static void restrict_layout(ALib& L, Rng& g, Out* out) {
    for (auto& c : L.cells) {
        for (auto& p : c.polys) {
            if (p.circle) {  // ellipse() vertices are not on the grid: a triangle on the grid instead
                p.circle = false;
                p.pts = {{p.cx, p.cy}, {p.cx + p.cr, p.cy}, {p.cx, p.cy + p.cr}};
                p.shape = "triangle";
            }
            if (g.chance(3)) p.pts.resize(1 + g.below(2));  // degenerate: 1 or 2 vertices
            if (g.chance(4)) p.pts.push_back(p.pts.back());   // duplicate vertex
        }
        for (auto& p : c.paths) {
            p.robust = false;
            clear_outline(p, 0);
            for (auto& e : p.els) e.width &= ~(int64_t)1;  // even width: the half width is on the grid
            if (g.chance(3)) p.pts.resize(1);                // EmptyPath: nothing is written
        }
        // a property of the writer's own name among others (never alone: remove_property would crash, finding F1)
        if (g.chance(15) && !c.props.empty()) {
            AProp q;
            q.name = "S_CELL_OFFSET";
            APV v;
            v.t = 0;
            v.u = g.below(1000);
            q.v = {v};
            c.props.insert(c.props.begin() + g.below(c.props.size()), q);
            if (out) out->count("class:user-S_CELL_OFFSET");
        }
    }
    if (g.chance(4)) {
        L.cells.clear();
        if (out) out->count("class:no-cells");
    }
    if (L.cells.size() >= 2 && g.chance(5)) {
        // duplicate cell name: cell_name_map keeps the last index.  build_library() resolves cells by name, so both
        // ACells end up in the LAST Cell object (contents appended in order, properties of the last one); the
        // library text is made to say exactly that.
        ACell& first = L.cells.front();
        ACell& last = L.cells.back();
        std::string old = last.name;
        for (auto& c : L.cells)
            for (auto& r : c.refs)
                if (r.target == old) r.target = first.name;
        last.name = first.name;
        last.polys.insert(last.polys.begin(), first.polys.begin(), first.polys.end());
        last.paths.insert(last.paths.begin(), first.paths.begin(), first.paths.end());
        last.labels.insert(last.labels.begin(), first.labels.begin(), first.labels.end());
        last.refs.insert(last.refs.begin(), first.refs.begin(), first.refs.end());
        first.polys.clear();
        first.paths.clear();
        first.labels.clear();
        first.refs.clear();
        first.props.clear();
        if (out) out->count("class:duplicate-cell-name");
    }
}

// ---- kind "wrd": polygons that the detection of Polygon::to_oas accepts, or only just rejects
static void rot_rev(std::vector<P2>& p, Rng& g) {
    if (p.empty()) return;
    std::rotate(p.begin(), p.begin() + g.below(p.size()), p.end());
    if (g.coin()) std::reverse(p.begin(), p.end());
}
static std::vector<P2> detect_shape(Rng& g, std::string& shape) {
    std::vector<P2> q;
    int sel = (int)g.below(100);
    if (sel < 12) {
        int64_t w = g.range(1, 300), h = g.chance(35) ? w : g.range(1, 300);
        if (g.chance(6)) w = g.chance(50) ? 1 : (int64_t)1 << g.range(7, 40);   // one byte / many bytes of an unsigned integer
        q = {{0, 0}, {w, 0}, {w, h}, {0, h}};
        shape = w == h ? "square" : "rectangle";
    } else if (sel < 50) {
        int type = (int)g.below(26);
        int64_t a = g.range(1, 120), b = g.range(1, 120);
        int64_t w, h;
        if (type <= 3) { h = a; w = a + b; }
        else if (type <= 5) { h = a; w = 2 * a + b; }
        else if (type <= 7) { h = a; w = a + b; }
        else if (type <= 11) { w = a; h = a + b; }
        else if (type <= 13) { w = a; h = 2 * a + b; }
        else if (type <= 15) { w = a; h = a + b; }
        else { w = a; h = b; }
        if (g.chance(10) && type <= 15) {  // the slanted sides meet (w = 2h for types 4..7 ...): vertices coincide
            if (type <= 7) w = (type == 4 || type == 5) ? 2 * h : h; else h = (type == 12 || type == 13) ? 2 * w : w;
        }
        q = ctrapezoid_vertices(type, w, h);
        shape = "ctrapezoid" + std::to_string(type);
    } else if (sel < 72) {
        // two parallel sides (horizontal, or vertical after the swap); the other two free: deltas of either sign, one of
        // them 0 in a part of the cases (TRAPEZOID_A / _B), |delta| = height now and then (compact after all)
        int64_t h = g.range(1, 200);
        int64_t b0 = g.range(-100, 100), b1 = b0 + g.range(1, 200);
        int64_t t0 = g.range(-100, 100), t1 = t0 + g.range(1, 200);
        if (g.chance(30)) t0 = b0;
        if (g.chance(30)) t1 = b1;
        if (g.chance(10)) t0 = b0 + (g.coin() ? h : -h);
        if (g.chance(10)) t1 = b1 + (g.coin() ? h : -h);
        if (g.chance(8)) std::swap(t0, t1);            // crossed: the slanted sides intersect
        q = {{b0, 0}, {b1, 0}, {t1, h}, {t0, h}};
        bool vertical = g.coin();
        if (vertical) for (auto& v : q) std::swap(v.first, v.second);
        shape = vertical ? "trapezoid-v" : "trapezoid-h";
    } else if (sel < 82) {
        // right triangles and isosceles triangles near the compact types 16..23
        int64_t a = g.range(1, 100), b = g.chance(50) ? a : g.range(1, 100);
        switch (g.below(4)) {
            case 0: q = {{0, 0}, {a, 0}, {0, b}}; break;
            case 1: q = {{0, 0}, {2 * a, 0}, {a, b}}; break;
            case 2: q = {{0, 0}, {a, b}, {0, 2 * b}}; break;
            default: q = {{0, 0}, {a, 0}, {a, b}};
        }
        if (g.coin()) for (auto& v : q) v.first = -v.first;
        if (g.coin()) for (auto& v : q) v.second = -v.second;
        shape = "triangle3";
    } else if (sel < 90) {
        // zero height / zero width: all four points on one axis-parallel line, or a rectangle folded onto a segment
        int64_t w = g.range(0, 50), k = g.range(0, 50);
        switch (g.below(3)) {
            case 0: q = {{0, 0}, {w, 0}, {w, 0}, {0, 0}}; break;
            case 1: q = {{0, 0}, {w, 0}, {w + k, 0}, {k, 0}}; break;
            default: q = {{0, 0}, {0, 0}, {0, 0}, {0, 0}};
        }
        if (g.coin()) for (auto& v : q) std::swap(v.first, v.second);
        shape = "flat";
    } else {
        // any four points on a small grid: parallel sides by accident
        int64_t n = g.chance(50) ? 3 : 8;
        for (int i = 0; i < 4; i++) q.push_back(P2(g.range(0, n), g.range(0, n)));
        shape = "grid4";
    }
    // near misses
    int nm = (int)g.below(100);
    if (nm < 12 && !q.empty()) {
        P2& v = q[g.below(q.size())];
        (g.coin() ? v.first : v.second) += g.coin() ? 1 : -1;
        shape += "+off1";
    } else if (nm < 18 && q.size() >= 3) {
        size_t i = g.below(q.size()), j = (i + 1) % q.size();
        P2 mid((q[i].first + q[j].first) / 2, (q[i].second + q[j].second) / 2);   // on the edge when the sum is even
        q.insert(q.begin() + (long)i + 1, mid);
        shape += "+mid";
    } else if (nm < 22 && !q.empty()) {
        size_t i = g.below(q.size());
        q.insert(q.begin() + (long)i, q[i]);
        shape += "+dup";
    } else if (nm < 25 && q.size() == 4) {
        q.erase(q.begin() + (long)g.below(4));
        shape += "+cut";
    }
    rot_rev(q, g);
    return q;
}
static void enrich_detect(ALib& L, Gen& gen, Rng& g, Out* out) {
    for (auto& c : L.cells) {
        int extra = (int)g.below(7);
        for (int k = 0; k < extra; k++) c.polys.push_back(gen.polygon());
        for (auto& p : c.polys) {
            if (p.circle) {
                p.circle = false;
                p.pts = {{p.cx, p.cy}, {p.cx + p.cr, p.cy}, {p.cx, p.cy + p.cr}};
            }
            if (!g.chance(80)) { if (out) out->count("shape:generator-" + p.shape); continue; }
            std::string shape;
            std::vector<P2> q = detect_shape(g, shape);
            int64_t x = gen.coord(), y = gen.coord();
            for (auto& v : q) { v.first += x; v.second += y; }
            p.pts = q;
            p.shape = shape;
            if (out) out->count("shape:" + shape);
        }
    }
}

static void run_case(Out& out, const std::string& kind, uint64_t ls, unsigned variant) {
    Rng lg(ls);
    Gen gen(lg, true);
    ALib L = gen.layout();
    bool detect = kind == "wrd";
    if (detect) enrich_detect(L, gen, lg, &out);
    restrict_layout(L, lg, &out);
    bool cell_offset = variant & 1;
    bool dr = detect && (variant & 2), dt = detect && (variant & 4);
    std::string text = serialise(L, cell_offset);
    if (detect) text = std::string(dr ? "1 " : "0 ") + (dt ? "1 " : "0 ") + text;
    char head[64];
    snprintf(head, sizeof head, "%llu %u | ", (unsigned long long)ls, variant);
    std::string id = out.add(kind, head + text);
    if (detect) out.count(std::string("flags:") + (dr ? "R" : "-") + (dt ? "T" : "-"));
    // statistics of the input distribution
    out.count(cell_offset ? "cfg:cell-offset" : "cfg:none");
    for (auto& c : L.cells) {
        out.count("polygons", (long)c.polys.size());
        out.count("paths", (long)c.paths.size());
        out.count("labels", (long)c.labels.size());
        out.count("references", (long)c.refs.size());
        for (auto& p : c.polys) out.count("rep:" + std::to_string(p.rep.kind));
        for (auto& p : c.refs) { out.count("rep:" + std::to_string(p.rep.kind)); out.count(p.quarter ? "ref:quarter" : "ref:general"); }
        for (auto& p : c.paths) out.count("rep:" + std::to_string(p.rep.kind));
        for (auto& p : c.labels) out.count("rep:" + std::to_string(p.rep.kind));
    }
    auto work = [&](FILE* o) {
        set_error_logger(NULL);
        Built b;
        build_library(L, b);
        for (uint64_t ci = 0; ci < b.lib.cell_array.count; ci++) {  // the modelled subset: simple FlexPaths only
            Cell* c = b.lib.cell_array[ci];
            for (uint64_t k = 0; k < c->flexpath_array.count; k++) c->flexpath_array[k]->simple_path = true;
            if (c->robustpath_array.count > 0) {
                fputs("UNSUPPORTED-robustpath", o);
                return;
            }
        }
        std::string f = g_outdir + "/w.oas";
        unlink(f.c_str());
        b.lib.write_oas(f.c_str(), 0.0, 0,
                        (uint16_t)((cell_offset ? OASIS_CONFIG_PROPERTY_CELL_OFFSET : 0) |
                                   (dr ? OASIS_CONFIG_DETECT_RECTANGLES : 0) | (dt ? OASIS_CONFIG_DETECT_TRAPEZOIDS : 0)));
        std::vector<uint8_t> file = slurp(f);
        fputs(hex_bytes(file.data(), file.size()).c_str(), o);
    };
    if (getenv("C04W_NOFORK")) {  // debugging aid: run in this process
        work(stdout);
        return;
    }
    std::string res = in_child(work, 20);
    out.I(id, res);
}

int main(int argc, char** argv) {
    if (argc < 4) {
        fprintf(stderr, "usage: c04w seed tier outdir [corpus] [replay]\n");
        return 2;
    }
    uint64_t seed = strtoull(argv[1], NULL, 10);
    bool thorough = strcmp(argv[2], "thorough") == 0;
    g_outdir = argv[3];
    set_error_logger(NULL);
    Out out;
    out.open(argv[3]);
    const char* only = getenv("VERIF_KINDS");
    auto enabled = [&](const std::string& k) { return !only || !*only || (std::string(",") + only + ",").find("," + k + ",") != std::string::npos; };
    auto from_payload = [&](const std::string& k, const std::string& p) {
        unsigned long long ls = 0;
        unsigned variant = 0;
        if ((k == "wr" || k == "wrd") && sscanf(p.c_str(), "%llu %u", &ls, &variant) == 2) run_case(out, k, ls, variant);
    };
    if (argc > 5) {
        std::string k, p;
        if (load_replay(argv[5], k, p)) from_payload(k, p);
        out.close();
        return 0;
    }
    for (auto& c : load_corpus(argc > 4 ? argv[4] : NULL)) from_payload(c.first, c.second);
    Rng g0(seed);
    Rng g(g0.next());
    int layouts = thorough ? 40000 : 600;
    if (enabled("wr"))
        for (int li = 0; li < layouts; li++) {
            uint64_t ls = g.next() >> 1;
            run_case(out, "wr", ls, (unsigned)(li & 1));
        }
    // detection flags: the three non-zero flag words in turn, with and without S_CELL_OFFSET
    Rng gd(seed * 0x100000001B3ULL + 12345);
    int dlayouts = thorough ? 20000 : 900;
    if (enabled("wrd"))
        for (int li = 0; li < dlayouts; li++) {
            uint64_t ls = gd.next() >> 1;
            unsigned fl = 1 + (unsigned)(li % 3);                     // 1 = rectangles, 2 = trapezoids, 3 = both
            run_case(out, "wrd", ls, (unsigned)((li / 3) & 1) | (fl << 1));
        }
    out.close();
    return 0;
}
