// C19 / unit c19_real: GDSII 8-byte reals, OASIS reals, byte swaps (all public functions).
//   genc <dblbits>         gdsii_real_from_double(x) (model: gds_encode, the exponent comes from the value)
//   gdec <bits>            gdsii_real_to_double(pattern), result printed as an exact dyadic number
//   swap <16|32|64> <hex>  big_endian_swapNN on one value
//   orw  <dblbits>         oasis_write_real then oasis_read_real
//   ord  <type> <hexbytes> oasis_read_real_by_type on arbitrary bytes
#include <algorithm>
#include <math.h>
#include <gdstk/gdstk.hpp>
#include "common.hpp"

using namespace gdstk;

static const char* status_name(ErrorCode e) {
    switch (e) {
        case ErrorCode::NoError: return "ok";
        case ErrorCode::Overflow: return "overflow";
        case ErrorCode::InputFileError: return "eof";
        case ErrorCode::InvalidFile: return "invalid";
        default: return "other";
    }
}

struct MemOut {
    OasisStream o;
    MemOut() {
        memset(&o, 0, sizeof o);
        o.data_size = 1024;
        o.data = (uint8_t*)allocate(o.data_size);
        o.cursor = o.data;
    }
    std::vector<uint8_t> bytes() { return std::vector<uint8_t>(o.data, o.cursor); }
    ~MemOut() { free_allocation(o.data); }
};

struct MemIn {
    OasisStream in;
    uint8_t* base;
    size_t n;
    MemIn(const std::vector<uint8_t>& b) {
        memset(&in, 0, sizeof in);
        n = b.size();
        base = (uint8_t*)allocate(n + 64);
        memset(base, 0, n + 64);
        if (n) memcpy(base, b.data(), n);
        in.data = base;
        in.cursor = base;
        in.data_size = n + 64;
    }
    size_t consumed() { return (size_t)(in.cursor - base); }
    bool overread() { return consumed() > n; }
    ~MemIn() { free_allocation(base); }
};

static std::string dec_status(MemIn& m) {
    if (m.in.error_code == ErrorCode::Overflow) return "overflow";
    if (m.overread()) return "eof";
    return status_name(m.in.error_code);
}

// exact value of a finite double as "[-]M E" with M odd (hex) and value = M * 2^E, or "0" / "-0"
static std::string dyadic(double d) {
    if (d == 0) return signbit(d) ? "-0" : "0";
    if (!std::isfinite(d)) return "nonfinite";
    int ex;
    double f = frexp(fabs(d), &ex);          // f in [0.5, 1)
    int64_t m = (int64_t)ldexp(f, 53);       // exact: 53-bit integer
    int64_t e = (int64_t)ex - 53;
    while ((m & 1) == 0) {
        m >>= 1;
        e++;
    }
    return std::string(d < 0 ? "-" : "") + hex_u64((uint64_t)m) + " " + hex_i64(e);
}

static std::string dbl_text(double d) {  // results that may be NaN: one canonical word
    if (d != d) return "nan";
    return hex_dbl(d);
}

static std::vector<std::string> split_ws(const std::string& s) {
    std::vector<std::string> w;
    size_t i = 0;
    while (i < s.size()) {
        while (i < s.size() && s[i] == ' ') i++;
        size_t j = i;
        while (j < s.size() && s[j] != ' ') j++;
        if (j > i) w.push_back(s.substr(i, j - i));
        i = j;
    }
    return w;
}

static bool known_kind(const std::string& k) { return k == "genc" || k == "gdec" || k == "swap" || k == "orw" || k == "ord"; }

// the payload of a genc case: the double (the model computes the exponent itself)
static std::string genc_payload(double x) { return hex_dbl(x); }

static void run_case(Out& out, const std::string& kind, const std::string& payload) {
    if (!known_kind(kind)) return;  // corpus / replay entries of the other C19 units
    std::string id = out.add(kind, payload);
    std::vector<std::string> w = split_ws(payload);
    if (kind == "genc") {
        if (w.size() < 1) { out.I(id, "bad-case"); return; }
        double x = bits_dbl(strtoull(w[0].c_str(), NULL, 16));
        uint64_t bits = gdsii_real_from_double(x);
        out.I(id, hex_u64(bits));
        // property-level oracle, gdstk alone: |decode(encode(x)) - x| <= 1 ulp
        double back = gdsii_real_to_double(bits);
        bool ok;
        if (x == 0) ok = back == 0;
        else {
            int ex;
            frexp(x, &ex);
            double ulp = ldexp(1.0, ex - 53);
            ok = fabs(back - x) <= ulp;
            if (ok && back != x) out.count("genc:one-ulp-off");
        }
        if (ok) out.P(id, "ok");
        else {
            int ex;
            frexp(x, &ex);
            // the top binade below 16^63 gets its own key: the exponent byte overflows into the sign
            bool top = x != 0 && ex == 252;
            out.P(id, std::string("FAIL ") + (top ? "gdsii_real_from_double:top-binade" : "gds-real-roundtrip") +
                          " decode(encode(x)) differs from x by more than one ulp: got " + hex_dbl(back));
        }
    } else if (kind == "gdec") {
        uint64_t bits = strtoull(w.empty() ? "0" : w[0].c_str(), NULL, 16);
        double d = gdsii_real_to_double(bits);
        out.I(id, dyadic(d));
    } else if (kind == "swap") {
        if (w.size() < 2) { out.I(id, "bad-case"); return; }
        uint64_t v = strtoull(w[1].c_str(), NULL, 16);
        if (w[0] == "16") {
            uint16_t b = (uint16_t)v;
            big_endian_swap16(&b, 1);
            uint16_t c = b;
            big_endian_swap16(&c, 1);
            out.I(id, hex_u64(b));
            out.P(id, c == (uint16_t)v ? "ok" : "FAIL swap16-involution swapping twice does not give the value back");
        } else if (w[0] == "32") {
            uint32_t b = (uint32_t)v;
            big_endian_swap32(&b, 1);
            uint32_t c = b;
            big_endian_swap32(&c, 1);
            out.I(id, hex_u64(b));
            out.P(id, c == (uint32_t)v ? "ok" : "FAIL swap32-involution swapping twice does not give the value back");
        } else {
            uint64_t b = v;
            big_endian_swap64(&b, 1);
            uint64_t c = b;
            big_endian_swap64(&c, 1);
            out.I(id, hex_u64(b));
            out.P(id, c == v ? "ok" : "FAIL swap64-involution swapping twice does not give the value back");
        }
    } else if (kind == "orw") {
        double v = bits_dbl(strtoull(w.empty() ? "0" : w[0].c_str(), NULL, 16));
        MemOut o;
        oasis_write_real(o.o, v);
        std::vector<uint8_t> b = o.bytes();
        std::vector<uint8_t> b2 = b;
        b2.push_back(0x55);
        MemIn r(b2);
        double back = oasis_read_real(r.in);
        std::string st = dec_status(r);
        out.count(std::string("orw:type") + (b.empty() ? "none" : std::to_string((int)b[0])));
        std::string res = hex_bytes(b.data(), b.size()) + " " + st;
        if (st == "ok") res += " " + dbl_text(back) + " " + std::to_string(r.consumed());
        out.I(id, res);
        // oracle: the same value comes back, bit for bit (the sign of zero is not a value difference)
        bool same = st == "ok" && r.consumed() == b.size() && (dbl_bits(back) == dbl_bits(v) || (back == 0 && v == 0));
        if (same) {
            if (v == 0 && dbl_bits(back) != dbl_bits(v)) out.count("orw:negative-zero-sign-dropped");
            out.P(id, "ok");
        } else if (!b.empty() && (b[0] == 2 || b[0] == 3))
            out.P(id, "FAIL oasis_write_real:reciprocal written as reciprocal of " + std::string("an integer, read back as ") + dbl_text(back));
        else
            out.P(id, "FAIL oas-real-roundtrip read back as " + dbl_text(back));
    } else {  // ord
        if (w.size() < 1) { out.I(id, "bad-case"); return; }
        unsigned ty = (unsigned)atoi(w[0].c_str());
        std::vector<uint8_t> b = unhex(w.size() > 1 ? w[1] : "");
        MemIn r(b);
        double d = oasis_read_real_by_type(r.in, (OasisDataType)ty);
        std::string st = dec_status(r);
        out.count("ord:type" + std::to_string(ty > 8 ? 8 : ty) + ":" + st);
        if (st == "ok") out.I(id, "ok " + dbl_text(d) + " " + std::to_string(r.consumed()));
        else out.I(id, st);
    }
}

// ---------------------------------------------------------------- generators
static double rand_mantissa_in_binade(Rng& g, int b) {  // 2^(b-1) <= x < 2^b
    uint64_t m = ((uint64_t)1 << 52) | (g.next() & (((uint64_t)1 << 52) - 1));
    switch (g.below(6)) {
        case 0: m = (uint64_t)1 << 52; break;                                 // the power of two
        case 1: m = ((uint64_t)1 << 53) - 1 - g.below(4); break;              // just below the next one
        case 2: m = ((uint64_t)1 << 52) + g.below(4); break;                  // just above
        case 3: m &= ~(((uint64_t)1 << g.below(52)) - 1); break;              // few significant bits
        default: break;
    }
    return ldexp((double)m, b - 53);
}

static double gds_double(Rng& g) {
    // binades of the format: 16^-65 <= x < 16^63, i.e. b in [-259, 252]
    int b;
    switch (g.below(4)) {
        case 0: b = 4 * (int)g.range(-64, 63) + (int)g.range(-1, 1); break;  // around powers of 16
        case 1: b = (int)g.range(-20, 40); break;                            // everyday magnitudes
        default: b = (int)g.range(-259, 252);
    }
    if (b < -259) b = -259;
    if (b > 252) b = 252;
    double x = rand_mantissa_in_binade(g, b);
    return g.chance(25) ? -x : x;
}

static uint64_t gds_pattern(Rng& g) {
    uint64_t p = g.next();
    switch (g.below(6)) {
        case 0: p &= 0xFF1FFFFFFFFFFFFFULL; break;                   // leading hex digit small: fits 53 bits
        case 1: p &= 0xFFFFFFFFFFFFF000ULL; break;                   // low bits clear
        case 2: p = (p & 0xFF00000000000000ULL) | ((uint64_t)1 << g.below(56)); break;  // single bit
        case 3: p = (p & 0xFF00000000000000ULL) | ((((uint64_t)1 << 53) | 1 | (g.below(8) << 0)) << g.below(3)); break;  // 54..56 bits: rounding, ties
        case 4: p &= 0xFF00000000000000ULL; break;                   // zero mantissa
        default: break;
    }
    return p;
}

static double oas_double(Rng& g, Out& out) {
    double v;
    switch (g.below(10)) {
        case 0: v = (double)g.range(-1000, 1000); break;                              // small integers
        case 1: v = (double)(g.next() >> g.below(64)); break;                         // integers of any size
        case 2: v = ldexp((double)((g.next() >> 11) | 1), (int)g.range(-10, 20)); break;  // huge integers / halves
        case 3:
        case 4: {  // reciprocals of integers and their neighbours
            uint64_t n = g.coin() ? (uint64_t)g.range(2, 2000) : (g.next() >> g.below(62)) + 2;
            v = 1.0 / (double)n;
            int k = (int)g.range(-3, 3);
            for (int i = 0; i < k; i++) v = nextafter(v, 2.0);
            for (int i = 0; i < -k; i++) v = nextafter(v, 0.0);
            out.count(k == 0 ? "orw:exact-reciprocal" : "orw:reciprocal-neighbour");
        } break;
        case 5: v = ldexp((double)(((uint64_t)1 << 52) | (g.next() >> 12)), (int)g.range(-64 - 53, -53 - 52)); break;  // 2^-64..2^-53: every inverse is an integer
        case 6: v = ldexp(1.0, (int)g.range(-70, 70)); break;                         // powers of two
        case 7: v = (double)g.range(-100000, 100000) / 1000.0; break;                 // decimals
        default: v = bits_dbl(g.next()); if (!std::isfinite(v)) v = 0.5;              // any finite double
    }
    if (g.chance(30)) v = -v;
    return v;
}

static std::string real_bytes(Rng& g, unsigned& ty) {
    ty = (unsigned)g.below(8);
    if (g.chance(4)) ty = (unsigned)g.range(8, 20);
    std::vector<uint8_t> b;
    auto put_uint = [&](uint64_t v) {
        MemOut w;
        oasis_write_unsigned_integer(w.o, v);
        for (auto x : w.bytes()) b.push_back(x);
    };
    auto some_uint = [&]() -> uint64_t {
        switch (g.below(4)) {
            case 0: return g.below(100);
            case 1: return g.next() >> g.below(64);
            case 2: return ((uint64_t)1 << 53) + g.below(5);  // needs rounding when converted to double
            default: return g.next();
        }
    };
    if (ty <= 3) put_uint(some_uint());
    else if (ty <= 5) { put_uint(some_uint()); put_uint(some_uint()); }
    else if (ty == 6) {
        float f;
        switch (g.below(4)) {
            case 0: f = (float)g.range(-1000, 1000) / 8.0f; break;
            case 1: { uint32_t u = (uint32_t)g.next(); memcpy(&f, &u, 4); if (f != f) f = 1.5f; } break;
            case 2: { uint32_t u = (uint32_t)g.below(1 << 23) | ((uint32_t)g.below(2) << 31); memcpy(&f, &u, 4); } break;  // denormal floats
            default: f = ldexpf(1.0f, (int)g.range(-149, 127));
        }
        uint8_t raw[4];
        memcpy(raw, &f, 4);
        for (int i = 0; i < 4; i++) b.push_back(raw[i]);
    } else if (ty == 7) {
        uint64_t u = g.next();
        for (int i = 0; i < 8; i++) b.push_back((uint8_t)(u >> (8 * i)));
    } else b.push_back((uint8_t)g.below(256));
    if (g.chance(3)) { b.clear(); for (int i = 0; i < 10; i++) b.push_back(0xFF); b.push_back(0x7F); }  // > 64 bits
    b.push_back((uint8_t)g.below(256));                              // something follows
    if (g.chance(8)) {                                               // truncated
        b.pop_back();
        if (!b.empty()) b.pop_back();
        if (!b.empty() && g.coin()) b.pop_back();
    }
    return hex_bytes(b.data(), b.size());
}

// ---- second generator for `ord` (added with coq/OasisReal2Proofs.v): the case classes its theorems split on.
//   types 4 / 5: operands above 2^53 (rounded before the division), denominator 0 (inf / NaN), numerator 0 (type 5: -0.0),
//                operands spelled with redundant zero groups (any legal encoding of at most 10 bytes), n / 1 and 1 / n;
//   type 6: subnormal singles, both zeros, both infinities, quiet / signalling NaNs, extremes; fewer than 4 bytes;
//   types 0-3 with padded integers (the forms the ratio spellings are compared with).
static void put_uint_spelled(Rng& g, std::vector<uint8_t>& b, uint64_t v, bool pad) {
    std::vector<uint8_t> grp;
    do {
        grp.push_back((uint8_t)(v & 0x7F));
        v >>= 7;
    } while (v);
    if (pad && grp.size() < 10) {
        size_t extra = (size_t)g.below(10 - grp.size() + 1);
        for (size_t i = 0; i < extra; i++) grp.push_back(0);
    }
    for (size_t i = 0; i < grp.size(); i++) b.push_back((uint8_t)(grp[i] | (i + 1 < grp.size() ? 0x80 : 0)));
}

static uint64_t ratio_operand(Rng& g, Out& out, const char* which) {
    switch (g.below(8)) {
        case 0: out.count(std::string("ord2:") + which + ":zero"); return 0;
        case 1: out.count(std::string("ord2:") + which + ":one"); return 1;
        case 2: out.count(std::string("ord2:") + which + ":below-2^53"); return g.next() >> (11 + g.below(53));
        case 3: out.count(std::string("ord2:") + which + ":tie-above-2^53"); return (((uint64_t)1 << 53) | (g.next() & 0xFFFF)) << g.below(11) | g.below(2);
        case 4: out.count(std::string("ord2:") + which + ":above-2^53"); return g.next() | ((uint64_t)1 << (53 + g.below(11)));
        case 5: out.count(std::string("ord2:") + which + ":max"); return 0xFFFFFFFFFFFFFFFFULL - g.below(3);
        case 6: out.count(std::string("ord2:") + which + ":small"); return g.below(1000);
        default: out.count(std::string("ord2:") + which + ":power-of-two"); return (uint64_t)1 << g.below(64);
    }
}

static uint32_t float_pattern(Rng& g, Out& out) {
    uint32_t sign = (uint32_t)g.below(2) << 31;
    switch (g.below(10)) {
        case 0: out.count("ord2:f32:zero"); return sign;
        case 1: out.count("ord2:f32:subnormal"); return sign | (uint32_t)(1 + g.below((1u << 23) - 1));
        case 2: out.count("ord2:f32:subnormal-extreme"); return sign | (g.coin() ? 1u : 0x007FFFFFu);
        case 3: out.count("ord2:f32:infinity"); return sign | 0x7F800000u;
        case 4: out.count("ord2:f32:quiet-nan"); return sign | 0x7FC00000u | (uint32_t)g.below(1u << 22);
        case 5: out.count("ord2:f32:signalling-nan"); return sign | 0x7F800000u | (uint32_t)(1 + g.below((1u << 22) - 1));
        case 6: out.count("ord2:f32:extreme-normal"); return sign | (g.coin() ? 0x00800000u : 0x7F7FFFFFu);
        case 7: out.count("ord2:f32:power-of-two"); return sign | ((uint32_t)(1 + g.below(254)) << 23);
        default: out.count("ord2:f32:normal"); return sign | ((uint32_t)(1 + g.below(254)) << 23) | (uint32_t)g.below(1u << 23);
    }
}

static std::string real_bytes2(Rng& g, Out& out, unsigned& ty) {
    std::vector<uint8_t> b;
    bool pad = g.chance(50);
    switch (g.below(8)) {
        case 0:
        case 1:
        case 2: {  // ratio
            ty = 4 + (unsigned)g.below(2);
            uint64_t num = ratio_operand(g, out, "num"), den = ratio_operand(g, out, "den");
            if (g.chance(15)) { den = 1; out.count("ord2:ratio:n-over-1"); }
            else if (g.chance(15)) { num = 1; out.count("ord2:ratio:1-over-n"); }
            put_uint_spelled(g, b, num, pad);
            put_uint_spelled(g, b, den, pad);
            if (pad) out.count("ord2:ratio:padded-spelling");
        } break;
        case 3: {  // integer / reciprocal forms with the same operands and spellings
            ty = (unsigned)g.below(4);
            put_uint_spelled(g, b, ratio_operand(g, out, "int"), pad);
        } break;
        default: {
            ty = 6;
            uint32_t u = float_pattern(g, out);
            for (int i = 0; i < 4; i++) b.push_back((uint8_t)(u >> (8 * i)));
        }
    }
    b.push_back((uint8_t)g.below(256));  // something follows
    if (g.chance(6)) {                   // truncated
        size_t cut = 1 + (size_t)g.below(4);
        while (cut-- && !b.empty()) b.pop_back();
        out.count("ord2:truncated");
    }
    return hex_bytes(b.data(), b.size());
}

int main(int argc, char** argv) {
    if (argc < 4) {
        fprintf(stderr, "usage: c19_real seed tier outdir [corpus] [replay]\n");
        return 2;
    }
    uint64_t seed = strtoull(argv[1], NULL, 10);
    bool thorough = strcmp(argv[2], "thorough") == 0;
    set_error_logger(NULL);
    Out out;
    out.open(argv[3]);
    if (argc > 5) {
        std::string k, p;
        if (load_replay(argv[5], k, p)) run_case(out, k, p);
        out.close();
        return 0;
    }
    for (auto& c : load_corpus(argc > 4 ? argv[4] : NULL)) run_case(out, c.first, c.second);
    Rng g(seed);
    // deterministic: zero, 16^k and its neighbours over the whole range, powers of two and neighbours
    run_case(out, "genc", hex_dbl(0.0));
    run_case(out, "genc", genc_payload(1.0));
    run_case(out, "genc", genc_payload(-1.0));
    run_case(out, "genc", genc_payload(1e-9));
    run_case(out, "genc", genc_payload(1e-3));
    for (int k = -64; k <= 62; k++) {
        double p = ldexp(1.0, 4 * k);
        double xs[] = {p, nextafter(p, 0.0), nextafter(nextafter(p, 0.0), 0.0), nextafter(p, INFINITY), -p, -nextafter(p, 0.0)};
        for (double x : xs) run_case(out, "genc", genc_payload(x));
    }
    for (int b = -259; b <= 251; b += 3) {
        double p = ldexp(1.0, b);
        run_case(out, "genc", genc_payload(p));
        run_case(out, "genc", genc_payload(nextafter(p, 0.0)));
        run_case(out, "genc", genc_payload(nextafter(p, INFINITY)));
    }
    // the largest doubles of the format's range (just below 16^63 = 2^252)
    {
        double x = ldexp(1.0, 252);
        for (int i = 0; i < 3; i++) {
            x = nextafter(x, 0.0);
            run_case(out, "genc", genc_payload(x));
        }
        run_case(out, "genc", genc_payload(ldexp(1.0, 252) * (1.0 - ldexp(1.0, -40))));
        run_case(out, "genc", genc_payload(ldexp(1.0, 251)));
    }
    // the recorded OASIS real defect (F6) and well-known values
    const double oas_fixed[] = {0.19999999999999998, 0.2, 0.5, 0.25, 1.0 / 3.0, 0.1, 1e-3, 1e-6 / 1e-9, 0.0, -0.0, 1.0, -1.0, 2.5,
                                -2.5, 1e-17, 1e300, 1e-300, 18446744073709551615.0, 9007199254740993.0, 4.5e15 + 0.5};
    for (double v : oas_fixed) run_case(out, "orw", hex_dbl(v));
    for (unsigned ty = 0; ty <= 9; ty++) run_case(out, "ord", std::to_string(ty) + " 0a0b0c0d0e0f01020304");
    // fixed `ord` cases for the ratio / single-precision theorems: x / 0, 0 / 0, -0 / n, operands above 2^53,
    // padded spellings, n / 1, 1 / n; singles: +-0, +-inf, NaNs, smallest / largest subnormal, FLT_MIN, FLT_MAX, 0.75f
    {
        const char* fixed[] = {
            "4 070055", "5 070055", "4 000055", "5 000055", "5 000355", "4 808000808080008055", "4 0055", "4 07",
            "4 ffffffffffffffffff01ffffffffffffffffff0155", "5 ffffffffffffffffff010155", "4 01ffffffffffffffffff0155",
            "4 8180808080808080100355", "5 8180808080808080100355", "4 83000455", "4 8300840055", "4 010355", "5 010355",
            "4 8380808080808080800081808080808080808000", "4 83808080808080808080008155",
            "0 8380808080808080800055", "2 8380808080808080800055", "4 0701", "0 07", "4 0107", "2 07", "5 0701", "1 07", "5 0107", "3 07",
            "6 0000000055", "6 0000008055", "6 0000807f55", "6 000080ff55", "6 0000c07f55", "6 0000c0ff55", "6 0100807f55",
            "6 0100000055", "6 0100008055", "6 ffff7f0055", "6 0000800055", "6 ffff7f7f55", "6 ffff7fff55", "6 0000403f55",
            "6 000040", "6 0000", "6 00", "6 ",
        };
        for (const char* f : fixed) run_case(out, "ord", f);
    }
    long N = thorough ? 600000 : 6000;
    for (long i = 0; i < N; i++) {
        switch (g.below(10)) {
            case 0:
            case 1:
            case 2: {
                double x = gds_double(g);
                int ex;
                frexp(x, &ex);
                out.count(ex % 4 == 0 ? "genc:top-binade-of-hex-digit" : "genc:other-binade");
                run_case(out, "genc", genc_payload(x));
            } break;
            case 3:
            case 4: run_case(out, "gdec", hex_u64(gds_pattern(g))); break;
            case 5: {
                const char* wd[] = {"16", "32", "64"};
                unsigned k = (unsigned)g.below(3);
                uint64_t v = g.next();
                if (g.chance(20)) v >>= g.below(64);
                if (k == 0) v &= 0xFFFF;
                if (k == 1) v &= 0xFFFFFFFFULL;
                run_case(out, "swap", std::string(wd[k]) + " " + hex_u64(v));
            } break;
            case 6:
            case 7: run_case(out, "orw", hex_dbl(oas_double(g, out))); break;
            default: {
                unsigned ty;
                std::string b = real_bytes(g, ty);
                run_case(out, "ord", std::to_string(ty) + " " + b);
            }
        }
    }
    {
        Rng g2(seed * 0x100000001B3ULL + 12345);
        long N2 = thorough ? 200000 : 3000;
        for (long i = 0; i < N2; i++) {
            unsigned ty;
            std::string b = real_bytes2(g2, out, ty);
            run_case(out, "ord", std::to_string(ty) + " " + b);
        }
    }
    out.close();
    return 0;
}
