// C20 (sorting) harness: drives the real templates of include/gdstk/sort.hpp on int64_t arrays.
//   kinds:  sort   "<cmp> v0 v1 ..."          gdstk::sort(items, count, cmp)
//           heap   "<cmp> v0 v1 ..."          gdstk::heap_sort
//           ins    "<cmp> v0 v1 ..."          gdstk::insertion_sort
//           intro  "<depth> <cmp> v0 v1 ..."  gdstk::intro_sort(items, count, depth, cmp)  (depth 0 = heap regime)
//   cmp: lt (a < b), gt (a > b), key ((a >> 3) < (b >> 3): ties, so the exact output permutation is compared)
//   result: "ok v0 v1 ..." (hex) ; "OOB ..." when a guard word around the array was overwritten.
#include <algorithm>
#include <gdstk/gdstk.hpp>
#include "common.hpp"

using namespace gdstk;

static bool cmp_lt(const int64_t& a, const int64_t& b) { return a < b; }
static bool cmp_gt(const int64_t& a, const int64_t& b) { return a > b; }
static bool cmp_key(const int64_t& a, const int64_t& b) { return (a >> 3) < (b >> 3); }

typedef bool (*Cmp)(const int64_t&, const int64_t&);
static Cmp cmp_of(const std::string& s) {
    if (s == "lt") return cmp_lt;
    if (s == "gt") return cmp_gt;
    return cmp_key;
}

static const int64_t GUARD = 0x5A5A5A5A5A5A5A5ALL;
static const size_t NGUARD = 64;

static int64_t parse_i64(const char* s) {
    bool neg = s[0] == '-';
    uint64_t m = strtoull(s + (neg ? 1 : 0), NULL, 16);
    return neg ? (int64_t)(0 - m) : (int64_t)m;
}

// watchdog: a hang or a fatal signal inside the implementation becomes the outcome of the current
// case (HANG / CRASH), the files are closed and the run stops there.
static Out* g_out = NULL;
static char g_id[32];
static void on_signal(int sg) {
    const char* w = sg == SIGALRM ? "HANG" : "CRASH";
    if (g_out) {
        g_out->I(g_id, w);
        g_out->P(g_id, std::string("FAIL sort-not-ordered-permutation implementation ") + w);
        g_out->count(std::string("aborted:") + w);
        g_out->close();
    }
    _exit(0);
}

static void run_case(Out& out, const std::string& kind, const std::string& payload) {
    std::string id = out.add(kind, payload);
    g_out = &out;
    snprintf(g_id, sizeof g_id, "%s", id.c_str());
    alarm(60);
    // tokens
    std::vector<std::string> tok;
    {
        size_t p = 0;
        while (p < payload.size()) {
            size_t e = payload.find(' ', p);
            if (e == std::string::npos) e = payload.size();
            if (e > p) tok.push_back(payload.substr(p, e - p));
            p = e + 1;
        }
    }
    size_t t = 0;
    int64_t depth = 0;
    if (kind == "intro") {
        if (tok.empty()) {
            out.I(id, "bad-case");
            return;
        }
        depth = (int64_t)strtoll(tok[t++].c_str(), NULL, 10);
    }
    if (t >= tok.size()) {
        out.I(id, "bad-case");
        return;
    }
    std::string cname = tok[t++];
    Cmp cmp = cmp_of(cname);
    std::vector<int64_t> in;
    for (; t < tok.size(); t++) in.push_back(parse_i64(tok[t].c_str()));
    size_t n = in.size();
    std::vector<int64_t> buf(n + 2 * NGUARD, GUARD);
    for (size_t i = 0; i < n; i++) buf[NGUARD + i] = in[i];
    int64_t* items = buf.data() + NGUARD;
    if (kind == "sort") sort(items, (int64_t)n, cmp);
    else if (kind == "heap") heap_sort(items, (int64_t)n, cmp);
    else if (kind == "ins") insertion_sort(items, (int64_t)n, cmp);
    else if (kind == "intro") intro_sort(items, (int64_t)n, depth, cmp);
    else {
        out.I(id, "unknown-kind");
        return;
    }
    bool oob = false;
    for (size_t i = 0; i < NGUARD; i++)
        if (buf[i] != GUARD || buf[NGUARD + n + i] != GUARD) oob = true;
    std::string res = oob ? "OOB" : "ok";
    res.reserve(n * 6 + 8);
    for (size_t i = 0; i < n; i++) {
        res += ' ';
        res += hex_i64(items[i]);
    }
    out.I(id, res);
    // property-level oracle: ordered under the comparator and a permutation of the input
    bool ordered = true;
    for (size_t i = 0; i + 1 < n; i++)
        if (cmp(items[i + 1], items[i])) ordered = false;
    std::vector<int64_t> a(in), b(items, items + n);
    std::sort(a.begin(), a.end());
    std::sort(b.begin(), b.end());
    if (!oob && ordered && a == b) out.P(id, "ok");
    else
        out.P(id, std::string("FAIL sort-not-ordered-permutation ") + kind + " cmp=" + cname + " n=" + std::to_string(n) +
                      (oob ? " wrote-out-of-bounds" : "") + (ordered ? "" : " not-ordered") + (a == b ? "" : " not-a-permutation"));
}

// ---------------------------------------------------------------- generators
static const char* SHAPES[] = {"sorted", "reversed", "constant", "organ-pipe", "few-distinct", "random", "sawtooth", "nearly-sorted"};
static const int NSHAPES = 8;

static std::vector<int64_t> make_shape(Rng& g, int shape, size_t n) {
    std::vector<int64_t> v(n);
    int64_t base = g.chance(30) ? g.range(-1000, 1000) : 0;
    int64_t step = 1 + (int64_t)g.below(5);
    switch (shape) {
        case 0:
            for (size_t i = 0; i < n; i++) v[i] = base + (int64_t)i * step;
            break;
        case 1:
            for (size_t i = 0; i < n; i++) v[i] = base + (int64_t)(n - i) * step;
            break;
        case 2:
            for (size_t i = 0; i < n; i++) v[i] = base;
            break;
        case 3:
            for (size_t i = 0; i < n; i++) v[i] = base + (int64_t)std::min(i, n - 1 - i) * step;
            break;
        case 4: {
            uint64_t k = 2 + g.below(4);
            int64_t spread = g.coin() ? 1 : 8;
            for (size_t i = 0; i < n; i++) v[i] = base + (int64_t)g.below(k) * spread;
        } break;
        case 5: {
            if (g.coin())
                for (size_t i = 0; i < n; i++) v[i] = g.range(-(int64_t)n, (int64_t)n);
            else
                for (size_t i = 0; i < n; i++) v[i] = (int64_t)(g.next() >> 2) - ((int64_t)1 << 61);
        } break;
        case 6: {
            uint64_t period = 2 + g.below(30);
            for (size_t i = 0; i < n; i++) v[i] = base + (int64_t)(i % period) * step;
        } break;
        default: {
            for (size_t i = 0; i < n; i++) v[i] = base + (int64_t)i * step;
            size_t swaps = 1 + n / 20;
            for (size_t s = 0; s < swaps && n > 1; s++) std::swap(v[g.below(n)], v[g.below(n)]);
        }
    }
    return v;
}

static std::string payload_of(const char* cmp, const std::vector<int64_t>& v) {
    std::string s = cmp;
    s.reserve(v.size() * 6 + 8);
    for (size_t i = 0; i < v.size(); i++) {
        s += ' ';
        s += hex_i64(v[i]);
    }
    return s;
}

static const char* CMPS[] = {"lt", "gt", "key"};

static void gen_case(Out& out, Rng& g, const char* kind, int shape, size_t n, int cmp, int depth = 0) {
    std::vector<int64_t> v = make_shape(g, shape, n);
    std::string p = payload_of(CMPS[cmp], v);
    if (strcmp(kind, "intro") == 0) p = std::to_string(depth) + " " + p;
    out.count(std::string("shape:") + SHAPES[shape]);
    out.count(std::string("cmp:") + CMPS[cmp]);
    out.count(std::string("len:") + (n <= 1 ? "0-1" : n == 2 ? "2" : n <= 16 ? "3-16" : n <= 300 ? "17-300" : n <= 2000 ? "301-2000" : ">2000"));
    run_case(out, kind, p);
}

int main(int argc, char** argv) {
    if (argc < 4) {
        fprintf(stderr, "usage: c20_sort seed tier outdir [corpus] [replay]\n");
        return 2;
    }
    uint64_t seed = strtoull(argv[1], NULL, 10);
    bool thorough = strcmp(argv[2], "thorough") == 0;
    Out out;
    out.open(argv[3]);
    signal(SIGALRM, on_signal);
    signal(SIGSEGV, on_signal);
    signal(SIGBUS, on_signal);
    signal(SIGFPE, on_signal);
    if (argc > 5) {
        std::string k, p;
        // a replay of another unit's case (the replay file is handed to every unit) is not ours
        if (load_replay(argv[5], k, p) && (k == "sort" || k == "heap" || k == "ins" || k == "intro")) run_case(out, k, p);
        out.close();
        return 0;
    }
    // the corpus directory is shared by all units of the property: take only this unit's kinds
    for (auto& c : load_corpus(argc > 4 ? argv[4] : NULL))
        if (c.first == "sort" || c.first == "heap" || c.first == "ins" || c.first == "intro") run_case(out, c.first, c.second);
    Rng g(seed);
    // 1. sort(): every length, the six named shapes (+2 more), the three comparators
    size_t maxlen = thorough ? 600 : 300;
    for (size_t n = 0; n <= maxlen; n++)
        for (int shape = 0; shape < 6; shape++)
            for (int c = 0; c < 3; c++) gen_case(out, g, "sort", shape, n, c);
    for (size_t n = 0; n <= maxlen; n++)
        for (int shape = 6; shape < NSHAPES; shape++) gen_case(out, g, "sort", shape, n, (int)g.below(3));
    // 2. direct calls: heap_sort, insertion_sort, intro_sort with max_depth 0 (heap regime) and small depths
    size_t maxdirect = thorough ? 600 : 300;
    for (size_t n = 0; n <= maxdirect; n++) {
        gen_case(out, g, "heap", (int)g.below(NSHAPES), n, (int)g.below(3));
        gen_case(out, g, "heap", 5, n, 2);
        gen_case(out, g, "intro", (int)g.below(NSHAPES), n, (int)g.below(3), 0);
        gen_case(out, g, "intro", (int)g.below(NSHAPES), n, (int)g.below(3), 1 + (int)g.below(4));
        if (n <= 160 || thorough) gen_case(out, g, "ins", (int)g.below(NSHAPES), n, (int)g.below(3));
    }
    // 3. seeded mix (small lengths dominate: every regime boundary 0,1,2,3,16,17)
    long N = thorough ? 30000 : 1500;
    for (long i = 0; i < N; i++) {
        size_t n;
        switch (g.below(4)) {
            case 0: n = g.below(20); break;
            case 1: n = 14 + g.below(6); break;
            case 2: n = g.below(80); break;
            default: n = g.below(thorough ? 500 : 200);
        }
        int shape = (int)g.below(NSHAPES), c = (int)g.below(3);
        switch (g.below(5)) {
            case 0: gen_case(out, g, "heap", shape, n, c); break;
            case 1: gen_case(out, g, "ins", shape, std::min<size_t>(n, 120), c); break;
            case 2: gen_case(out, g, "intro", shape, n, c, (int)g.below(6)); break;
            default: gen_case(out, g, "sort", shape, n, c);
        }
    }
    // 4. large arrays (thorough): sort() up to 20000, heap regime up to 3000
    if (thorough) {
        for (int shape = 0; shape < NSHAPES; shape++) {
            int c = shape % 3;
            gen_case(out, g, "sort", shape, 2000 + g.below(18001), c);
            gen_case(out, g, "heap", shape, 1000 + g.below(2001), (c + 1) % 3);
            gen_case(out, g, "intro", shape, 1000 + g.below(2001), (c + 2) % 3, (int)g.below(4));
        }
        gen_case(out, g, "sort", 0, 20000, 0);
        gen_case(out, g, "sort", 4, 20000, 2);
        gen_case(out, g, "sort", 5, 20000, 1);
    }
    alarm(0);
    out.close();
    return 0;
}
