// Canonical text dumps of gdstk libraries on the database grid, shared by the GDSII harnesses.
// Grammar (whitespace separated tokens):
//   lib   := "LIB" namehex {cell}
//   cell  := "CELL" namehex {elem}
//   elem  := "P" layer type n {x y} props
//          | "H" layer type end width sw ext0 ext1 n {x y} props
//          | "R" namehex x y refl mag rot ("-" | cols rows reg x2 y2 x3 y3) props
//          | "T" layer type texthex x y anchor refl mag rot props
//   props := "k" count {attr valhex}
// mag / rot are printed as llround(value * 2^20) (rot in degrees) in dumps of loaded libraries, and as
// "b<16 hex digits>" (the GDSII 8-byte real written to the file) in write plans.
#pragma once
#include "layoutgen.hpp"
#include <math.h>

static inline std::string hexs(const char* s) {
    size_t n = strlen(s);
    if (n == 0) return "-";
    return hex_bytes((const uint8_t*)s, n);
}
static inline std::string num(int64_t v) { return std::to_string((long long)v); }

struct DumpCfg {
    double factor = 1;       // user units per database unit of the file the library came from
    bool sort_props = false;  // oracles compare property sets, the model tie compares the list order
    bool bits = false;       // write plan: reals as bit patterns
};

static inline int64_t grid(double x, double factor) { return llround(x / factor); }

static inline std::string dump_props(const Property* p, const DumpCfg& c) {
    std::vector<std::pair<uint64_t, std::string>> v;
    for (; p; p = p->next) {
        if (strcmp(p->name, "S_GDS_PROPERTY") != 0 || !p->value || p->value->type != PropertyType::UnsignedInteger || !p->value->next ||
            p->value->next->type != PropertyType::String)
            continue;
        PropertyValue* val = p->value->next;
        uint64_t n = val->count;
        // stored with terminating NUL: print as C string
        uint64_t len = 0;
        while (len < n && val->bytes[len] != 0) len++;
        v.push_back({p->value->unsigned_integer, len ? hex_bytes(val->bytes, len) : std::string("-")});
    }
    if (c.sort_props) std::sort(v.begin(), v.end());
    std::string s = " k " + std::to_string(v.size());
    for (auto& kv : v) s += " " + std::to_string(kv.first) + " " + kv.second;
    return s;
}

static inline std::string real_field(double v, bool degrees, const DumpCfg& c) {
    double x = degrees ? v * (180.0 / M_PI) : v;
    if (c.bits) {
        char b[32];
        snprintf(b, sizeof b, "b%016llx", (unsigned long long)gdsii_real_from_double(x));
        return b;
    }
    return num(llround(x * 1048576.0));
}

static inline std::string end_name(EndType e) {
    switch (e) {
        case EndType::Flush: return "0";
        case EndType::Round: return "1";
        case EndType::HalfWidth: return "2";
        case EndType::Extended: return "3";
        default: return "1";  // Smooth is written as round
    }
}

static inline std::string dump_polygon(const Polygon* p, const DumpCfg& c, Vec2 off = Vec2{0, 0}) {
    std::string s = " P " + num(get_layer(p->tag)) + " " + num(get_type(p->tag)) + " " + num((int64_t)p->point_array.count);
    for (uint64_t i = 0; i < p->point_array.count; i++)
        s += " " + num(grid(p->point_array[i].x + off.x, c.factor)) + " " + num(grid(p->point_array[i].y + off.y, c.factor));
    return s + dump_props(p->properties, c);
}

static inline std::string dump_simple_path(const FlexPath* fp, const DumpCfg& c, Vec2 off = Vec2{0, 0}) {
    const FlexPathElement* el = fp->elements;
    std::string s = " H " + num(get_layer(el->tag)) + " " + num(get_type(el->tag)) + " " + end_name(el->end_type) + " " +
                    num(llround(2 * el->half_width_and_offset[0].u / c.factor)) + " " + (fp->scale_width ? "1" : "0");
    if (el->end_type == EndType::Extended)
        s += " " + num(grid(el->end_extensions.u, c.factor)) + " " + num(grid(el->end_extensions.v, c.factor));
    else
        s += " 0 0";
    s += " " + num((int64_t)fp->spine.point_array.count);
    for (uint64_t i = 0; i < fp->spine.point_array.count; i++)
        s += " " + num(grid(fp->spine.point_array[i].x + off.x, c.factor)) + " " + num(grid(fp->spine.point_array[i].y + off.y, c.factor));
    return s + dump_props(fp->properties, c);
}

static inline const char* ref_name(const Reference* r) {
    return r->type == ReferenceType::Cell ? r->cell->name : (r->type == ReferenceType::RawCell ? r->rawcell->name : r->name);
}

// rep: "-" or "cols rows reg x2 y2 x3 y3"
static inline std::string dump_reference(const Reference* r, const DumpCfg& c, const std::string& rep, Vec2 off = Vec2{0, 0}) {
    std::string s = " R " + hexs(ref_name(r)) + " " + num(grid(r->origin.x + off.x, c.factor)) + " " + num(grid(r->origin.y + off.y, c.factor)) +
                    " " + (r->x_reflection ? "1" : "0") + " " + real_field(r->magnification, false, c) + " " +
                    real_field(r->rotation, true, c) + " " + rep;
    return s + dump_props(r->properties, c);
}

static inline std::string loaded_rep(const Reference* r, const DumpCfg& c) {
    const Repetition& rp = r->repetition;
    if (rp.type == RepetitionType::Rectangular) {
        return num((int64_t)rp.columns) + " " + num((int64_t)rp.rows) + " 0 " + num(grid(r->origin.x + rp.columns * rp.spacing.x, c.factor)) + " " +
               num(grid(r->origin.y, c.factor)) + " " + num(grid(r->origin.x, c.factor)) + " " +
               num(grid(r->origin.y + rp.rows * rp.spacing.y, c.factor));
    }
    if (rp.type == RepetitionType::Regular) {
        return num((int64_t)rp.columns) + " " + num((int64_t)rp.rows) + " 1 " + num(grid(r->origin.x + rp.columns * rp.v1.x, c.factor)) + " " +
               num(grid(r->origin.y + rp.columns * rp.v1.y, c.factor)) + " " + num(grid(r->origin.x + rp.rows * rp.v2.x, c.factor)) + " " +
               num(grid(r->origin.y + rp.rows * rp.v2.y, c.factor));
    }
    return "-";
}

static inline std::string dump_label(const Label* l, const DumpCfg& c, Vec2 off = Vec2{0, 0}) {
    std::string s = " T " + num(get_layer(l->tag)) + " " + num(get_type(l->tag)) + " " + hexs(l->text) + " " +
                    num(grid(l->origin.x + off.x, c.factor)) + " " + num(grid(l->origin.y + off.y, c.factor)) + " " + num((int64_t)l->anchor) + " " +
                    (l->x_reflection ? "1" : "0") + " " + real_field(l->magnification, false, c) + " " + real_field(l->rotation, true, c);
    return s + dump_props(l->properties, c);
}

// dump of a library as LOADED from a file (no repetitions on shapes; AREFs as lattices)
static inline std::string dump_loaded(const Library& lib, const DumpCfg& c) {
    std::string s = "LIB " + hexs(lib.name ? lib.name : "");
    for (uint64_t i = 0; i < lib.cell_array.count; i++) {
        const Cell* cell = lib.cell_array[i];
        s += " CELL " + hexs(cell->name);
        for (uint64_t j = 0; j < cell->polygon_array.count; j++) s += dump_polygon(cell->polygon_array[j], c);
        for (uint64_t j = 0; j < cell->flexpath_array.count; j++) s += dump_simple_path(cell->flexpath_array[j], c);
        for (uint64_t j = 0; j < cell->reference_array.count; j++)
            s += dump_reference(cell->reference_array[j], c, loaded_rep(cell->reference_array[j], c));
        for (uint64_t j = 0; j < cell->label_array.count; j++) s += dump_label(cell->label_array[j], c);
    }
    return s;
}

// exact quarter-turn classification of the generator's angles
static inline int quarter_turns(double rot, bool& ok) {
    ok = true;
    if (rot == 0) return 0;
    if (rot == M_PI / 2) return 1;
    if (rot == M_PI) return 2;
    if (rot == -M_PI / 2) return 3;
    ok = false;
    return 0;
}

// The write plan: what Library::write_gds is expected to emit for `lib` (elements generated by
// layoutgen.hpp: exact grid coordinates), with repetitions expanded through Repetition::get_offsets
// and the AREF decision taken by exact integer reasoning (independent of Reference::to_gds).
static inline std::string write_plan(const Library& lib, DumpCfg c, uint64_t u0, uint64_t u1) {
    char ub[64];
    snprintf(ub, sizeof ub, " %016llx %016llx", (unsigned long long)u0, (unsigned long long)u1);
    std::string s = "LIB " + hexs(lib.name) + ub;
    for (uint64_t i = 0; i < lib.cell_array.count; i++) {
        const Cell* cell = lib.cell_array[i];
        s += " CELL " + hexs(cell->name);
        Vec2 zero = {0, 0};
        for (uint64_t j = 0; j < cell->polygon_array.count; j++) {
            const Polygon* p = cell->polygon_array[j];
            Array<Vec2> offs = {};
            if (p->repetition.type != RepetitionType::None) p->repetition.get_offsets(offs); else offs.append(zero);
            for (uint64_t k = 0; k < offs.count; k++) s += dump_polygon(p, c, offs[k]);
            offs.clear();
        }
        for (uint64_t j = 0; j < cell->flexpath_array.count; j++) {
            const FlexPath* p = cell->flexpath_array[j];
            Array<Vec2> offs = {};
            if (p->repetition.type != RepetitionType::None) p->repetition.get_offsets(offs); else offs.append(zero);
            for (uint64_t k = 0; k < offs.count; k++) s += dump_simple_path(p, c, offs[k]);
            offs.clear();
        }
        for (uint64_t j = 0; j < cell->reference_array.count; j++) {
            const Reference* r = cell->reference_array[j];
            const Repetition& rp = r->repetition;
            bool array = false;
            std::string rep = "-";
            if (rp.type == RepetitionType::Rectangular || rp.type == RepetitionType::Regular) {
                bool q;
                int m = quarter_turns(r->rotation, q);
                Vec2 v1, v2;
                if (rp.type == RepetitionType::Rectangular) { v1 = Vec2{rp.spacing.x, 0}; v2 = Vec2{0, rp.spacing.y}; }
                else { v1 = rp.v1; v2 = rp.v2; }
                if (q) {
                    // rotated axes are the coordinate axes: a = e_x rotated m quarter turns
                    Vec2 ax = m == 0 ? Vec2{1, 0} : m == 1 ? Vec2{0, 1} : m == 2 ? Vec2{-1, 0} : Vec2{0, -1};
                    Vec2 ay = Vec2{-ax.y, ax.x};
                    auto along = [](Vec2 v, Vec2 a) { return v.x * a.y - v.y * a.x == 0; };  // parallel or zero
                    uint64_t cols = rp.columns, rows = rp.rows;
                    bool swap_ = false;
                    if (along(v1, ax) && along(v2, ay)) array = true;
                    else if (along(v1, ay) && along(v2, ax)) { array = true; swap_ = true; }
                    if (rp.type == RepetitionType::Regular || true) {
                        if (array) {
                            Vec2 a = swap_ ? v2 : v1, b = swap_ ? v1 : v2;
                            uint64_t cc = swap_ ? rows : cols, rr = swap_ ? cols : rows;
                            bool regular_flag = !(r->rotation == 0 && !r->x_reflection);
                            int64_t ox = grid(r->origin.x, c.factor), oy = grid(r->origin.y, c.factor);
                            int64_t x2 = grid(r->origin.x + cc * a.x, c.factor), y2 = grid(r->origin.y + cc * a.y, c.factor);
                            int64_t x3 = grid(r->origin.x + rr * b.x, c.factor), y3 = grid(r->origin.y + rr * b.y, c.factor);
                            (void)ox; (void)oy;
                            rep = num((int64_t)cc) + " " + num((int64_t)rr) + " " + (regular_flag ? "1" : "0") + " " + num(x2) + " " + num(y2) + " " + num(x3) + " " + num(y3);
                        }
                    }
                }
            }
            if (array) {
                s += dump_reference(r, c, rep);
            } else {
                Array<Vec2> offs = {};
                if (rp.type != RepetitionType::None) rp.get_offsets(offs); else offs.append(zero);
                for (uint64_t k = 0; k < offs.count; k++) s += dump_reference(r, c, "-", offs[k]);
                offs.clear();
            }
        }
        for (uint64_t j = 0; j < cell->label_array.count; j++) {
            const Label* p = cell->label_array[j];
            Array<Vec2> offs = {};
            if (p->repetition.type != RepetitionType::None) p->repetition.get_offsets(offs); else offs.append(zero);
            for (uint64_t k = 0; k < offs.count; k++) s += dump_label(p, c, offs[k]);
            offs.clear();
        }
    }
    return s;
}
