// Record-level scanner for OASIS byte streams (harness side of C04): walks the records of a file by their
// syntax only (record byte, info byte, field lengths), inflates CBLOCKs, and reports
//   - the byte offset and record id of every top-level record of the file,
//   - the same stream with every CBLOCK replaced by its inflated content ("spliced"),
//   - the fields of START / END that the END-record truth checks need,
//   - PROPERTY records in raw form (name reference / inline name, values) with the record they follow.
// Written from the record layouts, independent of gdstk's reader and of the Coq model.
#pragma once
#include <zlib.h>
#include "common.hpp"

namespace oscan {

struct Cur {
    const uint8_t* p;
    size_t n, i = 0;
    bool bad = false;
    Cur(const uint8_t* p_, size_t n_) : p(p_), n(n_) {}
    bool eof() const { return i >= n; }
    uint8_t byte() {
        if (i >= n) {
            bad = true;
            return 0;
        }
        return p[i++];
    }
    uint64_t uint() {
        uint64_t v = 0;
        unsigned sh = 0;
        while (true) {
            uint8_t b = byte();
            if (bad) return 0;
            if (sh < 64) v |= (uint64_t)(b & 0x7f) << sh;
            sh += 7;
            if (!(b & 0x80)) break;
            if (sh > 70) {
                bad = true;
                return 0;
            }
        }
        return v;
    }
    int64_t sint() {
        uint64_t v = uint();
        int64_t m = (int64_t)(v >> 1);
        return (v & 1) ? -m : m;
    }
    void skip(size_t k) {
        if (i + k > n) bad = true;
        else i += k;
    }
    std::string str() {
        uint64_t l = uint();
        if (bad || i + l > n) {
            bad = true;
            return "";
        }
        std::string s((const char*)p + i, (size_t)l);
        i += l;
        return s;
    }
    void gdelta() {
        // first integer carries the form bit
        size_t save = i;
        uint8_t b = byte();
        i = save;
        uint();
        if (b & 1) uint();
    }
    double real_by(uint64_t ty) {
        switch (ty) {
            case 0: return (double)uint();
            case 1: return -(double)uint();
            case 2: return 1.0 / (double)uint();
            case 3: return -1.0 / (double)uint();
            case 4: { double a = (double)uint(); double b = (double)uint(); return a / b; }
            case 5: { double a = (double)uint(); double b = (double)uint(); return -a / b; }
            case 6: {
                if (i + 4 > n) { bad = true; return 0; }
                uint32_t u = (uint32_t)p[i] | ((uint32_t)p[i + 1] << 8) | ((uint32_t)p[i + 2] << 16) | ((uint32_t)p[i + 3] << 24);
                i += 4;
                float f;
                memcpy(&f, &u, 4);
                return (double)f;
            }
            case 7: {
                if (i + 8 > n) { bad = true; return 0; }
                uint64_t u = 0;
                for (int k = 7; k >= 0; k--) u = (u << 8) | p[i + k];
                i += 8;
                return bits_dbl(u);
            }
            default: bad = true; return 0;
        }
    }
    double real() { return real_by(uint()); }
    void repetition() {
        uint64_t ty = uint();
        switch (ty) {
            case 0: break;
            case 1: uint(); uint(); uint(); uint(); break;
            case 2: case 3: uint(); uint(); break;
            case 4: case 6: { uint64_t c = uint(); for (uint64_t k = 0; k <= c && !bad; k++) uint(); } break;
            case 5: case 7: { uint64_t c = uint(); uint(); for (uint64_t k = 0; k <= c && !bad; k++) uint(); } break;
            case 8: uint(); uint(); gdelta(); gdelta(); break;
            case 9: uint(); gdelta(); break;
            case 10: { uint64_t c = uint(); for (uint64_t k = 0; k <= c && !bad; k++) gdelta(); } break;
            case 11: { uint64_t c = uint(); uint(); for (uint64_t k = 0; k <= c && !bad; k++) gdelta(); } break;
            default: bad = true;
        }
    }
    // returns the number of vertices the list denotes (initial vertex included)
    uint64_t point_list(bool closed) {
        uint64_t ty = uint(), c = uint();
        for (uint64_t k = 0; k < c && !bad; k++) {
            if (ty <= 3) uint();
            else if (ty <= 5) gdelta();
            else bad = true;
        }
        return c + 1 + ((closed && ty <= 1) ? 1 : 0);
    }
};

struct PropVal {
    uint64_t type = 0;  // OASIS data type 0..15
    uint64_t u = 0;
    int64_t i = 0;
    double r = 0;
    std::string s;
};
struct RawProp {
    size_t after_record;  // index into records of the record this property follows (the nearest non-PROPERTY record)
    bool name_is_ref = false, name_modal = false, values_modal = false;
    uint64_t name_ref = 0;
    std::string name;
    std::vector<PropVal> values;
};
struct Rec {
    size_t offset;  // in the spliced stream
    size_t file_offset;  // in the original file, (size_t)-1 when inside a CBLOCK
    unsigned id;
    // a few decoded fields
    uint64_t ref = 0;   // CELL_REF_NUM number, explicit table reference number
    std::string name;   // CELL name, table string
};
struct Scan {
    bool ok = false;
    std::string error;
    std::vector<uint8_t> spliced;
    std::vector<Rec> records;
    std::vector<RawProp> props;
    double unit_real = 0;
    uint64_t offset_flag = 0;
    uint64_t table[12] = {0};   // (flag, offset) x 6: cellname, textstring, propname, propstring, layername, xname
    size_t end_offset = 0;      // file offset of the END record byte
    unsigned validation = 0;
    size_t cblocks = 0;
    size_t max_inline_string = 0;   // strings given inside CELL / PLACEMENT / TEXT / PROPERTY records
    uint64_t max_polygon_vertices = 0, max_path_vertices = 0;
};

// inflate (raw deflate) helper
static inline bool inflate_raw(const uint8_t* src, size_t n, size_t out_n, std::vector<uint8_t>& out) {
    out.assign(out_n, 0);
    z_stream s;
    memset(&s, 0, sizeof s);
    if (inflateInit2(&s, -15) != Z_OK) return false;
    s.next_in = (Bytef*)src;
    s.avail_in = (uInt)n;
    s.next_out = out.data();
    s.avail_out = (uInt)out_n;
    int ret = inflate(&s, Z_FINISH);
    bool ok = ret == Z_STREAM_END && s.total_out == out_n;
    inflateEnd(&s);
    return ok;
}
static inline std::vector<uint8_t> deflate_raw(const std::vector<uint8_t>& in, int level) {
    z_stream s;
    memset(&s, 0, sizeof s);
    deflateInit2(&s, level, Z_DEFLATED, -15, 8, Z_DEFAULT_STRATEGY);
    std::vector<uint8_t> out(deflateBound(&s, (uLong)in.size()) + 16);
    s.next_in = (Bytef*)in.data();
    s.avail_in = (uInt)in.size();
    s.next_out = out.data();
    s.avail_out = (uInt)out.size();
    deflate(&s, Z_FINISH);
    out.resize(s.total_out);
    deflateEnd(&s);
    return out;
}

// scans the records in [c.i, c.n); appends to sc.  `base_file_offset`: offset of c.p[0] in the original file or
// (size_t)-1 inside a CBLOCK.  Returns false on END (scan complete) or error.
static inline bool scan_records(Cur& c, Scan& sc, size_t base_file_offset, bool inside_cblock, size_t& last_nonprop) {
    while (!c.eof() && !c.bad) {
        size_t rec_start = c.i;
        unsigned id = (unsigned)c.uint();
        if (c.bad) break;
        Rec r;
        r.id = id;
        r.offset = sc.spliced.size();
        r.file_offset = inside_cblock ? (size_t)-1 : base_file_offset + rec_start;
        bool splice_copy = true;
        switch (id) {
            case 0: break;
            case 2: {
                if (inside_cblock) { c.bad = true; break; }
                sc.end_offset = base_file_offset + rec_start;
                size_t body = c.i;
                if (sc.offset_flag == 1)
                    for (int k = 0; k < 12; k++) sc.table[k] = c.uint();
                c.str();
                sc.validation = (unsigned)c.uint();
                if (sc.validation == 1 || sc.validation == 2) c.skip(4);
                (void)body;
                sc.records.push_back(r);
                sc.spliced.insert(sc.spliced.end(), c.p + rec_start, c.p + c.i);
                if (!c.eof()) c.bad = true;
                return false;
            }
            case 3: case 5: case 7: case 9: r.name = c.str(); break;
            case 4: case 6: case 8: case 10: r.name = c.str(); r.ref = c.uint(); break;
            case 11: case 12:
                c.str();
                for (int k = 0; k < 2; k++) {
                    uint64_t ty = c.uint();
                    if (ty >= 1 && ty <= 3) c.uint();
                    else if (ty == 4) { c.uint(); c.uint(); }
                    else if (ty != 0) c.bad = true;
                }
                break;
            case 13: r.ref = c.uint(); break;
            case 14: r.name = c.str(); sc.max_inline_string = std::max(sc.max_inline_string, r.name.size()); break;
            case 15: case 16: break;
            case 17: case 18: {
                uint8_t info = c.byte();
                if (info & 0x80) { if (info & 0x40) c.uint(); else sc.max_inline_string = std::max(sc.max_inline_string, c.str().size()); }
                if (id == 18) { if (info & 0x04) c.real(); if (info & 0x02) c.real(); }
                if (info & 0x20) c.uint();
                if (info & 0x10) c.uint();
                if (info & 0x08) c.repetition();
            } break;
            case 19: {
                uint8_t info = c.byte();
                if (info & 0x40) { if (info & 0x20) c.uint(); else sc.max_inline_string = std::max(sc.max_inline_string, c.str().size()); }
                if (info & 0x01) c.uint();
                if (info & 0x02) c.uint();
                if (info & 0x10) c.uint();
                if (info & 0x08) c.uint();
                if (info & 0x04) c.repetition();
            } break;
            case 20: {
                uint8_t info = c.byte();
                if (info & 0x01) c.uint();
                if (info & 0x02) c.uint();
                if (info & 0x40) c.uint();
                if (info & 0x20) c.uint();
                if (info & 0x10) c.uint();
                if (info & 0x08) c.uint();
                if (info & 0x04) c.repetition();
            } break;
            case 21: {
                uint8_t info = c.byte();
                if (info & 0x01) c.uint();
                if (info & 0x02) c.uint();
                if (info & 0x20) sc.max_polygon_vertices = std::max<uint64_t>(sc.max_polygon_vertices, c.point_list(true));
                if (info & 0x10) c.uint();
                if (info & 0x08) c.uint();
                if (info & 0x04) c.repetition();
            } break;
            case 22: {
                uint8_t info = c.byte();
                if (info & 0x01) c.uint();
                if (info & 0x02) c.uint();
                if (info & 0x40) c.uint();
                if (info & 0x80) {
                    uint8_t sch = c.byte();
                    if ((sch & 0x0c) == 0x0c) c.uint();
                    if ((sch & 0x03) == 0x03) c.uint();
                }
                if (info & 0x20) sc.max_path_vertices = std::max<uint64_t>(sc.max_path_vertices, c.point_list(false));
                if (info & 0x10) c.uint();
                if (info & 0x08) c.uint();
                if (info & 0x04) c.repetition();
            } break;
            case 23: case 24: case 25: {
                uint8_t info = c.byte();
                if (info & 0x01) c.uint();
                if (info & 0x02) c.uint();
                if (info & 0x40) c.uint();
                if (info & 0x20) c.uint();
                c.uint();
                if (id == 23) c.uint();
                if (info & 0x10) c.uint();
                if (info & 0x08) c.uint();
                if (info & 0x04) c.repetition();
            } break;
            case 26: {
                uint8_t info = c.byte();
                if (info & 0x01) c.uint();
                if (info & 0x02) c.uint();
                if (info & 0x80) c.uint();
                if (info & 0x40) c.uint();
                if (info & 0x20) c.uint();
                if (info & 0x10) c.uint();
                if (info & 0x08) c.uint();
                if (info & 0x04) c.repetition();
            } break;
            case 27: {
                uint8_t info = c.byte();
                if (info & 0x01) c.uint();
                if (info & 0x02) c.uint();
                if (info & 0x20) c.uint();
                if (info & 0x10) c.uint();
                if (info & 0x08) c.uint();
                if (info & 0x04) c.repetition();
            } break;
            case 28: case 29: {
                RawProp rp;
                rp.after_record = last_nonprop;
                if (id == 29) {
                    rp.name_modal = rp.values_modal = true;
                } else {
                    uint8_t info = c.byte();
                    if (info & 0x04) {
                        if (info & 0x02) { rp.name_is_ref = true; rp.name_ref = c.uint(); }
                        else rp.name = c.str();
                    } else rp.name_modal = true;
                    if (info & 0x08) rp.values_modal = true;
                    else {
                        uint64_t cnt = info >> 4;
                        if (cnt == 15) cnt = c.uint();
                        for (uint64_t k = 0; k < cnt && !c.bad; k++) {
                            PropVal v;
                            v.type = c.uint();
                            if (v.type <= 7) v.r = c.real_by(v.type);
                            else if (v.type == 8) v.u = c.uint();
                            else if (v.type == 9) v.i = c.sint();
                            else if (v.type <= 12) v.s = c.str();
                            else if (v.type <= 15) v.u = c.uint();
                            else c.bad = true;
                            rp.values.push_back(v);
                        }
                    }
                }
                sc.props.push_back(rp);
            } break;
            case 34: {
                if (inside_cblock) { c.bad = true; break; }
                uint64_t ctype = c.uint(), usize = c.uint(), csize = c.uint();
                if (c.bad || ctype != 0 || c.i + csize > c.n) { c.bad = true; break; }
                std::vector<uint8_t> inner;
                if (!inflate_raw(c.p + c.i, (size_t)csize, (size_t)usize, inner)) { c.bad = true; break; }
                c.i += (size_t)csize;
                sc.cblocks++;
                r.offset = sc.spliced.size();
                sc.records.push_back(r);
                Cur ic(inner.data(), inner.size());
                if (!scan_records(ic, sc, (size_t)-1, true, last_nonprop) && !ic.eof()) c.bad = true;
                if (ic.bad) c.bad = true;
                splice_copy = false;
            } break;
            default: c.bad = true;
        }
        if (c.bad) break;
        if (id != 34) {
            if (id != 28 && id != 29) {
                sc.records.push_back(r);
                last_nonprop = sc.records.size() - 1;
            } else {
                sc.records.push_back(r);
            }
            if (splice_copy) sc.spliced.insert(sc.spliced.end(), c.p + rec_start, c.p + c.i);
        }
    }
    return !c.bad;
}

static inline Scan scan_file(const std::vector<uint8_t>& f) {
    Scan sc;
    static const char magic[] = "%SEMI-OASIS\r\n";
    if (f.size() < 14 || memcmp(f.data(), magic, 13) != 0) {
        sc.error = "magic";
        return sc;
    }
    Cur c(f.data(), f.size());
    c.i = 13;
    size_t start = c.i;
    if (c.uint() != 1) {
        sc.error = "no START";
        return sc;
    }
    std::string ver = c.str();
    sc.unit_real = c.real();
    sc.offset_flag = c.uint();
    if (sc.offset_flag == 0)
        for (int k = 0; k < 12; k++) sc.table[k] = c.uint();
    if (c.bad || ver != "1.0") {
        sc.error = "START";
        return sc;
    }
    Rec r;
    r.id = 1;
    r.offset = start;
    r.file_offset = start;
    sc.spliced.assign(f.begin(), f.begin() + c.i);
    sc.records.push_back(r);
    size_t last_nonprop = 0;
    scan_records(c, sc, 0, false, last_nonprop);
    if (c.bad) {
        sc.error = "record syntax at byte " + std::to_string(c.i);
        return sc;
    }
    if (sc.records.empty() || sc.records.back().id != 2) {
        sc.error = "no END";
        return sc;
    }
    sc.ok = true;
    return sc;
}

}  // namespace oscan
