// C20 table harness: drives gdstk's four open-addressing hash tables
//   Map<uint64_t> (string keys), Set<uint64_t>, TagMap, StyleMap
// with adversarial operation histories (keys chosen with gdstk's own hash() so that they collide,
// wrap around the end of the slot array and straddle the growth thresholds).
// One case = one history.  Result = the output of every operation + the raw slot layout of the
// final table.  Property-level oracle: the same history on a std::map.
// Every history runs in a forked child: a hang / crash of the library is an outcome.
// The public resize(c) is an operation of the histories ("r:<hex c>") with ANY capacity: smaller than
// the count, equal to it, 0, 1.  Capacity 1 is the one value that leaves a full table (one slot, one
// entry): the next look-up / deletion of an absent key does not return (TableResizeProofs.v:
// resize_one_hangs_refuted; every other capacity is covered by table_refines_map_resize).  Such a
// history ends as "hang" for implementation and model alike and its oracle line carries the finding key
// resize:capacity-1-full-table; histories with "r:1" get a 2 s limit and their number per run is bounded.
#include <algorithm>
#include <set>
#include <gdstk/gdstk.hpp>
#include "common.hpp"

using namespace gdstk;

// ---------------------------------------------------------------- operations
struct Op {
    char t;             // s g h d c y i r
    std::string k, v;   // canonical payload text of key / value
    std::string kb, vb; // key bytes (map), value bytes (stylemap) as C strings
    uint64_t ku, vu;    // numeric key / value / resize capacity
    std::string tok;    // the token as written in the payload
};

static std::string canon_bytes(const std::string& hex, std::string& bytes) {
    std::vector<uint8_t> b = unhex(hex);
    bytes.assign(b.begin(), b.end());
    return hex_bytes(b.data(), b.size());
}

// kind index: 0 map, 1 set, 2 tagmap, 3 stylemap
static int kind_index(const std::string& kind) {
    if (kind == "map") return 0;
    if (kind == "set") return 1;
    if (kind == "tagmap") return 2;
    if (kind == "stylemap") return 3;
    return -1;
}
static const char* KIND_NAME[4] = {"map", "set", "tagmap", "stylemap"};

// Tokens that do not apply to the kind (or are malformed) are ignored; the driver does the same.
static std::vector<Op> parse_ops(int ki, const std::string& payload) {
    std::vector<Op> ops;
    size_t p = 0;
    while (p < payload.size()) {
        size_t e = payload.find(' ', p);
        if (e == std::string::npos) e = payload.size();
        std::string w = payload.substr(p, e - p);
        p = e + 1;
        if (w.empty()) continue;
        std::vector<std::string> parts;
        size_t q = 0;
        while (true) {
            size_t c = w.find(':', q);
            if (c == std::string::npos) {
                parts.push_back(w.substr(q));
                break;
            }
            parts.push_back(w.substr(q, c - q));
            q = c + 1;
        }
        if (parts[0].size() != 1) continue;
        Op o;
        o.t = parts[0][0];
        o.ku = o.vu = 0;
        o.tok = w;
        size_t n = parts.size();
        bool ok = false;
        switch (o.t) {
            case 's': ok = (ki == 1) ? n == 2 : n == 3; break;
            case 'g': ok = ki != 1 && n == 2; break;
            case 'h': ok = ki != 3 && n == 2; break;
            case 'd': ok = n == 2; break;
            case 'c':
            case 'y':
            case 'i': ok = n == 1; break;
            case 'r': ok = n == 2 && parts[1].size() >= 1 && parts[1].size() <= 6; break;
            default: ok = false;
        }
        if (!ok) continue;
        if (o.t == 'r') {
            o.ku = strtoull(parts[1].c_str(), NULL, 16);
        } else if (n >= 2) {
            if (ki == 0) {
                o.k = canon_bytes(parts[1], o.kb);
            } else {
                o.ku = strtoull(parts[1].c_str(), NULL, 16);
                o.k = hex_u64(o.ku);
            }
            if (n == 3) {
                if (ki == 3) {
                    o.v = canon_bytes(parts[2], o.vb);
                } else {
                    o.vu = strtoull(parts[2].c_str(), NULL, 16);
                    o.v = hex_u64(o.vu);
                }
            }
        }
        ops.push_back(o);
    }
    return ops;
}

// ---------------------------------------------------------------- the four tables, one interface
struct TrMap {
    typedef Map<uint64_t> Tab;
    typedef MapItem<uint64_t> Item;
    static void set(Tab& t, const Op& o) { t.set(o.kb.c_str(), o.vu); }
    static std::string get(Tab& t, const Op& o) { return hex_u64(t.get(o.kb.c_str())); }
    static bool has(Tab& t, const Op& o) { return t.has_key(o.kb.c_str()); }
    static bool del(Tab& t, const Op& o) { return t.del(o.kb.c_str()); }
    static bool occ(const Item& it) { return it.key != NULL; }
    static std::string key(const Item& it) { return hex_bytes((const uint8_t*)it.key, strlen(it.key)); }
    static std::string item(const Item& it) { return key(it) + "=" + hex_u64(it.value); }
    static std::string absent(const Op&) { return "0"; }
    static bool set_is_del(const Op&) { return false; }
    static std::string pair(const std::string& k, const std::string& v) { return k + "=" + v; }
};
struct TrSet {
    typedef Set<uint64_t> Tab;
    typedef SetItem<uint64_t> Item;
    static void set(Tab& t, const Op& o) { t.add(o.ku); }
    static std::string get(Tab&, const Op&) { return ""; }
    static bool has(Tab& t, const Op& o) { return t.has_value(o.ku); }
    static bool del(Tab& t, const Op& o) { return t.del(o.ku); }
    static bool occ(const Item& it) { return it.valid; }
    static std::string key(const Item& it) { return hex_u64(it.value); }
    static std::string item(const Item& it) { return key(it); }
    static std::string absent(const Op&) { return ""; }
    static bool set_is_del(const Op&) { return false; }
    static std::string pair(const std::string& k, const std::string&) { return k; }
};
struct TrTag {
    typedef TagMap Tab;
    typedef TagMapItem Item;
    static void set(Tab& t, const Op& o) { t.set(o.ku, o.vu); }
    static std::string get(Tab& t, const Op& o) { return hex_u64(t.get(o.ku)); }
    static bool has(Tab& t, const Op& o) { return t.has_key(o.ku); }
    static bool del(Tab& t, const Op& o) { return t.del(o.ku); }
    static bool occ(const Item& it) { return it.key != it.value; }
    static std::string key(const Item& it) { return hex_u64(it.key); }
    static std::string item(const Item& it) { return key(it) + "=" + hex_u64(it.value); }
    static std::string absent(const Op& o) { return o.k; }
    static bool set_is_del(const Op& o) { return o.ku == o.vu; }
    static std::string pair(const std::string& k, const std::string& v) { return k + "=" + v; }
};
struct TrStyle {
    typedef StyleMap Tab;
    typedef Style Item;
    static void set(Tab& t, const Op& o) { t.set(o.ku, o.vb.c_str()); }
    static std::string get(Tab& t, const Op& o) {
        const char* s = t.get(o.ku);
        return s ? hex_bytes((const uint8_t*)s, strlen(s)) : "~";
    }
    static bool has(Tab& t, const Op& o) { return t.get(o.ku) != NULL; }
    static bool del(Tab& t, const Op& o) { return t.del(o.ku); }
    static bool occ(const Item& it) { return it.value != NULL; }
    static std::string key(const Item& it) { return hex_u64(it.tag); }
    static std::string item(const Item& it) {
        return key(it) + "=" + hex_bytes((const uint8_t*)it.value, strlen(it.value));
    }
    static std::string absent(const Op&) { return "~"; }
    static bool set_is_del(const Op&) { return false; }
    static std::string pair(const std::string& k, const std::string& v) { return k + "=" + v; }
};

static std::string clip(const std::string& s) { return s.size() > 160 ? s.substr(0, 160) + "..." : s; }

static std::string join_items(std::vector<std::string>& v) {
    std::sort(v.begin(), v.end());
    std::string s = "{";
    for (size_t i = 0; i < v.size(); i++) {
        if (i) s += ",";
        s += v[i];
    }
    return s + "}";
}

// Runs in the child.  Writes three lines: result text, oracle verdict, statistics.
template <class Tr>
static void run_ops(const std::vector<Op>& ops, FILE* o) {
    typename Tr::Tab t = {};
    std::map<std::string, std::string> ref;  // the std::map oracle, on the canonical payload text
    std::string res, verdict = "ok";
    uint64_t maxcount = 0, capchanges = 0, wrap = 0, prevcap = 0;
    char nb[32];
    for (size_t i = 0; i < ops.size(); i++) {
        const Op& op = ops[i];
        std::string a, b;  // table output, oracle output
        switch (op.t) {
            case 's':
                Tr::set(t, op);
                if (Tr::set_is_del(op)) ref.erase(op.k);
                else ref[op.k] = op.v;
                a = b = ".";
                break;
            case 'g': {
                a = Tr::get(t, op);
                std::map<std::string, std::string>::iterator it = ref.find(op.k);
                b = it == ref.end() ? Tr::absent(op) : it->second;
            } break;
            case 'h':
                a = Tr::has(t, op) ? "1" : "0";
                b = ref.count(op.k) ? "1" : "0";
                break;
            case 'd':
                a = Tr::del(t, op) ? "1" : "0";
                b = ref.erase(op.k) ? "1" : "0";
                break;
            case 'c':
                t.clear();
                ref.clear();
                a = b = ".";
                break;
            case 'y': {
                typename Tr::Tab other = {};
                other.copy_from(t);
                t.clear();
                t = other;
                a = b = ".";
            } break;
            case 'i': {
                std::vector<std::string> va, vb;
                for (typename Tr::Item* it = t.next(NULL); it; it = t.next(it)) va.push_back(Tr::item(*it));
                for (std::map<std::string, std::string>::iterator it = ref.begin(); it != ref.end(); ++it)
                    vb.push_back(Tr::pair(it->first, it->second));
                a = join_items(va);
                b = join_items(vb);
            } break;
            case 'r':
                t.resize(op.ku);
                a = b = ".";
                break;
        }
        if (i) res += " ";
        res += a;
        if (a != b && verdict == "ok") {
            snprintf(nb, sizeof nb, "%zu", i);
            verdict = std::string("FAIL table-vs-stdmap op ") + nb + " " + clip(op.tok) + ": table=" + clip(a) +
                      " stdmap=" + clip(b);
        }
        if (t.count > maxcount) maxcount = t.count;
        if (t.capacity != prevcap) {
            capchanges++;
            prevcap = t.capacity;
        }
        if (t.capacity > 1 && t.items && Tr::occ(t.items[0]) && Tr::occ(t.items[t.capacity - 1])) wrap = 1;
    }
    // raw layout of the final table
    std::string lay = "L:" + hex_u64(t.capacity) + "/" + hex_u64(t.count) + ":";
    std::vector<std::string> keys;
    uint64_t run = 0, maxrun = 0, firstrun = 0;
    bool seen_empty = false;
    for (uint64_t i = 0; i < t.capacity && t.items; i++) {
        if (Tr::occ(t.items[i])) {
            if (!keys.empty()) lay += ",";
            lay += hex_u64(i) + "=" + Tr::key(t.items[i]);
            keys.push_back(Tr::key(t.items[i]));
            run++;
            if (run > maxrun) maxrun = run;
        } else {
            if (!seen_empty) firstrun = run;
            seen_empty = true;
            run = 0;
        }
    }
    if (seen_empty && run + firstrun > maxrun) maxrun = run + firstrun;  // cluster across the end
    if (!ops.empty()) res += " ";
    res += lay;
    if (verdict == "ok") {
        std::sort(keys.begin(), keys.end());
        std::vector<std::string> rk;
        for (std::map<std::string, std::string>::iterator it = ref.begin(); it != ref.end(); ++it) rk.push_back(it->first);
        if (keys != rk || t.count != rk.size()) {
            snprintf(nb, sizeof nb, "%zu/%zu", keys.size(), rk.size());
            verdict = std::string("FAIL table-vs-stdmap final table: count=") + hex_u64(t.count) +
                      " occupied/expected=" + nb;
        }
    }
    fprintf(o, "%s\n%s\n%llu %llu %llu %llu\n", res.c_str(), verdict.c_str(), (unsigned long long)maxcount,
            (unsigned long long)capchanges, (unsigned long long)wrap, (unsigned long long)maxrun);
}

static const char* bucket(uint64_t n) {
    if (n == 0) return "0";
    if (n <= 4) return "1-4";
    if (n <= 8) return "5-8";
    if (n <= 16) return "9-16";
    if (n <= 32) return "17-32";
    if (n <= 64) return "33-64";
    if (n <= 128) return "65-128";
    if (n <= 256) return "129-256";
    if (n <= 512) return "257-512";
    if (n <= 1024) return "513-1024";
    return "1025+";
}

static void run_case(Out& out, const std::string& kind, const std::string& payload) {
    std::string id = out.add(kind, payload);
    int ki = kind_index(kind);
    if (ki < 0) {
        out.I(id, "unknown-kind");
        return;
    }
    std::vector<Op> ops = parse_ops(ki, payload);
    for (size_t i = 0; i < ops.size(); i++) out.count(std::string("ops:") + kind + ":" + ops[i].t);
    out.count(std::string("histlen:") + bucket(ops.size()));
    bool has_r1 = false;
    for (size_t i = 0; i < ops.size(); i++) has_r1 = has_r1 || (ops[i].t == 'r' && ops[i].ku == 1);
    if (has_r1) out.count("histories-with-resize(1)");
    unsigned secs = ops.size() > 400 ? 30 : (has_r1 ? 2 : 3);
    std::string r = in_child(
        [&](FILE* o) {
            if (!freopen("/dev/null", "w", stderr)) {
            }  // assertion messages of a broken library
            switch (ki) {
                case 0: run_ops<TrMap>(ops, o); break;
                case 1: run_ops<TrSet>(ops, o); break;
                case 2: run_ops<TrTag>(ops, o); break;
                default: run_ops<TrStyle>(ops, o);
            }
        },
        secs);
    if (r == "HANG" || r == "PIPEFAIL" || r.compare(0, 6, "CRASH(") == 0) {
        bool hang = r == "HANG";
        out.I(id, hang ? "hang" : "crash");
        if (hang && has_r1)
            out.P(id, "FAIL resize:capacity-1-full-table resize(1) left a one-slot table that is full; a look-up / deletion of an absent key never returns (child " + r + ")");
        else
            out.P(id, "FAIL table-vs-stdmap child " + r);
        out.count(hang ? (has_r1 ? "outcome:hang-after-resize(1)" : "outcome:hang") : "outcome:crash");
        return;
    }
    size_t l1 = r.find('\n');
    size_t l2 = l1 == std::string::npos ? l1 : r.find('\n', l1 + 1);
    if (l2 == std::string::npos) {
        out.I(id, "crash");
        out.P(id, "FAIL table-vs-stdmap child output truncated");
        out.count("outcome:crash");
        return;
    }
    out.I(id, r.substr(0, l1));
    std::string verdict = r.substr(l1 + 1, l2 - l1 - 1);
    out.P(id, verdict);
    out.count(verdict == "ok" ? "oracle:ok" : "oracle:FAIL");
    unsigned long long mc = 0, cc = 0, wr = 0, mr = 0;
    sscanf(r.c_str() + l2 + 1, "%llu %llu %llu %llu", &mc, &cc, &wr, &mr);
    out.count(std::string("maxcount:") + bucket(mc));
    out.count("capacity-changes-observed", (long)cc);
    out.count(wr ? "wrap:end-and-start-occupied" : "wrap:none");
    out.count(std::string("final-max-cluster:") + bucket(mr));
}

// ---------------------------------------------------------------- generators
struct Gen {
    Rng& g;
    Out& out;
    int ki;
    Gen(Rng& g_, Out& o_, int k_) : g(g_), out(o_), ki(k_) {}

    // gdstk's own hash of a key given as payload text
    uint64_t hash_of(const std::string& key) {
        if (ki == 0) {
            std::string b;
            canon_bytes(key, b);
            const char* s = b.c_str();
            return hash(s);
        }
        uint64_t v = strtoull(key.c_str(), NULL, 16);
        return hash(v);
    }
    std::string rand_key() {
        if (ki == 0) {
            size_t n = g.chance(70) ? 1 + (size_t)g.below(5) : 1 + (size_t)g.below(12);
            uint8_t b[12];
            bool high = g.chance(20);
            for (size_t i = 0; i < n; i++) b[i] = (uint8_t)(high ? 1 + g.below(255) : 1 + g.below(127));
            if (high) b[g.below(n)] |= 0x80;
            return hex_bytes(b, n);
        }
        // the all-zero key (tag (0,0), value 0): untouched slots of a cleared allocation look like it
        if (g.chance(8)) return "0";
        switch (g.below(3)) {
            case 0: return hex_u64(g.below(4096));
            case 1: return hex_u64(make_tag((uint32_t)g.below(300), (uint32_t)g.below(300)));
            default: return hex_u64(g.next());
        }
    }
    std::string rand_val(const std::string& key) {
        if (ki == 0) {
            if (g.chance(5)) return "0";
            return hex_u64(g.chance(75) ? 1 + g.below(0xffff) : g.next());
        }
        if (ki == 2) {
            if (g.chance(10)) return key;
            return hex_u64(g.chance(75) ? g.below(0x10000) : g.next());
        }
        size_t n = 1 + (size_t)g.below(8);
        uint8_t b[8];
        for (size_t i = 0; i < n; i++) b[i] = (uint8_t)(1 + g.below(255));
        return hex_bytes(b, n);
    }
    // a fresh key (not in used) with hash % mod == target
    std::string key_at(uint64_t mod, uint64_t target, std::set<std::string>& used) {
        for (uint64_t tries = 0; tries < 4000 * (mod ? mod : 1); tries++) {
            std::string k = rand_key();
            if (mod > 1 && hash_of(k) % mod != target % mod) continue;
            if (!used.insert(k).second) continue;
            return k;
        }
        // give up on the residue (cannot happen in practice): any fresh key
        while (true) {
            std::string k = rand_key();
            if (used.insert(k).second) return k;
        }
    }
};

struct Pool {
    std::vector<std::string> keys;     // every key
    std::vector<std::string> cluster;  // the keys that share one home slot (mod c), creation order
};

// Adversarial key pool for a table of capacity c whose hot slot is t.
static Pool make_pool(Gen& G, uint64_t c, size_t size, uint64_t t) {
    Pool p;
    std::set<std::string> used;
    for (size_t i = 0; i < size; i++) {
        unsigned r = (unsigned)G.g.below(100);
        std::string k;
        if (r < 35) {  // same home mod c; mod 2c either the same (survives growth) or split off
            k = G.key_at(2 * c, G.g.coin() ? t : t + c, used);
            p.cluster.push_back(k);
        } else if (r < 45) {  // same home mod c, 2c and 4c
            k = G.key_at(4 * c, t, used);
            p.cluster.push_back(k);
        } else if (r < 60) {  // homes just after the hot slot: merged clusters
            k = G.key_at(c, (t + 1 + G.g.below(2)) % c, used);
        } else if (r < 70) {  // home just before the hot slot
            k = G.key_at(c, (t + c - 1) % c, used);
        } else {
            k = G.key_at(1, 0, used);
        }
        if (G.ki == 0 && k.find_first_of("89abcdef") != std::string::npos) {
            bool high = false;
            for (size_t j = 0; j < k.size(); j += 2) high = high || k[j] >= '8';
            if (high) G.out.count("keys:map:with-byte>=0x80");
        }
        p.keys.push_back(k);
    }
    G.out.count("keys:pooled", (long)p.keys.size());
    G.out.count("keys:colliding", (long)p.cluster.size());
    return p;
}

static long g_full_table_budget = 0;  // how many more resize(1) towards a full table this run may generate

// A history under construction; tracks the live key set (to pick sizes for resize()).
struct Hist {
    Gen& G;
    std::vector<std::string> toks;
    std::set<std::string> live;
    explicit Hist(Gen& g) : G(g) {}
    void set(const std::string& k) {
        if (G.ki == 1) {
            toks.push_back("s:" + k);
            live.insert(k);
            return;
        }
        std::string v = G.rand_val(k);
        toks.push_back("s:" + k + ":" + v);
        if (G.ki == 2 && v == k) {
            live.erase(k);
            G.out.count("tagmap:set-with-value==key");
        } else
            live.insert(k);
    }
    void query(const std::string& k) {
        bool get = G.ki == 3 || (G.ki != 1 && G.g.coin());
        toks.push_back((get ? "g:" : "h:") + k);
        G.out.count(live.count(k) ? "query:present" : "query:absent");
    }
    void del(const std::string& k) {
        toks.push_back("d:" + k);
        G.out.count(live.erase(k) ? "del:present" : "del:absent");
    }
    void clear() {
        toks.push_back("c");
        live.clear();
    }
    void copy() { toks.push_back("y"); }
    void iter() { toks.push_back("i"); }
    void resize(uint64_t c) {
        // capacity 1 with at most one live entry ends in a full table and (most likely) a hang that costs
        // its time limit: only a bounded number of those per run
        if (c == 1 && live.size() <= 1) {
            if (g_full_table_budget > 0) g_full_table_budget--;
            else c = 2;
        }
        toks.push_back("r:" + hex_u64(c));
        G.out.count(c == 0 ? "resize:capacity-0" : c == 1 ? (live.size() <= 1 ? "resize:capacity-1:full-table" : "resize:capacity-1:regrows")
                    : c < live.size() ? "resize:capacity<count" : c == live.size() ? "resize:capacity==count"
                    : (c < 2 * live.size() ? "resize:capacity<2*count" : "resize:roomy"));
    }
    void random_resize() {
        uint64_t n = live.size();
        static const uint64_t fixed[] = {0, 1, 3, 5, 7, 8, 9, 11, 16, 17, 31, 32, 64};
        switch (G.g.below(8)) {
            case 0: resize(n); break;
            case 1: resize(n + 1); break;
            case 2: resize(2 * n); break;
            case 3: resize(2 * n + 1); break;
            case 4: resize(n / 2); break;
            case 5: resize(4 * n + G.g.below(16)); break;
            case 6: resize(fixed[G.g.below(sizeof fixed / sizeof fixed[0])]); break;
            default: resize(2 + G.g.below(300));
        }
    }
    std::string payload() const {
        std::string s;
        for (size_t i = 0; i < toks.size(); i++) {
            if (i) s += " ";
            s += toks[i];
        }
        return s;
    }
    void run() { run_case(G.out, KIND_NAME[G.ki], payload()); }
};

// history length tied to the pool size P: enough operations to fill and churn the pool, <= 200
// (the model costs ~0.5 ms per hash, so lengths are kept no longer than the pool needs)
static size_t rand_len(Rng& g, size_t P) {
    unsigned r = (unsigned)g.below(100);
    size_t L;
    if (r < 15) L = 1 + (size_t)g.below(P);
    else if (r < 85) L = P + (size_t)g.below(P + 1);
    else L = 3 * P + (size_t)g.below(3 * P + 1);
    return L > 200 ? 200 : L;
}

static const std::string& pick(Rng& g, const std::vector<std::string>& v) { return v[g.below(v.size())]; }

static void choose_cap_target(Gen& G, uint64_t& c, uint64_t& t) {
    unsigned r = (unsigned)G.g.below(100);
    c = r < 35 ? 8 : r < 65 ? 16 : r < 85 ? 32 : r < 95 ? 64 : 128;
    r = (unsigned)G.g.below(100);
    const char* name;
    if (r < 30) {
        t = c - 1;
        name = "last-slot";
    } else if (r < 50) {
        t = c - 2;
        name = "last-but-one";
    } else if (r < 70) {
        t = 0;
        name = "slot0";
    } else {
        t = G.g.below(c);
        name = "random";
    }
    G.out.count(std::string("pool:target:") + name);
    char b[32];
    snprintf(b, sizeof b, "pool:capacity:%llu", (unsigned long long)c);
    G.out.count(b);
}

// random mix of operations over an adversarial pool
static void mix_ops(Hist& h, const Pool& p, size_t L) {
    Gen& G = h.G;
    Rng& g = G.g;
    std::set<std::string> scratch;
    for (size_t i = 0; i < L; i++) {
        std::string k = g.chance(5) ? G.rand_key() : pick(g, p.keys);
        unsigned r = (unsigned)g.below(100);
        bool early = i < L / 3;
        unsigned wset = early ? 65 : 40, wdel = early ? 10 : 24;
        if (r < wset) h.set(k);
        else if (r < wset + wdel) h.del(k);
        else if (r < 89) h.query(k);
        else if (r < 93) h.copy();
        else if (r < 97) h.iter();
        else if (r < 98) h.clear();
        else h.random_resize();
    }
}

static void gen_mix(Gen& G) {
    uint64_t c, t;
    choose_cap_target(G, c, t);
    size_t P = (size_t)(c / 4 + G.g.below(c / 2 + 1) + 2);
    Pool p = make_pool(G, c, P, t);
    Hist h(G);
    mix_ops(h, p, rand_len(G.g, P));
    if (G.g.chance(50)) h.iter();
    G.out.count("shape:mix");
    h.run();
}

// first resize(c0) to an arbitrary (often odd) capacity, pool colliding modulo that capacity
static void gen_resize_first(Gen& G) {
    static const uint64_t caps[] = {2, 3, 4, 5, 6, 7, 9, 10, 11, 12, 13, 15, 17, 19, 24, 25, 31, 33, 48};
    uint64_t c = caps[G.g.below(sizeof caps / sizeof caps[0])];
    uint64_t t = G.g.chance(60) ? c - 1 - G.g.below(2 < c ? 2 : 1) : G.g.below(c);
    size_t P = (size_t)(c / 2 + G.g.below(c + 1) + 2);
    Pool p = make_pool(G, c, P, t);
    Hist h(G);
    if (G.g.chance(30))
        for (size_t i = 0; i < 1 + G.g.below(4); i++) h.set(pick(G.g, p.keys));
    h.resize(c);
    mix_ops(h, p, rand_len(G.g, P));
    G.out.count("shape:resize-first");
    h.run();
}

// fill, then delete a cluster from its head / tail / middle, checking the survivors, re-insert
static void gen_fill_del(Gen& G) {
    Rng& g = G.g;
    uint64_t c, t;
    choose_cap_target(G, c, t);
    if (c > 64) c = 64;
    size_t P = (size_t)(c / 4 + g.below(c / 4 + 1) + 3);
    Pool p = make_pool(G, c, P, t);
    Hist h(G);
    // fill: the cluster first (so its probe order is its creation order) or everything shuffled
    std::vector<std::string> order;
    if (g.coin()) {
        order = p.cluster;
        for (size_t i = 0; i < p.keys.size(); i++)
            if (std::find(p.cluster.begin(), p.cluster.end(), p.keys[i]) == p.cluster.end()) order.push_back(p.keys[i]);
    } else {
        order = p.keys;
        for (size_t i = order.size(); i > 1; i--) std::swap(order[i - 1], order[g.below(i)]);
    }
    for (size_t i = 0; i < order.size(); i++) h.set(order[i]);
    if (g.coin()) h.iter();
    if (g.chance(15)) h.copy();
    std::vector<std::string> victims = p.cluster.empty() ? p.keys : p.cluster;
    const char* pat;
    switch (g.below(4)) {
        case 0: pat = "head-first"; break;
        case 1:
            pat = "tail-first";
            std::reverse(victims.begin(), victims.end());
            break;
        case 2: {
            pat = "middle-out";
            std::vector<std::string> v2;
            size_t m = victims.size() / 2;
            for (size_t d = 0; d <= victims.size(); d++) {
                if (m + d < victims.size()) v2.push_back(victims[m + d]);
                if (d && d <= m) v2.push_back(victims[m - d]);
            }
            victims = v2;
        } break;
        default:
            pat = "random";
            for (size_t i = victims.size(); i > 1; i--) std::swap(victims[i - 1], victims[g.below(i)]);
    }
    G.out.count(std::string("fill-del:") + pat);
    size_t ndel = g.coin() ? victims.size() : 1 + (size_t)g.below(victims.size());
    std::vector<std::string> deleted;
    for (size_t i = 0; i < ndel && h.toks.size() < 150; i++) {
        h.del(victims[i]);
        deleted.push_back(victims[i]);
        h.query(victims[i]);
        if (h.toks.size() < 160) h.query(pick(g, g.coin() ? victims : p.keys));
    }
    if (g.coin()) h.iter();
    // re-insert after delete
    for (size_t i = 0; i < deleted.size() && h.toks.size() < 185; i++)
        if (g.chance(70)) h.set(deleted[deleted.size() - 1 - i]);
    for (unsigned j = 0; j < 6 && h.toks.size() < 195; j++) h.query(pick(g, p.keys));
    if (g.chance(30)) mix_ops(h, p, 1 + (size_t)g.below(20));
    h.iter();
    G.out.count("shape:fill-del");
    h.run();
}

// growth straddling: insert exactly n distinct keys, then a handful of operations around it
static void gen_growth(Gen& G, size_t n) {
    Rng& g = G.g;
    std::set<std::string> used;
    std::vector<std::string> keys;
    Hist h(G);
    for (size_t i = 0; i < n; i++) {
        keys.push_back(G.key_at(1, 0, used));
        // tagmap: value == key would delete; rand_val does that in 10% of sets, so repeat the set
        do h.set(keys.back());
        while (!h.live.count(keys.back()));
    }
    std::string absent1 = G.key_at(1, 0, used), absent2 = G.key_at(1, 0, used);
    if (n <= 700) h.iter();
    h.query(absent1);
    if (n) {
        h.query(keys[0]);
        h.query(keys[n / 2]);
        h.query(keys[n - 1]);
        const std::string& victim = keys[g.below(n)];
        h.del(victim);
        h.query(victim);
        h.query(keys[g.below(n)]);
        do h.set(victim);
        while (!h.live.count(victim));
        h.query(victim);
    }
    h.del(absent1);
    h.set(absent1);  // one more distinct key: n+1 (possibly n, tagmap)
    h.set(absent2);
    h.query(absent1);
    h.query(absent2);
    if (n <= 130) h.copy();
    if (n <= 700) h.iter();
    G.out.count("shape:growth-n");
    G.out.count(std::string("growth-n:") + bucket(n));
    h.run();
}

// one long-lived table swept through every count 0..n and back, probing after every step
static void gen_long_sweep(Gen& G, size_t n) {
    Rng& g = G.g;
    std::set<std::string> used;
    std::vector<std::string> keys;
    Hist h(G);
    for (size_t i = 0; i < n; i++) {
        keys.push_back(G.key_at(1, 0, used));
        do h.set(keys.back());
        while (!h.live.count(keys.back()));
        h.query(keys[g.below(keys.size())]);
    }
    h.iter();
    for (size_t i = keys.size(); i > 1; i--) std::swap(keys[i - 1], keys[g.below(i)]);
    while (!keys.empty()) {
        h.del(keys.back());
        if (g.chance(30)) h.query(keys.back());
        keys.pop_back();
        if (!keys.empty()) h.query(keys[g.below(keys.size())]);
        if (keys.size() == n / 2) h.copy();
    }
    h.iter();
    G.out.count("shape:long-sweep");
    h.run();
}

// the public resize(c) around its thresholds: a few entries, resize to 0 / 1 / 2 / below the count / the
// count / just above / below INITIAL / INITIAL, then every kind of operation on the resized table
static void gen_resize_edge(Gen& G) {
    Rng& g = G.g;
    std::set<std::string> used;
    std::vector<std::string> keys;
    Hist h(G);
    size_t n = (size_t)g.below(g.chance(70) ? 6 : 14);
    for (size_t i = 0; i < n; i++) {
        keys.push_back(G.key_at(1, 0, used));
        do h.set(keys.back());
        while (!h.live.count(keys.back()));
    }
    if (n && g.chance(30)) h.del(keys[g.below(n)]);
    if (g.chance(10)) h.clear();
    size_t rounds = 1 + (size_t)g.below(3);
    for (size_t rd = 0; rd < rounds; rd++) {
        uint64_t m = h.live.size(), c;
        switch (g.below(12)) {
            case 0: c = 0; break;
            case 1: c = 1; break;
            case 2: c = 2; break;
            case 3: c = m; break;
            case 4: c = m ? m - 1 : 0; break;
            case 5: c = m + 1; break;
            case 6: c = m / 2; break;
            case 7: c = 2 * m; break;
            case 8: c = 3 + g.below(5); break;  // 3..7: below INITIAL
            case 9: c = 8; break;
            case 10: c = 2 * m + 1; break;
            default: c = g.below(40);
        }
        h.resize(c);
        std::string absent = G.key_at(1, 0, used);
        unsigned what = (unsigned)g.below(100);
        // the first operation after the resize: every kind gets its turn
        if (what < 25) h.query(absent);
        else if (what < 40) h.del(absent);
        else if (what < 60) h.set(absent);
        else if (what < 70) h.iter();
        else if (what < 80) h.copy();
        else if (what < 90 && !keys.empty()) h.query(keys[g.below(keys.size())]);
        for (size_t i = 0; i < keys.size() && i < 6; i++) h.query(keys[(i * 7 + rd) % keys.size()]);
        std::string fresh = G.key_at(1, 0, used);
        do h.set(fresh);
        while (!h.live.count(fresh));
        keys.push_back(fresh);
        h.query(absent);
        if (g.coin()) h.del(keys[g.below(keys.size())]);
        h.del(absent);
        if (g.coin()) h.iter();
        size_t extra = (size_t)g.below(12);  // grow through the next thresholds
        for (size_t i = 0; i < extra; i++) {
            std::string k = G.key_at(1, 0, used);
            h.set(k);
            keys.push_back(k);
        }
        if (g.chance(30)) h.copy();
    }
    h.iter();
    G.out.count("shape:resize-edge");
    h.run();
}

int main(int argc, char** argv) {
    if (argc < 4) {
        fprintf(stderr, "usage: c20_table seed tier outdir [corpus] [replay]\n");
        return 2;
    }
    uint64_t seed = strtoull(argv[1], NULL, 10);
    bool thorough = strcmp(argv[2], "thorough") == 0;
    set_error_logger(NULL);
    Out out;
    out.open(argv[3]);
    if (argc > 5) {
        std::string k, p;
        if (load_replay(argv[5], k, p)) run_case(out, k, p);
        out.close();
        return 0;
    }
    for (auto& c : load_corpus(argc > 4 ? argv[4] : NULL)) run_case(out, c.first, c.second);
    Rng g(seed);
    g_full_table_budget = thorough ? 24 : 4;

    // ---- deterministic families -------------------------------------------------------------
    // the empty history and single operations on a zeroed table
    for (int ki = 0; ki < 4; ki++) {
        run_case(out, KIND_NAME[ki], "");
        run_case(out, KIND_NAME[ki], ki == 1 ? "h:1 d:1 i c y i r:2 h:1" : (ki == 3 ? "g:1 d:1 i c y i r:2 g:1" : (ki == 0 ? "g:31 h:31 d:31 i c y i r:2 g:31" : "g:1 h:1 d:1 i c y i r:2 g:1 s:1:1 h:1")));
    }
    // the public resize(c) at its thresholds (replay of the witnesses of TableResizeProofs.v on the real tables):
    // capacity 1 on a one-entry table / on an empty table followed by one set(): full table, the look-up of
    // an absent key hangs; capacities 0, 2, 7 (below INITIAL: 7 slots, 4 entries, the fifth set() goes to 8
    // slots with 5 entries), the count itself and less than the count: all fine
    run_case(out, "map", "s:6b30:1 r:1 g:7a7a");
    run_case(out, "set", "r:1 s:5 h:3e7");
    run_case(out, "tagmap", "s:1:32 r:1 g:7");
    run_case(out, "stylemap", "s:1:61 r:1 d:7");
    run_case(out, "map", "s:6b30:1 s:6b31:2 r:1 g:7a7a g:6b30 g:6b31 i");  // two entries: the temporary table regrows
    run_case(out, "map", "r:7 s:61:1 s:62:2 s:63:3 s:64:4 s:65:5 g:61 g:7a i s:66:6 i");
    run_case(out, "map", "s:61:1 s:62:2 s:63:3 s:64:4 s:65:5 s:66:6 r:3 g:61 g:66 g:7a i r:6 i r:0 i g:63 d:63 r:0 i");
    for (int ki = 0; ki < 4; ki++) {
        const char* e = ki == 0 ? "g:31" : ki == 3 ? "g:1" : "h:1";
        run_case(out, KIND_NAME[ki], std::string("r:0 ") + e + " d:1 i y r:0 c r:0 " + e + " r:2 " + e + " r:0 i");
    }
    // growth straddling, short: every n in 0..40 for every kind
    for (size_t n = 0; n <= 40; n++)
        for (int ki = 0; ki < 4; ki++) {
            Gen G(g, out, ki);
            gen_growth(G, n);
        }
    // growth straddling, long: every threshold (count == capacity/2) -1, exactly, +1.
    // The model spends ~0.5 ms per hash, hence: all four kinds up to n = 129, above that one kind
    // per n (rotating with the seed).
    {
        std::vector<size_t> ns;
        size_t top = thorough ? 4096 : 512;
        for (size_t half = 32; half <= top; half *= 2) {
            ns.push_back(half - 1);
            ns.push_back(half);
            ns.push_back(half + 1);
        }
        int rot = (int)(seed % 4);
        for (size_t i = 0; i < ns.size(); i++) {
            if (ns[i] <= 129) {
                for (int ki = 0; ki < 4; ki++) {
                    Gen G(g, out, ki);
                    gen_growth(G, ns[i]);
                }
            } else {
                Gen G(g, out, (int)((i + rot) % 4));
                gen_growth(G, ns[i]);
            }
        }
        int ki = rot;
        for (size_t n = 41; n <= 600; n += (thorough ? 13 : 61), ki = (ki + 1) % 4) {
            Gen G(g, out, ki);
            gen_growth(G, n);
        }
        if (thorough) {
            Gen G(g, out, 0);
            gen_growth(G, 5000);
            for (size_t n = 601; n <= 3000; n += 331, ki = (ki + 1) % 4) {
                Gen G2(g, out, ki);
                gen_growth(G2, n);
            }
        }
    }
    // one table through every count 0..n..0, probing after every step: n = 600 (thorough 2500) for
    // one kind (rotating with the seed), n = 150 (thorough 600) for the others
    for (int ki = 0; ki < 4; ki++) {
        Gen G(g, out, ki);
        bool big = ki == (int)(seed % 4);
        gen_long_sweep(G, thorough ? (big ? 2500 : 600) : (big ? 600 : 150));
    }

    // ---- random adversarial histories -------------------------------------------------------
    // (thorough is 20x quick, not 50-100x: the model driver needs ~0.4 ms per operation)
    long N = thorough ? 50000 : 2500;
    for (long i = 0; i < N; i++) {
        unsigned r = (unsigned)g.below(100);
        int ki = r < 46 ? 0 : r < 64 ? 1 : r < 82 ? 2 : 3;
        Gen G(g, out, ki);
        r = (unsigned)g.below(100);
        if (r < 55) gen_mix(G);
        else if (r < 85) gen_fill_del(G);
        else gen_resize_first(G);
    }
    // ---- the public resize(c) around its thresholds (own stream: the histories above stay what they were)
    {
        Rng g2(seed * 0x100000001B3ULL + 12345);
        long NR = thorough ? 8000 : 400;
        for (long i = 0; i < NR; i++) {
            unsigned r = (unsigned)g2.below(100);
            int ki = r < 40 ? 0 : r < 60 ? 1 : r < 80 ? 2 : 3;
            Gen G(g2, out, ki);
            gen_resize_edge(G);
        }
    }
    out.close();
    return 0;
}
