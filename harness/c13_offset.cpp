// C13 harness: real gdstk::offset on generated groups, both signs of the distance, the three
// joins, several tolerances, with and without the union option.  Results are converted exactly to
// the integer grid and written with operands, the two radii (inner: must be covered / removed,
// outer: must not be covered / must be kept) and sample points; the extracted Coq oracle
// (ocaml/c13_offset_driver.ml) classifies each sample by exact squared distances and winding
// numbers (S line), the harness says `I ok`.
//   reach: round 1 (arc sagitta allowed inwards), miter = the tolerance argument (MiterLimit),
//   bevel sqrt(2) (gdstk's Bevel is Clipper's jtSquare); guard = two grid units.
// kind "uni": union option, the same region split differently (through gdstk::slice) must give
// the same result region.
#include <algorithm>
#include <gdstk/gdstk.hpp>
#include "clip_common.hpp"

using namespace gdstk;
static bool g_thorough = false;
static const char* JOIN_NAME[3] = {"miter", "bevel", "round"};
static const OffsetJoin JOINS[3] = {OffsetJoin::Miter, OffsetJoin::Bevel, OffsetJoin::Round};

static DGroup call_offset(const DGroup& G, double d, int join, double tol, int64_t S, bool use_union, bool& err) {
    Array<Polygon*> a = {}, r = {};
    fill_array(G, a);
    ErrorCode e = offset(a, d, JOINS[join], tol, (double)S, use_union, r);
    err = e != ErrorCode::NoError;
    DGroup R = to_dgroup(r);
    free_array(r);
    free_array(a);
    return R;
}

// radii in grid units, conservative: inner is rounded down and reduced by the guard, outer is
// rounded up and increased by the guard
static void radii(double d, int join, double tol, int64_t S, int64_t guard, int64_t& rin, int64_t& rout) {
    double D = fabs(d) * (double)S;
    double sag = 0;
    double reach = 1;
    if (join == 2) {
        // round: "up to the arc resolution".  tolerance = segments per full circle: nominal half step
        // pi / tolerance, ArcTolerance = D (1 - cos(pi / tolerance)).  Clipper rounds the number of
        // segments of each corner to the nearest integer, so one chord can span up to 1.5 nominal
        // steps: the allowance is the sagitta of such a chord (and never less than a grid unit).
        double th = std::min(1.5 * M_PI / tol, M_PI / 2);
        sag = D * (1.0 - cos(th)) + 1.0;
    } else if (join == 0) {
        reach = tol;  // MiterLimit = tolerance (the property speaks of tolerance >= 2, see the report for < 2)
    } else {
        reach = 1.4142136;  // rational upper bound of sqrt 2
    }
    rin = (int64_t)floor(D - sag) - guard;
    if (rin < 0) rin = 0;
    rout = (int64_t)ceil(D * reach) + guard + 1;
}

static bool g_rectilinear = false;  // only axis-parallel shapes (slicing them is exact)
static IPoly shape(Rng& g, int64_t span) {
    for (int tries = 0; tries < 50; tries++) {
        IPoly p;
        int64_t x = g.range(0, span), y = g.range(0, span);
        int64_t sz = std::max<int64_t>(6, g.range(span / 6 + 1, span / 2 + 6));
        static const int RECT_KINDS[3] = {0, 4, 5};
        switch (g_rectilinear ? RECT_KINDS[g.below(3)] : (int)g.below(7)) {
            case 0: p = g_rect(x, y, g.range(4, sz), g.range(4, sz)); break;
            case 1: p = g_convex(g, x, y, sz, 3 + (int)g.below(9)); break;
            case 2: p = g_star(g, x, y, std::max<int64_t>(3, sz / 3), sz, 5 + (int)g.below(10)); break;
            case 3: p = IPoly{{x, y}, {x + g.range(4, sz), y + g.range(-sz, sz)}, {x + g.range(-sz, sz), y + g.range(4, sz)}}; break;
            case 4: p = g_stairs(g, x, y, 1 + (int)g.below(4), std::max<int64_t>(3, sz / 4)); break;
            case 5: p = g_comb(g, x, y, 1 + (int)g.below(3), std::max<int64_t>(3, sz / 6), std::max<int64_t>(3, sz / 6), std::max<int64_t>(3, sz / 4), std::max<int64_t>(3, sz / 3)); break;
            default: p = g_saw(g, x, y, 1 + (int)g.below(3), 2 * std::max<int64_t>(2, sz / 6), std::max<int64_t>(3, sz / 4), std::max<int64_t>(3, sz / 4));
        }
        // the property is about features wider than the grid (DESIGN: narrowest feature exceeds the grid)
        if (p.size() >= 3 && is_simple(p) && feature_width_at_least(p, 2)) {
            random_orient(g, p);
            return p;
        }
    }
    return g_rect(0, 0, 8, 8);
}

// contours whose edges contain the boundary of the covered region when the operands carry zero-width
// slits (which are not boundary of the region): set by the keyhole scenario, empty otherwise
static DGroup g_boundary;

static DGroup gen_group(Rng& g, int64_t S, int64_t span, std::string& scen) {
    DGroup G;
    g_boundary.clear();
    switch (g.below(5)) {
        case 0:
            scen = "single";
            G.push_back(to_double(shape(g, span), (double)S));
            break;
        case 1: {
            scen = "several";
            int n = 2 + (int)g.below(2);
            for (int i = 0; i < n; i++) G.push_back(to_double(shape(g, span), (double)S));
        } break;
        case 2: {  // a polygon with a hole, as a keyhole produced by gdstk itself
            scen = "keyhole";
            int64_t w = g.range(12, span + 12);
            DGroup a{to_double(g_rect(0, 0, w, w), (double)S)};
            DGroup b{to_double(g_rect(w / 3, w / 3, std::max<int64_t>(2, w / 4), std::max<int64_t>(2, w / 3)), (double)S)};
            Array<Polygon*> pa = {}, pb = {}, r = {};
            fill_array(a, pa);
            fill_array(b, pb);
            boolean(pa, pb, Operation::Not, (double)S, r);
            G = to_dgroup(r);
            free_array(pa);
            free_array(pb);
            free_array(r);
            if (G.empty()) G = a;
            else {
                g_boundary = a;
                g_boundary.push_back(b[0]);
            }
        } break;
        case 3: {  // two rectangles with a gap (the gap closes for large d)
            scen = "gap";
            int64_t w = g.range(6, span / 2 + 6), h = g.range(6, span / 2 + 6), gap = g.range(2, 12);
            IPoly r1 = g_rect(0, 0, w, h), r2 = g_rect(w + gap, g.range(-3, 3), w, h);
            random_orient(g, r1);
            random_orient(g, r2);
            G.push_back(to_double(r1, (double)S));
            G.push_back(to_double(r2, (double)S));
        } break;
        default: {  // overlapping copies
            scen = "overlapping";
            IPoly p = shape(g, span);
            IPoly q = p;
            for (auto& v : q) {
                v.first += std::max<int64_t>(2, span / 10);
                v.second += std::max<int64_t>(1, span / 14);
            }
            G.push_back(to_double(p, (double)S));
            G.push_back(to_double(q, (double)S));
        }
    }
    return G;
}

static void outside_probes(Rng& g, const DGroup& G, const Frame& f, std::vector<FPt>& q) {
    double unit = ldexp(1.0, f.K);
    for (auto& p : G)
        for (size_t i = 0; i < p.size(); i++) {
            const Vec2 &a = p[i], &b = p[(i + 1) % p.size()];
            double ax = a.x * (double)f.S, ay = a.y * (double)f.S, bx = b.x * (double)f.S, by = b.y * (double)f.S;
            double ddx = bx - ax, ddy = by - ay, len = sqrt(ddx * ddx + ddy * ddy);
            if (len == 0) continue;
            int n = 1 + (int)std::min(6.0, len / 8);
            for (int k = 0; k < n; k++) {
                double t = ((double)k + 0.5) / n;
                for (int sgn = -1; sgn <= 1; sgn += 2) {
                    double off = sgn * (2.0 + (double)g.below(3));
                    FPt pt;
                    pt.x = (i128)floor((ax + t * ddx - ddy / len * off) * unit);
                    pt.y = (i128)floor((ay + t * ddy + ddx / len * off) * unit);
                    q.push_back(pt);
                }
            }
            for (int k = 0; k < 4; k++) {  // around the vertex
                FPt pt;
                pt.x = (i128)floor((ax + ((k & 1) ? 2.5 : -2.5)) * unit);
                pt.y = (i128)floor((ay + ((k & 2) ? 2.5 : -2.5)) * unit);
                q.push_back(pt);
            }
        }
}

static void run_off(Out& out, Rng& g, const DGroup& G, double d, int join, double tol, int64_t S, bool use_union,
                    const std::string& scen, const DGroup* boundary = NULL) {
    const DGroup& B = (boundary && !boundary->empty()) ? *boundary : G;
    bool err = false;
    {
        Frame f0;
        f0.S = S;
        frame_add(f0, G);
        guard_begin(out, "off", "S " + hex_u64((uint64_t)S) + " K " + std::to_string(f0.K) + " G " + ser_group(G, f0) + " PARAM " + hex_dbl(d) + " " +
                                    std::to_string(join) + " " + hex_dbl(tol) + " " + (use_union ? "1" : "0"), "c13-offset-crash");
    }
    DGroup R = call_offset(G, d, join, tol, S, use_union, err);
    guard_end();
    Frame f;
    f.S = S;
    frame_add(f, G);
    frame_add(f, R);
    frame_add(f, B);
    const int64_t guard = 2;
    int64_t rin, rout;
    radii(d, join, tol, S, guard, rin, rout);
    std::vector<const DGroup*> all{&G, &R};
    double D = fabs(d) * (double)S;
    std::vector<FPt> pts = gen_samples(g, all, f, f.K > 8 ? 6 : 12, f.K > 8 ? 10 : 40, f.K > 8 ? 40 : 140, D * 1.6 + 6);
    // probes around the expected offset curve: operand edges pushed out / in by about |d|
    double unit = ldexp(1.0, f.K);
    for (auto& p : G)
        for (size_t i = 0; i < p.size() && pts.size() < 900; i++) {
            const Vec2 &a = p[i], &b = p[(i + 1) % p.size()];
            double ax = a.x * (double)S, ay = a.y * (double)S, bx = b.x * (double)S, by = b.y * (double)S;
            double ddx = bx - ax, ddy = by - ay, len = sqrt(ddx * ddx + ddy * ddy);
            if (len == 0) continue;
            for (int k = 0; k < 3; k++) {
                double t = (double)g.below(1001) * 0.001;
                double off = (g.coin() ? 1 : -1) * (D + (double)g.range(-5, 5) + 0.5);
                FPt pt;
                pt.x = (i128)floor((ax + t * ddx - ddy / len * off) * unit);
                pt.y = (i128)floor((ay + t * ddy + ddx / len * off) * unit);
                pts.push_back(pt);
            }
            // round joins: a ring of probes just inside the radius that must be covered, where a polygonal arc with too few
            // chords (or a chord spanning too many steps) leaves gaps
            if (join == 2 && d > 0 && pts.size() < 860) {
                double ph = (double)g.below(6283) * 0.001, rr = std::max(0.0, (double)rin - 0.5);
                for (int k = 0; k < 16; k++) {
                    FPt pt;
                    pt.x = (i128)floor((ax + rr * cos(ph + 2 * M_PI * k / 16)) * unit);
                    pt.y = (i128)floor((ay + rr * sin(ph + 2 * M_PI * k / 16)) * unit);
                    pts.push_back(pt);
                }
            }
            // around the corner, where the joins differ
            for (int k = 0; k < 3; k++) {
                double ang = (double)g.below(6283) * 0.001, rr = D * (0.8 + 0.1 * (double)g.below(12));
                FPt pt;
                pt.x = (i128)floor((ax + rr * cos(ang)) * unit);
                pt.y = (i128)floor((ay + rr * sin(ang)) * unit);
                pts.push_back(pt);
            }
        }
    std::vector<FPt> probes;
    // d < 0 without the union option: each polygon is eroded on its own, which is the erosion of
    // the group only when the polygons do not overlap.  When they may overlap (bounding boxes meet)
    // only the "nothing shallower is kept" half is checked (mode r); see the report: Clipper's
    // negative offset of overlapping polygons removes deep points around interior corners.
    bool may_overlap = false;
    for (size_t i = 0; i < G.size(); i++)
        for (size_t j = i + 1; j < G.size(); j++) {
            double b[2][4];
            const DPoly* pp[2] = {&G[i], &G[j]};
            for (int k = 0; k < 2; k++) {
                b[k][0] = b[k][2] = 1e300;
                b[k][1] = b[k][3] = -1e300;
                for (auto& v : *pp[k]) {
                    b[k][0] = std::min(b[k][0], v.x);
                    b[k][1] = std::max(b[k][1], v.x);
                    b[k][2] = std::min(b[k][2], v.y);
                    b[k][3] = std::max(b[k][3], v.y);
                }
            }
            if (b[0][0] <= b[1][1] && b[1][0] <= b[0][1] && b[0][2] <= b[1][3] && b[1][2] <= b[0][3]) may_overlap = true;
        }
    const char* mode = d > 0 ? "g" : (use_union ? "u" : (may_overlap ? "r" : "e"));
    if (d < 0 && use_union) outside_probes(g, G, f, probes);
    std::string payload = "S " + hex_u64((uint64_t)S) + " K " + std::to_string(f.K) + " MODE " + mode + " RIN " +
                          hex_i128((i128)rin << f.K) + " ROUT " + hex_i128((i128)rout << f.K) + " G " + ser_group(G, f) + " R " +
                          ser_group(R, f) + " B " + ser_group(B, f) + " Q " + ser_points(probes) + " P " + ser_points(pts);
    // parameters, for replay (not used by the oracle)
    payload += " PARAM " + hex_dbl(d) + " " + std::to_string(join) + " " + hex_dbl(tol) + " " + (use_union ? "1" : "0");
    std::string id = out.add("off", payload);
    out.count(std::string("off:mode:") + mode);
    out.count("off:scenario:" + scen);
    out.count(std::string("off:join:") + JOIN_NAME[join]);
    out.count(d > 0 ? "off:sign:grow" : "off:sign:shrink");
    out.count(use_union ? "off:union:yes" : "off:union:no");
    out.count("off:scaling:" + std::to_string(S));
    out.count(D < 4 ? "off:size:tiny" : (D < 20 ? "off:size:small" : "off:size:large"));
    out.count("off:samples", (long)pts.size());
    out.I(id, f.ok ? "ok" : "inexact");
    if (err) out.P(id, "FAIL c13-offset-error offset() returned an error code");
}

static void run_uni(Out& out, Rng& g, const DGroup& G, double d, int join, double tol, int64_t S, const std::string& scen) {
    // the same region, split along random grid lines
    DGroup G2;
    for (auto& p : G) {
        Polygon* poly = make_polygon(p);
        bool x_axis = g.coin();
        double lo = 1e300, hi = -1e300;
        for (auto& v : p) {
            double c = x_axis ? v.x : v.y;
            lo = std::min(lo, c);
            hi = std::max(hi, c);
        }
        int nc = 1 + (int)g.below(3);
        std::vector<int64_t> cuts;
        for (int i = 0; i < nc; i++) cuts.push_back(llround(lo * (double)S) + (int64_t)g.below((uint64_t)std::max<int64_t>(1, llround((hi - lo) * (double)S))));
        std::sort(cuts.begin(), cuts.end());
        Array<double> pos = {};
        for (auto c : cuts) pos.append((double)c / (double)S);
        Array<Polygon*>* bins = (Array<Polygon*>*)allocate_clear((cuts.size() + 1) * sizeof(Array<Polygon*>));
        slice(*poly, pos, x_axis, (double)S, bins);
        for (size_t i = 0; i <= cuts.size(); i++) {
            for (uint64_t j = 0; j < bins[i].count; j++) G2.push_back(to_dpoly(bins[i][j]));
            free_array(bins[i]);
        }
        free_allocation(bins);
        pos.clear();
        poly->clear();
        free_allocation(poly);
    }
    bool e1 = false, e2 = false;
    DGroup R1 = call_offset(G, d, join, tol, S, true, e1);
    DGroup R2 = call_offset(G2, d, join, tol, S, true, e2);
    Frame f;
    f.S = S;
    frame_add(f, G);
    frame_add(f, G2);
    frame_add(f, R1);
    frame_add(f, R2);
    // slicing rounds the new vertices to the grid (boundary moves by up to a unit); a miter join
    // amplifies that by the miter limit
    // ... and a round join approximates the arc only up to its resolution: two different vertex
    // sets of the same region may place the chords differently (sagitta of 1.5 nominal steps)
    int64_t guard = join == 0 ? 3 + (int64_t)ceil(2 * tol) : 4;
    if (join == 2) guard += (int64_t)ceil(fabs(d) * (double)S * (1.0 - cos(std::min(1.5 * M_PI / tol, M_PI / 2))));
    std::vector<const DGroup*> all{&G, &R1, &R2};
    double D = fabs(d) * (double)S;
    std::vector<FPt> pts = gen_samples(g, all, f, 12, 40, 160, D * 1.6 + 6);
    std::string payload = "S " + hex_u64((uint64_t)S) + " K " + std::to_string(f.K) + " GUARD " + hex_i128((i128)guard << f.K) + " G " +
                          ser_group(G, f) + " G2 " + ser_group(G2, f) + " R1 " + ser_group(R1, f) + " R2 " + ser_group(R2, f) +
                          " P " + ser_points(pts);
    payload += " PARAM " + hex_dbl(d) + " " + std::to_string(join) + " " + hex_dbl(tol) + " 1";
    std::string id = out.add("uni", payload);
    out.count("uni:scenario:" + scen);
    out.count(std::string("uni:join:") + JOIN_NAME[join]);
    out.count(d > 0 ? "uni:sign:grow" : "uni:sign:shrink");
    out.count("uni:pieces", (long)G2.size());
    out.I(id, f.ok ? "ok" : "inexact");
    if (e1 || e2) out.P(id, "FAIL c13-offset-error offset() returned an error code");
}

static void gen_case(Out& out, Rng& g) {
    int64_t S = 1;
    int sc = (int)g.below(100);
    if (sc < 75) S = 1;
    else if (sc < 93) S = 2;
    else S = 1000;
    static const int64_t SPANS[4] = {30, 120, 1000, 20000};
    int64_t span = SPANS[g.below(S == 1000 ? 2 : 4)];
    // edges longer than 2^31.5 grid units: the squared length of an edge vector no longer fits 64-bit integers (unit normals have to
    // be formed in floating point)
    if (S == 1 && g.chance(6)) span = (int64_t)1 << 33;
    std::string scen;
    int join = (int)g.below(3);
    bool uni = g.chance(22);
    // the miter limit makes the result jump when a corner angle crosses it, and re-splitting moves
    // vertices by the rounding of the cut points: for miter joins the union-independence cases use
    // axis-parallel polygons, whose pieces are exact
    // (the same holds for the bevel = Clipper "square" join: a cut that lands a few units from a vertex of an oblique edge leaves, after
    // rounding to the grid, a short edge whose direction is off by degrees, and the square cap at distance d follows that direction - at
    // d = 2000 the two results differed by 13 units although the regions agree to the grid.  Only the round join is continuous in the region.)
    g_rectilinear = uni && join != 2;
    DGroup G = gen_group(g, S, span, scen);
    g_rectilinear = false;
    // vertex lists given explicitly closed (last vertex == first, as many tools write them): the same region
    if (g.chance(20)) {
        for (auto& p : G)
            if (p.size() >= 3 && g.coin()) p.push_back(p.front());
        scen += "+closed";
    }
    double tol;
    if (join == 2) {
        // segments per full circle; among them values for which steps-per-corner has a fractional part near one half at the
        // common corner angles (the number of chords of a corner is ROUNDED, not truncated)
        static const double T[13] = {3, 6, 8, 11, 12, 15, 16, 19, 23, 24, 32, 64, 1000};
        tol = T[g.below(13)];
    } else {
        static const double T[5] = {2, 2.5, 3, 5, 10};
        tol = T[g.below(5)];
    }
    // distance in grid units: small or large relative to the features
    double du;
    switch (g.below(4)) {
        // at least two grid units: for |d * scaling| <= 1 ClipperOffset::OffsetPoint takes every corner
        // with a turn below 90 degrees for a collinear vertex (|sinA * delta| < 1) and returns without
        // advancing k, so the next corner is joined on the wrong side -- see the report (finding, minimal
        // input: triangle (374,97) (1165,393) (1044,752), d = -1, miter, tolerance 10)
        case 0: du = (double)g.range(2, 4); break;
        case 1: du = (double)g.range(4, 20); break;
        case 2: du = (double)g.range(span / 8 + 1, span / 2 + 2); break;
        default: du = (double)g.range(2, span / 6 + 4) + 0.5;
    }
    double d = du / (double)S;
    if (g.coin()) d = -d;
    if (uni) run_uni(out, g, G, d, join, tol, S, scen);
    else run_off(out, g, G, d, join, tol, S, g.coin(), scen, &g_boundary);
}

// replay / corpus for "off": S K ... G <group> ... PARAM d join tol union
static bool parse_i128s(const char*& s, i128& v) {
    while (*s == ' ') s++;
    if (!*s) return false;
    bool neg = *s == '-';
    if (neg) s++;
    i128 r = 0;
    int n = 0;
    while ((*s >= '0' && *s <= '9') || (*s >= 'a' && *s <= 'f')) {
        r = r * 16 + (*s <= '9' ? *s - '0' : *s - 'a' + 10);
        s++;
        n++;
    }
    if (!n) return false;
    v = neg ? -r : r;
    return true;
}
static void run_case(Out& out, Rng& g, const std::string& kind, const std::string& payload) {
    if (kind != "off" && kind != "off-crash") return;
    const char* s = payload.c_str();
    i128 S;
    if (strncmp(s, "S ", 2) != 0) return;
    s += 2;
    if (!parse_i128s(s, S)) return;
    const char* k = strstr(s, " K ");
    if (!k) return;
    long K = strtol(k + 3, NULL, 10);
    const char* gp = strstr(s, " G ");
    const char* bp = strstr(s, " B ");
    const char* pp = strstr(s, " PARAM ");
    if (!gp || !pp) return;
    long double dd = (long double)S * ldexpl(1.0L, (int)K);
    auto parse_group_at = [&](const char* q, DGroup& out_group) -> bool {
        i128 n;
        if (!parse_i128s(q, n)) return false;
        for (i128 i = 0; i < n; i++) {
            i128 m;
            if (!parse_i128s(q, m)) return false;
            DPoly p;
            for (i128 j = 0; j < m; j++) {
                i128 x, y;
                if (!parse_i128s(q, x) || !parse_i128s(q, y)) return false;
                p.push_back(Vec2{(double)((long double)x / dd), (double)((long double)y / dd)});
            }
            out_group.push_back(p);
        }
        return true;
    };
    DGroup G, B;
    if (!parse_group_at(gp + 3, G)) return;
    if (bp && bp < pp && !parse_group_at(bp + 3, B)) return;
    unsigned long long db, tb;
    int join, un;
    if (sscanf(pp + 7, "%llx %d %llx %d", &db, &join, &tb, &un) != 4) return;
    run_off(out, g, G, bits_dbl(db), join, bits_dbl(tb), (int64_t)S, un != 0, "replay", &B);
}

int main(int argc, char** argv) {
    if (argc < 4) {
        fprintf(stderr, "usage: c13_offset seed tier outdir [corpus] [replay]\n");
        return 2;
    }
    uint64_t seed = strtoull(argv[1], NULL, 10);
    g_thorough = strcmp(argv[2], "thorough") == 0;
    set_error_logger(NULL);
    Out out;
    out.open(argv[3]);
    Rng g(seed);
    if (argc > 5) {
        std::string k, p;
        if (load_replay(argv[5], k, p)) run_case(out, g, k, p);
        out.close();
        return 0;
    }
    for (auto& c : load_corpus(argc > 4 ? argv[4] : NULL)) run_case(out, g, c.first, c.second);
    long N = g_thorough ? 12000 : 300;
    for (long i = 0; i < N; i++) gen_case(out, g);
    out.close();
    return 0;
}
