// C15 / unit c15_hobby: gauss_jordan_elimination and hobby_interpolation (src/utils.cpp) on the REAL code path against the
// extracted Coq model (coq/Hobby.v instantiated with Flocq binary64, coq/HobbyInst.v).
// src/utils.cpp and the gdstk headers are compiled into this translation unit with `sin`, `cos`, `atan2` renamed to recording
// wrappers (macros around the #include; /repo is not edited): every libm call hobby_interpolation makes (Vec2::angle,
// cplx_from_angle, the four sin / cos of each piece) is logged with its argument and result.  The log gives
//   - the finite libm tables shipped in the case payload (the model looks its own arguments up in them: a model that computes a
//     different argument finds no entry and answers NaN),
//   - the solved angle vectors theta / phi exactly as the library holds them (arguments of the sin / cos calls of each piece).
//   kind gj     payload: rows cols e00 e01 ... (hex doubles, row-major)
//               I: res=<hex> piv=<hex,...> x=<m[piv[r]][rows] for r < rows, if cols > rows> m=<the whole matrix afterwards>
//               P: every index of pivots below rows and pairwise distinct; for the diagonally dominant class the residual
//                  |A x - b| <= 1e-9 (|A||x| + |b|) row by row in long double
//   kind hobby  payload: count cycle initial_curl final_curl, per point x y angle constrained tension.u tension.v,
//               tables  A k (y x atan2)*  S k (x sin)*  C k (x cos)*
//               I: theta=... phi=... (solver order) ctrl=ax,ay,bx,by per piece (order of the points array)
//               P: from the call's arguments and the returned control points alone, in long double:
//                  control points finite; every piece leaves its knot in direction chord + theta and arrives in direction
//                  chord - phi, at the distances Hobby's velocity function gives; tangent direction continuous at every interior
//                  knot (every knot of a closed curve); constrained knots have exactly the requested direction; mock curvature
//                  continuous at every unconstrained interior knot; curl conditions at free ends.
#include <math.h>
#include <cmath>
#include <complex>
#include <algorithm>
#include <string>
#include <vector>
#include "common.hpp"

struct LibmCall { int fn; double a, b, r; };   // fn 0 atan2(a = y, b = x), 1 sin(a), 2 cos(a)
static std::vector<LibmCall> g_calls;
static bool g_rec = false;
static double verif_atan2(double y, double x) { double r = atan2(y, x); if (g_rec) g_calls.push_back(LibmCall{0, y, x, r}); return r; }
static double verif_sin(double x) { double r = sin(x); if (g_rec) g_calls.push_back(LibmCall{1, x, 0, r}); return r; }
static double verif_cos(double x) { double r = cos(x); if (g_rec) g_calls.push_back(LibmCall{2, x, 0, r}); return r; }
static long double ld_sin(long double x) { return sinl(x); }
static long double ld_cos(long double x) { return cosl(x); }
static long double ld_atan2(long double y, long double x) { return atan2l(y, x); }

#define sin verif_sin
#define cos verif_cos
#define atan2 verif_atan2
#include <gdstk/gdstk.hpp>
#include "utils.cpp"  // listed in include_cpp of checks/c15_hobby.py
#undef sin
#undef cos
#undef atan2

using namespace gdstk;

static std::string dbl_text(double d) { return d != d ? std::string("nan") : hex_dbl(d); }

// ------------------------------------------------------------------------------------------------ gj
struct GjCase { uint64_t rows, cols; std::vector<double> m; int cls; };

static std::string gj_payload(const GjCase& c) {
    std::string s = hex_u64(c.rows) + " " + hex_u64(c.cols);
    for (double d : c.m) s += " " + hex_dbl(d);
    return s;
}

static void run_gj(Out& out, const GjCase& c) {
    std::string payload = gj_payload(c);
    std::vector<double> m = c.m;
    std::vector<uint64_t> piv(c.rows + 1, 0xDEADBEEF);
    guard_begin(out, "gj", payload, "gj:crash", 20);
    uint64_t res = gauss_jordan_elimination(m.data(), piv.data(), c.rows, c.cols);
    guard_end();
    std::string id = out.add("gj", payload);
    std::string s = "res=" + hex_u64(res) + " piv=";
    bool piv_ok = true;
    std::vector<char> seen(c.rows, 0);
    for (uint64_t i = 0; i < c.rows; i++) {
        s += (i ? "," : "") + hex_u64(piv[i]);
        if (piv[i] >= c.rows || seen[piv[i]]) piv_ok = false; else seen[piv[i]] = 1;
    }
    s += " x=";
    if (c.cols > c.rows && piv_ok)
        for (uint64_t r = 0; r < c.rows; r++) s += (r ? "," : "") + dbl_text(m[piv[r] * c.cols + c.rows]);
    s += " m=";
    for (size_t i = 0; i < m.size(); i++) s += (i ? "," : "") + dbl_text(m[i]);
    out.I(id, s);
    out.count("gj-class-" + std::to_string(c.cls));
    out.count(res ? "gj-singular" : "gj-regular");
    bool swapped = false;
    for (uint64_t i = 0; i < c.rows; i++) if (piv_ok && piv[i] != i) swapped = true;
    if (swapped) out.count("gj-row-swaps");
    if (!piv_ok) { out.P(id, "FAIL gj:pivots-not-a-permutation the pivot vector is not a permutation of 0..rows-1"); return; }
    if (c.cls == 6 && c.cols == c.rows + 1) {
        if (res != 0) { out.P(id, "FAIL gj:dominant-reported-singular a strictly diagonally dominant matrix was reported singular"); return; }
        for (uint64_t r = 0; r < c.rows; r++) {
            long double acc = 0, mag = 0;
            for (uint64_t k = 0; k < c.rows; k++) {
                long double t = (long double)c.m[r * c.cols + k] * (long double)m[piv[k] * c.cols + c.rows];
                acc += t; mag += fabsl(t);
            }
            long double b = c.m[r * c.cols + c.rows];
            if (!(fabsl(acc - b) <= 1e-9L * (mag + fabsl(b)))) {
                out.P(id, "FAIL gj:residual row " + std::to_string(r) + " of A x - b exceeds 1e-9 (|A||x| + |b|)");
                return;
            }
        }
        out.count("gj-residual-checked");
    }
    out.P(id, "ok");
}

static double dy4(Rng& g, int lim) { return (double)g.range(-lim, lim) / 4; }
static double pow2(Rng& g, int lo, int hi) { return ldexp(g.coin() ? 1.0 : -1.0, (int)g.range(lo, hi)); }
static double any_double(Rng& g) {
    int k = (int)g.below(20);
    if (k == 0) return 0.0;
    if (k == 1) return -0.0;
    if (k == 2) return ldexp((double)g.range(-1000, 1000), (int)g.range(-300, 300));
    if (k == 3) return bits_dbl(g.next() & 0x800FFFFFFFFFFFFFULL);  // subnormal
    double mant = (double)(int64_t)(g.next() >> 11) / 9007199254740992.0 + 0.5;
    return (g.coin() ? mant : -mant) * ldexp(1.0, (int)g.range(-8, 8));
}

static double mod_double(Rng& g) {  // moderate magnitudes: no overflow / underflow in an elimination of 12 rows
    if (g.chance(10)) return 0.0;
    double mant = (double)(int64_t)(g.next() >> 11) / 9007199254740992.0 + 0.5;
    return (g.coin() ? mant : -mant) * ldexp(1.0, (int)g.range(-8, 8));
}

static GjCase gen_gj(Rng& g, bool thorough) {
    GjCase c;
    c.rows = 1 + g.below(12);
    int ck = (int)g.below(10);
    c.cols = c.rows + (ck < 7 ? 1 : ck == 7 ? 0 : ck == 8 ? 2 : 3);
    uint64_t n = c.rows, w = c.cols;
    c.m.assign(n * w, 0.0);
    c.cls = (int)g.below(9);
    auto A = [&](uint64_t r, uint64_t k) -> double& { return c.m[r * w + k]; };
    std::vector<uint64_t> perm(n);
    for (uint64_t i = 0; i < n; i++) perm[i] = i;
    for (uint64_t i = n; i > 1; i--) std::swap(perm[i - 1], perm[g.below(i)]);
    switch (c.cls) {
        case 0:  // small dyadic entries, many zeros (zero pivots force row swaps)
            for (auto& e : c.m) e = g.chance(35) ? 0.0 : dy4(g, 16);
            break;
        case 1: {  // singular: dependent rows / zero column / zero row
            for (auto& e : c.m) e = g.chance(20) ? 0.0 : dy4(g, 12);
            int how = (int)g.below(4);
            uint64_t a = g.below(n), b = g.below(n);
            if (how == 0 && n > 1 && a != b) for (uint64_t k = 0; k < n; k++) A(a, k) = 2 * A(b, k);
            else if (how == 1) for (uint64_t r = 0; r < n; r++) A(r, a) = 0;
            else if (how == 2) for (uint64_t k = 0; k < n; k++) A(a, k) = 0;
            else if (n > 2) { uint64_t d = g.below(n); for (uint64_t k = 0; k < w; k++) A(a, k) = A(b, k) + A(d, k); }
        } break;
        case 2: {  // nearly singular: a dependent row plus a perturbation of 2^-40 .. 2^-52
            for (auto& e : c.m) e = dy4(g, 12);
            if (n > 1) {
                uint64_t a = g.below(n), b = (a + 1 + g.below(n - 1)) % n;
                for (uint64_t k = 0; k < n; k++) A(a, k) = A(b, k);
                A(a, g.below(n)) += ldexp(1.0, -(int)g.range(40, 52));
            }
        } break;
        case 3:  // upper triangular, power-of-two diagonal, rows permuted: every operation exact
            for (uint64_t r = 0; r < n; r++)
                for (uint64_t k = 0; k < w; k++)
                    A(perm[r], k) = k < r ? 0.0 : k == r ? pow2(g, -3, 3) : (g.chance(30) ? 0.0 : dy4(g, 16));
            break;
        case 4:  // permutation matrices scaled by powers of two (+ right-hand side)
            for (uint64_t r = 0; r < n; r++) {
                A(r, perm[r]) = pow2(g, -4, 4);
                for (uint64_t k = n; k < w; k++) A(r, k) = dy4(g, 40);
            }
            break;
        case 5:  // lower triangular with a dominant power-of-two diagonal
            for (uint64_t r = 0; r < n; r++)
                for (uint64_t k = 0; k < w; k++)
                    A(perm[r], k) = k < r ? dy4(g, 7) : k == r ? pow2(g, 1, 3) : k < n ? 0.0 : dy4(g, 16);
            break;
        case 6:  // strictly diagonally dominant, arbitrary doubles: well conditioned (residual oracle)
            for (uint64_t r = 0; r < n; r++) {
                double sum = 0;
                for (uint64_t k = 0; k < w; k++) { A(r, k) = mod_double(g); if (k < n && k != r) sum += fabs(A(r, k)); }
                A(r, r) = (g.coin() ? 1 : -1) * (2 * sum + 1 + fabs(mod_double(g)));
            }
            break;
        case 7:  // arbitrary doubles, sometimes huge / tiny / infinite / NaN entries
            for (auto& e : c.m) e = any_double(g);
            if (g.chance(30)) c.m[g.below(c.m.size())] = g.coin() ? INFINITY : -INFINITY;
            if (g.chance(20)) c.m[g.below(c.m.size())] = NAN;
            if (g.chance(30)) c.m[g.below(c.m.size())] = ldexp(1.0, (int)g.range(900, 1023));
            if (g.chance(30)) c.m[g.below(c.m.size())] = ldexp(1.0, -(int)g.range(900, 1070));
            break;
        default:  // tridiagonal-like systems with ties in the pivot column
            for (uint64_t r = 0; r < n; r++) {
                for (uint64_t k = 0; k < n; k++) if (k + 1 >= r && k <= r + 1) A(r, k) = g.chance(50) ? 1.0 : (g.chance(50) ? -1.0 : dy4(g, 8));
                for (uint64_t k = n; k < w; k++) A(r, k) = dy4(g, 20);
            }
            break;
    }
    (void)thorough;
    return c;
}

// ------------------------------------------------------------------------------------------------ hobby
struct HCase {
    uint64_t count; bool cycle; double ic, fc;
    std::vector<Vec2> p; std::vector<double> ang; std::vector<char> con; std::vector<Vec2> tens;
    std::string cls;
};

static bool parse_hex_dbl(const std::string& s, double& d) {
    if (s.size() != 16) return false;
    d = bits_dbl(strtoull(s.c_str(), NULL, 16));
    return true;
}

static std::string hobby_head(const HCase& c) {
    std::string s = hex_u64(c.count) + " " + (c.cycle ? "1" : "0") + " " + hex_dbl(c.ic) + " " + hex_dbl(c.fc);
    for (uint64_t i = 0; i < c.count; i++)
        s += " " + hex_dbl(c.p[i].x) + " " + hex_dbl(c.p[i].y) + " " + hex_dbl(c.ang[i]) + " " + (c.con[i] ? "1" : "0") + " " +
             hex_dbl(c.tens[i].u) + " " + hex_dbl(c.tens[i].v);
    return s;
}

static long double wrap_pi(long double a) {
    const long double pi = acosl(-1.0L);
    a = fmodl(a, 2 * pi);
    if (a > pi) a -= 2 * pi;
    if (a <= -pi) a += 2 * pi;
    return a;
}

// Hobby's velocity function, from the paper (independent of the library's constants)
static long double hobby_rho(long double theta, long double phi) {
    const long double a = sqrtl(2.0L), b = 1.0L / 16, c = (3 - sqrtl(5.0L)) / 2;
    long double st = ld_sin(theta), ct = ld_cos(theta), sp = ld_sin(phi), cp = ld_cos(phi);
    long double alpha = a * (st - b * sp) * (sp - b * st) * (ct - cp);
    return (2 + alpha) / (1 + (1 - c) * ct + c * cp);
}
// mock curvature (linearised curvature, up to the common factor -2) at the start of a piece with offsets theta (leaving) and
// phi (arriving), tensions t_out (at its start) and t_in (at its end), chord length d; the value at the END of the piece,
// same orientation, is mock(phi, theta, t_in, t_out, d) (reverse and mirror the piece)
static long double mock(long double theta, long double phi, long double t_out, long double t_in, long double d) {
    return t_out * t_out / d * ((3 - 1 / t_in) * theta - phi / t_in);
}

static void run_hobby(Out& out, const HCase& c, bool expect_degenerate) {
    const uint64_t n = c.count;
    // four canary vectors behind the 3 * count + 1 entries a caller provides (Curve::interpolation allocates exactly that many)
    const double canary = bits_dbl(0x7ff8c0ffee15900dULL);
    std::vector<Vec2> pts(3 * n + 1 + 4, Vec2{canary, canary});
    for (uint64_t i = 0; i < n; i++) pts[3 * i] = c.p[i];
    std::vector<double> ang(c.ang);
    bool* bc = (bool*)calloc(n + 1, sizeof(bool));
    for (uint64_t i = 0; i < n; i++) bc[i] = c.con[i] != 0;
    std::vector<Vec2> tens(c.tens);
    std::string head = hobby_head(c);
    g_calls.clear();
    guard_begin(out, "hobby", head + " A 0 S 0 C 0", "hobby:crash", 20);
    g_rec = true;
    hobby_interpolation(n, pts.data(), ang.data(), bc, tens.data(), c.ic, c.fc, c.cycle);
    g_rec = false;
    guard_end();
    free(bc);
    // tables
    std::string ta, ts, tc;
    size_t na = 0, ns = 0, nc = 0;
    std::vector<double> sin_args, cos_args;
    for (auto& k : g_calls) {
        if (k.fn == 0) { ta += " " + hex_dbl(k.a) + " " + hex_dbl(k.b) + " " + hex_dbl(k.r); na++; }
        else if (k.fn == 1) { ts += " " + hex_dbl(k.a) + " " + hex_dbl(k.r); ns++; sin_args.push_back(k.a); }
        else { tc += " " + hex_dbl(k.a) + " " + hex_dbl(k.r); nc++; cos_args.push_back(k.a); }
    }
    std::string payload = head + " A " + hex_u64(na) + ta + " S " + hex_u64(ns) + ts + " C " + hex_u64(nc) + tc;
    std::string id = out.add("hobby", payload);
    const uint64_t pieces = c.cycle ? n : n - 1;
    out.count("hobby-" + c.cls);
    out.count(c.cycle ? "hobby-closed" : "hobby-open");
    bool anyc = false;
    for (uint64_t i = 0; i < n; i++) if (c.con[i]) anyc = true;
    out.count(anyc ? "hobby-constrained" : "hobby-unconstrained");
    // the library's call pattern: cos, sin of w_0; per piece sin theta, cos theta, sin phi, cos phi, then cos, sin of w_next
    if (ns != 1 + 3 * pieces || nc != ns) {
        out.I(id, "hook-failure sin=" + std::to_string(ns) + " cos=" + std::to_string(nc));
        out.P(id, "FAIL hobby:call-pattern the libm calls of hobby_interpolation are not the expected sequence");
        return;
    }
    std::vector<double> theta(pieces), phi(pieces);
    bool pattern = true;
    for (uint64_t i = 0; i < pieces; i++) {
        theta[i] = sin_args[1 + 3 * i];
        phi[i] = sin_args[2 + 3 * i];
        if (dbl_bits(cos_args[1 + 3 * i]) != dbl_bits(theta[i]) || dbl_bits(cos_args[2 + 3 * i]) != dbl_bits(phi[i])) pattern = false;
    }
    std::string s = "theta=";
    for (uint64_t i = 0; i < pieces; i++) s += (i ? "," : "") + dbl_text(theta[i]);
    s += " phi=";
    for (uint64_t i = 0; i < pieces; i++) s += (i ? "," : "") + dbl_text(phi[i]);
    s += " ctrl=";
    for (uint64_t i = 0; i < pieces; i++)
        s += (i ? "," : "") + dbl_text(pts[3 * i + 1].x) + "," + dbl_text(pts[3 * i + 1].y) + "," + dbl_text(pts[3 * i + 2].x) + "," +
             dbl_text(pts[3 * i + 2].y);
    out.I(id, s);
    bool intact = true;
    for (uint64_t i = 3 * n + 1; i < 3 * n + 5; i++)
        if (dbl_bits(pts[i].x) != dbl_bits(canary) || dbl_bits(pts[i].y) != dbl_bits(canary)) intact = false;
    for (uint64_t i = 0; i < n; i++)
        if (dbl_bits(pts[3 * i].x) != dbl_bits(c.p[i].x) || dbl_bits(pts[3 * i].y) != dbl_bits(c.p[i].y)) intact = false;
    if (!c.cycle && (dbl_bits(pts[3 * n - 2].x) != dbl_bits(canary) || dbl_bits(pts[3 * n - 1].x) != dbl_bits(canary))) intact = false;
    if (!intact) { out.P(id, "FAIL hobby:stray-write hobby_interpolation wrote outside the control-point slots or changed a knot"); return; }
    if (!pattern) { out.P(id, "FAIL hobby:call-pattern sin and cos of a piece were taken of different arguments"); return; }

    // ---- property-level oracle, long double, from the arguments and the returned control points
    const long double pi = acosl(-1.0L);
    uint64_t rotate = 0;
    if (c.cycle) { while (rotate < n && !c.con[rotate]) rotate++; if (rotate == n) rotate = 0; }
    // piece q of the points array = piece (q - rotate) mod n of the solver
    auto sol = [&](uint64_t q) { return c.cycle ? (q + n - rotate) % n : q; };
    bool degenerate = false;
    long double scale = 0;
    for (uint64_t q = 0; q < pieces; q++) {
        Vec2 d = c.p[(q + 1) % n] - c.p[q];
        long double len = hypotl((long double)d.x, (long double)d.y);
        if (len == 0) degenerate = true;
        if (len > scale) scale = len;
    }
    for (uint64_t i = 0; i < n; i++) if (!(c.tens[i].u > 0) || !(c.tens[i].v > 0)) degenerate = true;
    if (degenerate) {
        out.count("hobby-degenerate");
        bool finite = true;
        for (uint64_t q = 0; q < pieces; q++)
            for (int k = 1; k <= 2; k++) if (!std::isfinite(pts[3 * q + k].x) || !std::isfinite(pts[3 * q + k].y)) finite = false;
        if (!finite && expect_degenerate) { out.P(id, "FAIL hobby:coincident-knots-nan coincident consecutive points give NaN control points"); return; }
        out.P(id, "ok");
        return;
    }
    const long double tol = 1e-7L;
    std::string fail;
    std::vector<long double> dir_out(pieces), dir_in(pieces), chord(pieces), len(pieces);
    for (uint64_t q = 0; q < pieces && fail.empty(); q++) {
        const Vec2 a = c.p[q], b = c.p[(q + 1) % n], ca = pts[3 * q + 1], cb = pts[3 * q + 2];
        if (!std::isfinite(ca.x) || !std::isfinite(ca.y) || !std::isfinite(cb.x) || !std::isfinite(cb.y)) {
            // Hobby's velocity (2 +- alpha) / (1 + (1 - C) cos theta + C cos phi) has no bound in gdstk (METAFONT clamps it):
            // theta = phi = +-pi (a piece that must leave AND arrive against its chord) divides by zero
            const long double th = fabsl((long double)theta[sol(q)]), ph = fabsl((long double)phi[sol(q)]);
            if (fabsl(th - pi) < 1e-6L && fabsl(ph - pi) < 1e-6L)
                fail = "hobby_interpolation:reversal-infinite-velocity piece " + std::to_string(q) + ": offsets theta = phi = +-pi, control points infinite";
            else
                fail = "hobby:non-finite piece " + std::to_string(q) + " has a non-finite control point";
            break;
        }
        long double dx = (long double)b.x - a.x, dy = (long double)b.y - a.y;
        len[q] = hypotl(dx, dy);
        chord[q] = ld_atan2(dy, dx);
        const long double th = theta[sol(q)], ph = phi[sol(q)];
        const long double ra = hobby_rho(th, ph) / (3 * (long double)c.tens[q].v);
        const long double rb = hobby_rho(ph, th) / (3 * (long double)c.tens[(q + 1) % n].u);
        // expected control points from theta / phi by the paper's formula
        long double eax = a.x + len[q] * ra * ld_cos(chord[q] + th), eay = a.y + len[q] * ra * ld_sin(chord[q] + th);
        long double ebx = b.x - len[q] * rb * ld_cos(chord[q] - ph), eby = b.y - len[q] * rb * ld_sin(chord[q] - ph);
        long double big = len[q] * (1 + fabsl(ra) + fabsl(rb)) + fabsl((long double)a.x) + fabsl((long double)a.y) + fabsl((long double)b.x) + fabsl((long double)b.y);
        if (fabsl(eax - ca.x) > tol * big || fabsl(eay - ca.y) > tol * big || fabsl(ebx - cb.x) > tol * big || fabsl(eby - cb.y) > tol * big)
            fail = "hobby:control-point piece " + std::to_string(q) + ": control points are not at chord +- offset angle and Hobby's velocity";
        dir_out[q] = chord[q] + th;
        dir_in[q] = chord[q] - ph;
        if (!(ra > 0) || !(rb > 0)) out.count("hobby-nonpositive-velocity");
    }
    // knots: direction continuity, constraints, mock curvature
    for (uint64_t k = 0; k < n && fail.empty(); k++) {
        const bool has_in = c.cycle || k > 0, has_out = c.cycle || k + 1 < n;
        const uint64_t qi = (k + n - 1) % n, qo = k;   // arriving / leaving piece
        if (has_in && has_out && fabsl(wrap_pi(dir_out[qo] - dir_in[qi])) > tol)
            fail = "hobby:direction-jump knot " + std::to_string(k) + ": the tangent direction is not continuous";
        if (c.con[k]) {
            if (has_out && fabsl(wrap_pi(dir_out[qo] - (long double)c.ang[k])) > tol)
                fail = "hobby:constraint knot " + std::to_string(k) + ": the curve does not leave in the requested direction";
            if (has_in && fabsl(wrap_pi(dir_in[qi] - (long double)c.ang[k])) > tol)
                fail = "hobby:constraint knot " + std::to_string(k) + ": the curve does not arrive in the requested direction";
        } else if (has_in && has_out) {
            const long double k_in = mock(phi[sol(qi)], theta[sol(qi)], c.tens[k].u, c.tens[qi].v, len[qi]);
            const long double k_out = mock(theta[sol(qo)], phi[sol(qo)], c.tens[k].v, c.tens[(k + 1) % n].u, len[qo]);
            const long double mag = (fabsl(theta[sol(qi)]) + fabsl(phi[sol(qi)])) * 4 * c.tens[k].u * c.tens[k].u / len[qi] * (1 + 1 / c.tens[qi].v) +
                                    (fabsl(theta[sol(qo)]) + fabsl(phi[sol(qo)])) * 4 * c.tens[k].v * c.tens[k].v / len[qo] * (1 + 1 / c.tens[(k + 1) % n].u);
            if (fabsl(k_in - k_out) > 1e-6L * mag + 1e-12L / scale)
                fail = "hobby:mock-curvature knot " + std::to_string(k) + ": the mock curvature is not continuous";
        } else if (!c.cycle) {
            // free end: curvature at the end knot = curl * curvature at the neighbouring knot of the same piece
            if (k == 0) {
                const long double k0 = mock(theta[0], phi[0], c.tens[0].v, c.tens[1].u, len[0]);
                const long double k1 = mock(phi[0], theta[0], c.tens[1].u, c.tens[0].v, len[0]);
                const long double mag = (fabsl((long double)theta[0]) + fabsl((long double)phi[0])) * 4 * (c.tens[0].v * c.tens[0].v * (1 + 1 / c.tens[1].u) + fabsl((long double)c.ic) * c.tens[1].u * c.tens[1].u * (1 + 1 / c.tens[0].v)) / len[0];
                if (fabsl(k0 - (long double)c.ic * k1) > 1e-6L * mag + 1e-12L / scale)
                    fail = "hobby:curl the initial curl condition does not hold";
            } else {
                const uint64_t q = n - 2;
                const long double kn = mock(phi[q], theta[q], c.tens[n - 1].u, c.tens[n - 2].v, len[q]);
                const long double kp = mock(theta[q], phi[q], c.tens[n - 2].v, c.tens[n - 1].u, len[q]);
                const long double mag = (fabsl((long double)theta[q]) + fabsl((long double)phi[q])) * 4 * (c.tens[n - 1].u * c.tens[n - 1].u * (1 + 1 / c.tens[n - 2].v) + fabsl((long double)c.fc) * c.tens[n - 2].v * c.tens[n - 2].v * (1 + 1 / c.tens[n - 1].u)) / len[q];
                if (fabsl(kn - (long double)c.fc * kp) > 1e-6L * mag + 1e-12L / scale)
                    fail = "hobby:curl the final curl condition does not hold";
            }
        }
    }
    if (!fail.empty()) out.P(id, "FAIL " + fail); else out.P(id, "ok");
}

static double grid(Rng& g, int lim, int den) { return (double)g.range(-lim * den, lim * den) / den; }

static HCase gen_hobby(Rng& g) {
    HCase c;
    c.count = g.chance(8) ? 2 : 3 + g.below(10);
    c.cycle = g.chance(35);
    const uint64_t n = c.count;
    int k = (int)g.below(10);
    c.cls = k < 4 ? "random" : k == 4 ? "collinear" : k == 5 ? "equal-steps" : k == 6 ? "collinear-run" : k == 7 ? "reversal" : k == 8 ? "near-collinear" : "scaled";
    c.p.resize(n);
    for (int attempt = 0; attempt < 50; attempt++) {
        Vec2 cur = {grid(g, 50, 8), grid(g, 50, 8)};
        Vec2 step = {grid(g, 10, 8), grid(g, 10, 8)};
        if (step.x == 0 && step.y == 0) step.x = 1;
        for (uint64_t i = 0; i < n; i++) {
            if (c.cls == "random") c.p[i] = Vec2{grid(g, 50, 8), grid(g, 50, 8)};
            else if (c.cls == "collinear") { c.p[i] = cur; cur = cur + step * (double)g.range(1, 4); }
            else if (c.cls == "equal-steps") { c.p[i] = cur; cur = cur + step; if (g.chance(25)) step = Vec2{-step.y, step.x}; }
            else if (c.cls == "collinear-run") { c.p[i] = cur; cur = cur + step * (double)g.range(1, 3); if (g.chance(30)) step = Vec2{grid(g, 10, 8), grid(g, 10, 8)}; if (step.x == 0 && step.y == 0) step.y = 1; }
            else if (c.cls == "reversal") { c.p[i] = cur; cur = cur + step * (double)g.range(1, 3); if (g.chance(40)) step = step * -1.0; }
            else if (c.cls == "near-collinear") { c.p[i] = cur + Vec2{0, ldexp((double)g.range(-3, 3), -(int)g.range(10, 40))}; cur = cur + step * (double)g.range(1, 4); }
            else c.p[i] = Vec2{grid(g, 50, 8), grid(g, 50, 8)};
        }
        if (c.cls == "scaled") { double f = ldexp(1.0, (int)g.range(-30, 30)); if (g.chance(30)) f *= 1.1; for (auto& q : c.p) q = q * f; }
        bool bad = false;
        for (uint64_t i = 0; i < n; i++) {
            uint64_t j = (i + 1) % n;
            if ((j != 0 || c.cycle) && c.p[i].x == c.p[j].x && c.p[i].y == c.p[j].y) bad = true;
        }
        if (!bad) break;
        c.cls = "random";
    }
    c.ang.assign(n, 0.0);
    c.con.assign(n, 0);
    int ak = (int)g.below(20);
    for (uint64_t i = 0; i < n; i++) {
        int a = (int)g.below(4);
        c.ang[i] = a == 0 ? (double)g.range(-4, 4) * (M_PI / 4) : a == 1 ? grid(g, 3, 1000) : a == 2 ? grid(g, 10, 100) : (c.p[(i + 1) % n] - c.p[i]).angle();
        if (ak < 10) c.con[i] = 0;
        else if (ak < 17) c.con[i] = g.chance(35);
        else if (ak < 19) c.con[i] = 1;
        else c.con[i] = (i == 0 || i == n - 1);
    }
    c.tens.assign(n, Vec2{1, 1});
    if (g.chance(40)) for (auto& t : c.tens) t = Vec2{g.chance(50) ? 1.0 : 0.75 + (double)g.below(226) / 100, g.chance(50) ? 1.0 : 0.75 + (double)g.below(226) / 100};
    c.ic = g.chance(60) ? 1.0 : (double)g.below(301) / 100;
    c.fc = g.chance(60) ? 1.0 : (double)g.below(301) / 100;
    return c;
}

// degenerate inputs a caller can pass: coincident consecutive points (kind hobby, class "coincident"); only generated when
// VERIF_KINDS contains "hobbydeg" (the finding they show is reported, not part of the default campaign)
static HCase gen_hobby_deg(Rng& g) {
    HCase c = gen_hobby(g);
    c.cls = "coincident";
    uint64_t i = g.chance(30) ? 0 : g.below(c.count - 1);
    c.p[i + 1] = c.p[i];
    if (g.chance(40) && i + 2 < c.count) c.p[i + 2] = c.p[i];   // a triple point: two zero-length chords in a row
    return c;
}

static bool parse_hobby(const std::string& payload, HCase& c) {
    std::vector<std::string> w;
    size_t p = 0;
    while (p < payload.size()) {
        size_t e = payload.find(' ', p);
        if (e == std::string::npos) e = payload.size();
        if (e > p) w.push_back(payload.substr(p, e - p));
        p = e + 1;
    }
    if (w.size() < 4) return false;
    c.count = strtoull(w[0].c_str(), NULL, 16);
    c.cycle = w[1] != "0";
    if (!parse_hex_dbl(w[2], c.ic) || !parse_hex_dbl(w[3], c.fc)) return false;
    if (c.count < 2 || c.count > 64 || w.size() < 4 + 6 * c.count) return false;
    c.p.resize(c.count); c.ang.resize(c.count); c.con.resize(c.count); c.tens.resize(c.count);
    for (uint64_t i = 0; i < c.count; i++) {
        const size_t b = 4 + 6 * i;
        if (!parse_hex_dbl(w[b], c.p[i].x) || !parse_hex_dbl(w[b + 1], c.p[i].y) || !parse_hex_dbl(w[b + 2], c.ang[i]) ||
            !parse_hex_dbl(w[b + 4], c.tens[i].u) || !parse_hex_dbl(w[b + 5], c.tens[i].v)) return false;
        c.con[i] = w[b + 3] != "0";
    }
    c.cls = "replay";
    return true;
}

static bool parse_gj(const std::string& payload, GjCase& c) {
    std::vector<std::string> w;
    size_t p = 0;
    while (p < payload.size()) {
        size_t e = payload.find(' ', p);
        if (e == std::string::npos) e = payload.size();
        if (e > p) w.push_back(payload.substr(p, e - p));
        p = e + 1;
    }
    if (w.size() < 2) return false;
    c.rows = strtoull(w[0].c_str(), NULL, 16);
    c.cols = strtoull(w[1].c_str(), NULL, 16);
    if (c.rows > 64 || c.cols > 70 || c.cols < c.rows || w.size() != 2 + c.rows * c.cols) return false;
    c.m.resize(c.rows * c.cols);
    for (size_t i = 0; i < c.m.size(); i++) if (!parse_hex_dbl(w[2 + i], c.m[i])) return false;
    c.cls = 99;
    return true;
}

int main(int argc, char** argv) {
    if (argc < 5) {
        fprintf(stderr, "usage: %s seed tier outdir corpusdir [replayfile]\n", argv[0]);
        return 2;
    }
    const uint64_t seed = strtoull(argv[1], NULL, 10);
    const bool thorough = std::string(argv[2]) == "thorough";
    Out out;
    out.open(argv[3]);
    set_error_logger(NULL);
    const char* kinds_env = getenv("VERIF_KINDS");
    const std::string kinds = kinds_env ? kinds_env : "";
    auto want = [&](const char* k) { return kinds.empty() || kinds.find(k) != std::string::npos; };

    auto run_one = [&](const std::string& kind, const std::string& payload) {
        if (kind == "gj") { GjCase c; if (parse_gj(payload, c)) run_gj(out, c); }
        else if (kind == "hobby") { HCase c; if (parse_hobby(payload, c)) run_hobby(out, c, true); }
    };
    if (argc > 5) {
        std::string kind, payload;
        if (load_replay(argv[5], kind, payload)) run_one(kind, payload);
        out.close();
        return 0;
    }
    for (auto& kp : load_corpus(argv[4])) run_one(kp.first, kp.second);

    Rng g(seed * 0x100000001B3ULL + 12345);
    const long n_gj = thorough ? 20000 : 700;
    const long n_hobby = thorough ? 12000 : 500;
    if (want("gj")) for (long i = 0; i < n_gj; i++) run_gj(out, gen_gj(g, thorough));
    if (want("hobby")) for (long i = 0; i < n_hobby; i++) run_hobby(out, gen_hobby(g), false);
    if (kinds.find("hobbydeg") != std::string::npos) for (long i = 0; i < 200; i++) run_hobby(out, gen_hobby_deg(g), true);
    out.close();
    return 0;
}
