// C12 harness: real Polygon::fracture, gdstk::slice and Library::write_gds(max_points) + read_gds on
// generated polygons.  Every call runs in a child with an alarm (non-termination = HANG outcome).
// The pieces are converted exactly to the integer grid and written with the original and sample
// points; the extracted Coq oracle (ocaml/c12_fracture_driver.ml) decides cover / disjointness /
// interval membership / vertex limit (S line), the harness says `I ok`.  P lines: what the harness
// can decide alone (metadata copied, limit < 5 leaves the polygon alone, hang, crash).
#include <algorithm>
#include <gdstk/gdstk.hpp>
#include "clip_common.hpp"

using namespace gdstk;
static bool g_thorough = false;
static int g_hangs = 0;  // after a few hangs the alarm gets short: a systematic hang must not take an hour

// ---------------------------------------------------------------- child <-> parent text protocol
static void put_group(FILE* o, const Array<Polygon*>& a) {
    fprintf(o, "%llu", (unsigned long long)a.count);
    for (uint64_t i = 0; i < a.count; i++) {
        fprintf(o, " %llu", (unsigned long long)a[i]->point_array.count);
        for (uint64_t j = 0; j < a[i]->point_array.count; j++)
            fprintf(o, " %s %s", hex_dbl(a[i]->point_array[j].x).c_str(), hex_dbl(a[i]->point_array[j].y).c_str());
    }
}
struct Reader {
    std::vector<std::string> t;
    size_t i = 0;
    explicit Reader(const std::string& s) {
        size_t p = 0;
        while (p < s.size()) {
            while (p < s.size() && (s[p] == ' ' || s[p] == '\n')) p++;
            size_t e = p;
            while (e < s.size() && s[e] != ' ' && s[e] != '\n') e++;
            if (e > p) t.push_back(s.substr(p, e - p));
            p = e;
        }
    }
    bool more() const { return i < t.size(); }
    std::string next() { return i < t.size() ? t[i++] : std::string(); }
    uint64_t num() { return strtoull(next().c_str(), NULL, 10); }
    double dbl() { return bits_dbl(strtoull(next().c_str(), NULL, 16)); }
    DGroup group() {
        DGroup g;
        uint64_t n = num();
        for (uint64_t k = 0; k < n && more(); k++) {
            DPoly p;
            uint64_t m = num();
            for (uint64_t j = 0; j < m && more(); j++) {
                double x = dbl(), y = dbl();
                p.push_back(Vec2{x, y});
            }
            g.push_back(p);
        }
        return g;
    }
};

static bool props_equal(const Property* a, const Property* b) {
    for (; a && b; a = a->next, b = b->next) {
        if (strcmp(a->name, b->name) != 0) return false;
        const PropertyValue *va = a->value, *vb = b->value;
        for (; va && vb; va = va->next, vb = vb->next) {
            if (va->type != vb->type) return false;
            switch (va->type) {
                case PropertyType::UnsignedInteger:
                    if (va->unsigned_integer != vb->unsigned_integer) return false;
                    break;
                case PropertyType::Integer:
                    if (va->integer != vb->integer) return false;
                    break;
                case PropertyType::Real:
                    if (va->real != vb->real) return false;
                    break;
                case PropertyType::String:
                    if (va->count != vb->count || memcmp(va->bytes, vb->bytes, va->count) != 0) return false;
                    break;
            }
        }
        if (va || vb) return false;
    }
    return !a && !b;
}
static bool reps_equal(const Repetition& a, const Repetition& b) {
    if (a.type != b.type) return false;
    switch (a.type) {
        case RepetitionType::None: return true;
        case RepetitionType::Rectangular:
            return a.columns == b.columns && a.rows == b.rows && a.spacing.x == b.spacing.x && a.spacing.y == b.spacing.y;
        case RepetitionType::Regular:
            return a.columns == b.columns && a.rows == b.rows && a.v1.x == b.v1.x && a.v1.y == b.v1.y && a.v2.x == b.v2.x &&
                   a.v2.y == b.v2.y;
        case RepetitionType::Explicit:
            if (a.offsets.count != b.offsets.count) return false;
            for (uint64_t i = 0; i < a.offsets.count; i++)
                if (a.offsets[i].x != b.offsets[i].x || a.offsets[i].y != b.offsets[i].y) return false;
            return true;
        default:
            if (a.coords.count != b.coords.count) return false;
            for (uint64_t i = 0; i < a.coords.count; i++)
                if (a.coords[i] != b.coords[i]) return false;
            return true;
    }
}

static void decorate(Rng& g, Polygon* p) {
    p->tag = make_tag((uint32_t)g.below(256), (uint32_t)g.below(256));
    switch (g.below(4)) {
        case 0: break;
        case 1:
            p->repetition.type = RepetitionType::Rectangular;
            p->repetition.columns = 1 + g.below(4);
            p->repetition.rows = 1 + g.below(4);
            p->repetition.spacing = Vec2{(double)g.range(1, 100), (double)g.range(1, 100)};
            break;
        case 2:
            p->repetition.type = RepetitionType::Explicit;
            for (int i = 0; i < 3; i++) p->repetition.offsets.append(Vec2{(double)g.range(-50, 50), (double)g.range(-50, 50)});
            break;
        default:
            p->repetition.type = RepetitionType::ExplicitX;
            for (int i = 0; i < 2; i++) p->repetition.coords.append((double)g.range(1, 90));
    }
    if (g.coin()) set_gds_property(p->properties, (uint16_t)g.below(100), "verif");
    if (g.coin()) set_property(p->properties, "name", (int64_t)g.range(-1000, 1000), true);
    if (g.chance(30)) set_property(p->properties, "real", 0.5 + (double)g.below(10), true);
}

static std::string ser_ipoly_frame(const IPoly& p, const Frame& f) {
    std::string s = hex_u64(p.size());
    for (auto& v : p) {
        s += ' ';
        s += hex_i128((i128)v.first << f.K);
        s += ' ';
        s += hex_i128((i128)v.second << f.K);
    }
    return s;
}

// ---------------------------------------------------------------- fracture
static void run_frac(Out& out, Rng& g, const DPoly& P, uint64_t max_points, int64_t S, const std::string& shape) {
    double precision = 1.0 / (double)S;
    uint64_t seed2 = g.next();
    std::string res = in_child(
        [&](FILE* o) {
            Rng g2(seed2);
            Polygon* poly = make_polygon(P);
            decorate(g2, poly);
            Array<Polygon*> result = {};
            poly->fracture(max_points, precision, result);
            const char* meta = "ok";
            for (uint64_t i = 0; i < result.count; i++) {
                if (result[i]->tag != poly->tag) meta = "tag";
                else if (!reps_equal(result[i]->repetition, poly->repetition)) meta = "repetition";
                else if (!props_equal(result[i]->properties, poly->properties)) meta = "properties";
                else if (poly->properties && result[i]->properties == poly->properties) meta = "properties-shared-not-copied";
            }
            fprintf(o, "meta %s ", meta);
            put_group(o, result);
        },
        g_hangs >= 3 ? 5 : (g_thorough ? 60 : 30));
    if (res == "HANG") g_hangs++;
    Frame f;
    f.S = S;
    frame_add(f, P);
    DGroup pieces;
    std::string meta = "none";
    bool finished = res.compare(0, 5, "meta ") == 0;
    if (finished) {
        Reader r(res);
        r.next();
        meta = r.next();
        pieces = r.group();
        frame_add(f, pieces);
    }
    DGroup orig{P};
    std::vector<const DGroup*> all{&orig, &pieces};
    size_t nv = P.size();
    int lat = f.K > 8 ? 5 : (nv > 800 ? 8 : 10);
    std::vector<FPt> pts = gen_samples(g, all, f, lat, f.K > 8 ? 10 : 40, f.K > 8 ? 30 : (nv > 800 ? 60 : 100), 3.0);
    std::string payload = "S " + hex_u64((uint64_t)S) + " K " + std::to_string(f.K) + " L " + hex_u64(max_points) + " O " + ser_poly(P, f) +
                          " R " + ser_group(pieces, f) + " P " + ser_points(pts);
    std::string id = out.add("frac", payload);
    out.count("frac:shape:" + shape);
    out.count(std::string("frac:limit:") + (max_points < 5 ? "below5" : max_points <= 10 ? "5-10" : max_points <= 50 ? "11-50" : "51-200"));
    out.count("frac:scaling:" + std::to_string(S));
    out.count(std::string("frac:vertices:") + (nv <= 20 ? "<=20" : nv <= 200 ? "21-200" : nv <= 1000 ? "201-1000" : ">1000"));
    out.count("frac:pieces", (long)pieces.size());
    if (!finished) {
        out.I(id, res.substr(0, 40));  // HANG / CRASH(n)
        out.P(id, res == "HANG" ? "FAIL c12-fracture-hang fracture did not return within the step budget"
                                : "FAIL c12-fracture-crash fracture crashed: " + res.substr(0, 40));
        return;
    }
    out.I(id, f.ok ? "ok" : "inexact");
    if (meta != "ok") out.P(id, "FAIL c12-metadata piece does not carry the original's " + meta);
    else if (max_points < 5 && !pieces.empty()) out.P(id, "FAIL c12-small-limit a limit below five produced pieces");
    else {
        size_t worst = 0;
        for (auto& p : pieces) worst = std::max(worst, p.size());
        if (max_points >= 5 && worst > max_points) out.P(id, "FAIL c12-vertex-limit a piece has " + std::to_string(worst) + " vertices, limit " + std::to_string(max_points));
        else out.P(id, "ok");
    }
}

// ---------------------------------------------------------------- slice
static void run_slice(Out& out, Rng& g, const DPoly& P, const std::vector<double>& positions, bool x_axis, int64_t S,
                      const std::string& shape) {
    std::string res = in_child(
        [&](FILE* o) {
            Polygon* poly = make_polygon(P);
            Array<double> pos = {};
            for (double d : positions) pos.append(d);
            size_t nb = positions.size() + 1;
            Array<Polygon*>* bins = (Array<Polygon*>*)allocate_clear(nb * sizeof(Array<Polygon*>));
            ErrorCode e = slice(*poly, pos, x_axis, (double)S, bins);
            fprintf(o, "done %d", (int)e);
            for (size_t i = 0; i < nb; i++) {
                fprintf(o, " ");
                put_group(o, bins[i]);
            }
        },
        60);
    Frame f;
    f.S = S;
    frame_add(f, P);
    DPoly posp;
    for (double d : positions) posp.push_back(Vec2{d, 0});
    frame_add(f, posp);
    bool finished = res.compare(0, 5, "done ") == 0;
    std::vector<DGroup> bins;
    int err = 0;
    if (finished) {
        Reader r(res);
        r.next();
        err = (int)r.num();
        for (size_t i = 0; i <= positions.size(); i++) {
            bins.push_back(r.group());
            frame_add(f, bins.back());
        }
    }
    DGroup orig{P};
    std::vector<const DGroup*> all{&orig};
    for (auto& b : bins) all.push_back(&b);
    std::vector<FPt> pts = gen_samples(g, all, f, f.K > 8 ? 5 : 10, f.K > 8 ? 10 : 40, f.K > 8 ? 30 : 100, 3.0);
    // samples right next to the cut lines, inside the bounding box
    double lo = 1e300, hi = -1e300;
    for (auto& v : P) {
        double c = x_axis ? v.y : v.x;
        lo = std::min(lo, c);
        hi = std::max(hi, c);
    }
    for (double d : positions)
        for (int k = 0; k < 6; k++) {
            double off = (double)g.range(-4, 4) + 0.5;
            double other = lo + (hi - lo) * (double)g.below(1000) * 0.001;
            FPt p;
            double a = (d * (double)S + off) * ldexp(1.0, f.K), b = other * (double)S * ldexp(1.0, f.K);
            p.x = (i128)floor(x_axis ? a : b);
            p.y = (i128)floor(x_axis ? b : a);
            pts.push_back(p);
        }
    std::string payload = "S " + hex_u64((uint64_t)S) + " K " + std::to_string(f.K) + " AX " + (x_axis ? "x" : "y") + " O " + ser_poly(P, f) +
                          " C " + hex_u64(positions.size());
    for (double d : positions) payload += " " + hex_i128(to_frame(d, f));
    payload += " B " + hex_u64(bins.size());
    for (auto& b : bins) payload += " " + ser_group(b, f);
    payload += " P " + ser_points(pts);
    std::string id = out.add("slice", payload);
    out.count("slice:shape:" + shape);
    out.count("slice:cuts:" + std::to_string(std::min<size_t>(positions.size(), 6)));
    if (!finished) {
        out.I(id, res.substr(0, 40));
        out.P(id, "FAIL c12-slice-crash slice did not return: " + res.substr(0, 40));
        return;
    }
    out.I(id, f.ok ? "ok" : "inexact");
    if (err != 0) out.P(id, "FAIL c12-slice-error slice returned an error code");
}

// ---------------------------------------------------------------- GDSII writer with a vertex limit
static void run_gds(Out& out, Rng& g, const std::vector<IPoly>& polys, uint64_t max_points, bool dyadic, const std::string& dir,
                    const std::string& shape) {
    // dyadic: unit 1, precision 2^-10 (database grid 1/1024, exact in a GDSII real);
    // else the usual unit 1e-6, precision 1e-9 (database grid 1/1000 of a user unit)
    double unit = dyadic ? 1.0 : 1e-6, precision = dyadic ? 1.0 / 1024 : 1e-9;
    int64_t S = dyadic ? 1024 : 1000;
    DGroup orig;
    for (auto& p : polys) orig.push_back(to_double(p, (double)S));
    std::string fn = dir + "/c12_tmp.gds";
    std::string res = in_child(
        [&](FILE* o) {
            Library lib = {};
            lib.init("LIB", unit, precision);
            Cell* cell = (Cell*)allocate_clear(sizeof(Cell));
            cell->name = copy_string("TOP", NULL);
            lib.cell_array.append(cell);
            for (auto& p : orig) {
                Polygon* poly = make_polygon(p);
                poly->tag = make_tag(3, 7);
                cell->polygon_array.append(poly);
            }
            ErrorCode e = lib.write_gds(fn.c_str(), max_points, NULL);
            ErrorCode e2 = ErrorCode::NoError;
            Library back = read_gds(fn.c_str(), 0, 1e-12, NULL, &e2);
            fprintf(o, "done %d %d ", (int)e, (int)e2);
            if (back.cell_array.count == 1) {
                Array<Polygon*>& pa = back.cell_array[0]->polygon_array;
                bool tags = true;
                for (uint64_t i = 0; i < pa.count; i++)
                    if (pa[i]->tag != make_tag(3, 7)) tags = false;
                fprintf(o, "%s ", tags ? "tags-ok" : "tags-bad");
                put_group(o, pa);
            } else {
                fprintf(o, "nocell 0");
            }
        },
        60);
    bool finished = res.compare(0, 5, "done ") == 0;
    std::vector<IPoly> pieces;
    bool integral = true, tags = true;
    int e1 = 0, e2 = 0;
    if (finished) {
        Reader r(res);
        r.next();
        e1 = (int)r.num();
        e2 = (int)r.num();
        tags = r.next() == "tags-ok";
        DGroup back = r.group();
        for (auto& p : back) {
            IPoly ip;
            for (auto& v : p) {
                double sx = v.x * (double)S, sy = v.y * (double)S;
                int64_t ix = llround(sx), iy = llround(sy);
                if (fabs(sx - (double)ix) > 1e-6 || fabs(sy - (double)iy) > 1e-6) integral = false;
                ip.push_back({ix, iy});
            }
            // read_gds drops the closing point; nothing else to normalise
            pieces.push_back(ip);
        }
    }
    Frame f;
    f.S = S;
    frame_add(f, orig);
    DGroup pd;
    for (auto& p : pieces) pd.push_back(to_double(p, (double)S));
    std::vector<const DGroup*> all{&orig, &pd};
    std::vector<FPt> pts = gen_samples(g, all, f, 10, 40, 100, 3.0);
    std::string payload = "S " + hex_u64((uint64_t)S) + " K " + std::to_string(f.K) + " L " + hex_u64(max_points) + " O " + ser_group(orig, f) +
                          " R " + hex_u64(pieces.size());
    for (auto& p : pieces) payload += " " + ser_ipoly_frame(p, f);
    payload += " P " + ser_points(pts);
    std::string id = out.add("gds", payload);
    out.count("gds:shape:" + shape);
    out.count(dyadic ? "gds:grid:dyadic" : "gds:grid:decimal");
    if (!finished) {
        out.I(id, res.substr(0, 40));
        out.P(id, "FAIL c12-gds-crash write_gds/read_gds did not return: " + res.substr(0, 40));
        return;
    }
    out.I(id, "ok");
    if (e1 || e2) out.P(id, "FAIL c12-gds-error write_gds or read_gds returned an error code");
    else if (!integral) out.P(id, "FAIL c12-gds-offgrid a vertex read back is not on the database grid");
    else if (!tags) out.P(id, "FAIL c12-gds-tag a written piece lost the layer/datatype");
    else {
        size_t worst = 0;
        for (auto& p : pieces) worst = std::max(worst, p.size());
        bool any_big = false;
        for (auto& p : polys)
            if (p.size() > max_points) any_big = true;
        if (max_points > 4 && any_big && worst > max_points)
            out.P(id, "FAIL c12-gds-vertex-limit a written polygon has " + std::to_string(worst) + " vertices, limit " + std::to_string(max_points));
        else out.P(id, "ok");
    }
}

// ---------------------------------------------------------------- GDSII writer: outlines of non-simple paths (second and
// third block of Cell::to_gds).  A FlexPath / RobustPath with an arc at a fine tolerance has an outline of several hundred
// vertices; the file must hold pieces within the limit that cover that outline (snapped to the database grid).
static int g_force_mode = 0;  // 1..3: vertex limit one below / equal to / one above the outline's vertex count
static void run_gds_path(Out& out, Rng& g, uint64_t max_points, bool robust, const std::string& dir) {
    const double unit = 1.0, precision = 1.0 / 1024;  // dyadic grid, exact in a GDSII real
    const int64_t S = 1024;
    double width = 0.5 * (double)g.range(2, 12), radius = width * (double)g.range(2, 6), a1 = 0.25 * (double)g.range(2, 10);
    double len = (double)g.range(4, 30);
    bool second_arc = g.coin();
    // fine tolerance: outline of several hundred vertices (fractured); coarse: a few dozen, often below the limit (written whole)
    double ptol = g.coin() ? 1e-4 : 0.05;
    // the limit at the boundary: exactly one below / equal to / one above the outline's own vertex count (decided in the child, once
    // the outline is known, and reported back)
    int limit_mode = g_force_mode ? g_force_mode : (g.chance(35) ? 1 + (int)g.below(3) : 0);
    std::string fn = dir + "/c12_tmp.gds";
    std::string res = in_child(
        [&](FILE* o) {
            Library lib = {};
            lib.init("LIB", unit, precision);
            Cell* cell = (Cell*)allocate_clear(sizeof(Cell));
            cell->name = copy_string("TOP", NULL);
            lib.cell_array.append(cell);
            Array<Polygon*> outline = {};
            if (!robust) {
                FlexPath* fp = (FlexPath*)allocate_clear(sizeof(FlexPath));
                fp->init(Vec2{0, 0}, 1, width, 0, ptol, make_tag(3, 7));
                fp->segment(Vec2{len, 0}, NULL, NULL, true);
                fp->arc(radius, radius, -M_PI / 2, -M_PI / 2 + a1, 0, NULL, NULL);
                if (second_arc) fp->arc(2 * radius, 2 * radius, M_PI / 2 + a1, M_PI / 2 + a1 - 0.7, 0, NULL, NULL);
                fp->to_polygons(false, 0, outline);
                cell->flexpath_array.append(fp);
            } else {
                RobustPath* rp = (RobustPath*)allocate_clear(sizeof(RobustPath));
                rp->num_elements = 1;
                rp->elements = (RobustPathElement*)allocate_clear(sizeof(RobustPathElement));
                rp->init(Vec2{0, 0}, width, 0, ptol, 1000, make_tag(3, 7));
                rp->segment(Vec2{len, 0}, NULL, NULL, true);
                rp->arc(radius, radius, -M_PI / 2, -M_PI / 2 + a1, 0, NULL, NULL);
                if (second_arc) rp->arc(2 * radius, 2 * radius, M_PI / 2 + a1, M_PI / 2 + a1 - 0.7, 0, NULL, NULL);
                rp->to_polygons(false, 0, outline);
                cell->robustpath_array.append(rp);
            }
            uint64_t eff = max_points;
            if (limit_mode && outline.count > 0 && outline[0]->point_array.count > 8) eff = outline[0]->point_array.count - 2 + (uint64_t)limit_mode;
            ErrorCode e = lib.write_gds(fn.c_str(), eff, NULL);
            ErrorCode e2 = ErrorCode::NoError;
            Library back = read_gds(fn.c_str(), 0, 1e-12, NULL, &e2);
            fprintf(o, "done %d %d %llu ", (int)e, (int)e2, (unsigned long long)eff);
            if (back.cell_array.count == 1) {
                Array<Polygon*>& pa = back.cell_array[0]->polygon_array;
                bool tags = true;
                for (uint64_t i = 0; i < pa.count; i++)
                    if (pa[i]->tag != make_tag(3, 7)) tags = false;
                fprintf(o, "%s ", tags ? "tags-ok" : "tags-bad");
                put_group(o, outline);
                fprintf(o, " ");
                put_group(o, pa);
            } else {
                fprintf(o, "nocell 0 0");
            }
        },
        60);
    bool finished = res.compare(0, 5, "done ") == 0;
    std::vector<IPoly> pieces;
    DGroup orig;
    bool integral = true, tags = true;
    int e1 = 0, e2 = 0;
    size_t outline_vertices = 0;
    if (finished) {
        Reader r(res);
        r.next();
        e1 = (int)r.num();
        e2 = (int)r.num();
        max_points = (uint64_t)r.num();
        tags = r.next() == "tags-ok";
        DGroup outl = r.group();
        for (auto& p : outl) {  // snap the outline to the database grid, as the writer does
            DPoly q;
            for (auto& v : p) q.push_back(Vec2{(double)llround(v.x * (double)S) / (double)S, (double)llround(v.y * (double)S) / (double)S});
            outline_vertices = std::max(outline_vertices, q.size());
            orig.push_back(q);
        }
        DGroup back = r.group();
        for (auto& p : back) {
            IPoly ip;
            for (auto& v : p) {
                double sx = v.x * (double)S, sy = v.y * (double)S;
                int64_t ix = llround(sx), iy = llround(sy);
                if (fabs(sx - (double)ix) > 1e-6 || fabs(sy - (double)iy) > 1e-6) integral = false;
                ip.push_back({ix, iy});
            }
            pieces.push_back(ip);
        }
    }
    Frame f;
    f.S = S;
    frame_add(f, orig);
    DGroup pd;
    for (auto& p : pieces) pd.push_back(to_double(p, (double)S));
    std::vector<const DGroup*> all{&orig, &pd};
    std::vector<FPt> pts = gen_samples(g, all, f, 10, 40, 100, 3.0);
    std::string payload = "S " + hex_u64((uint64_t)S) + " K " + std::to_string(f.K) + " L " + hex_u64(max_points) + " O " + ser_group(orig, f) +
                          " R " + hex_u64(pieces.size());
    for (auto& p : pieces) payload += " " + ser_ipoly_frame(p, f);
    payload += " P " + ser_points(pts);
    std::string id = out.add("gds", payload);
    out.count(robust ? "gds:shape:robustpath-outline" : "gds:shape:flexpath-outline");
    out.count("gds:grid:dyadic");
    if (!finished) {
        out.I(id, res.substr(0, 40));
        out.P(id, "FAIL c12-gds-crash write_gds/read_gds did not return: " + res.substr(0, 40));
        return;
    }
    out.I(id, "ok");
    if (e1 || e2) out.P(id, "FAIL c12-gds-error write_gds or read_gds returned an error code");
    else if (!integral) out.P(id, "FAIL c12-gds-offgrid a vertex read back is not on the database grid");
    else if (!tags) out.P(id, "FAIL c12-gds-tag a written piece lost the layer/datatype");
    else {
        size_t worst = 0;
        for (auto& p : pieces) worst = std::max(worst, p.size());
        if (max_points > 4 && outline_vertices > max_points && worst > max_points)
            out.P(id, "FAIL c12-gds-vertex-limit a written piece of a path outline has " + std::to_string(worst) + " vertices, limit " + std::to_string(max_points));
        else out.P(id, "ok");
    }
}

// ---------------------------------------------------------------- shapes
static IPoly big_shape(Rng& g, int target, std::string& name) {
    for (int tries = 0; tries < 30; tries++) {
        IPoly p;
        switch (g.below(9)) {
            case 0: name = "convex"; p = g_convex(g, 0, 0, std::max<int64_t>(8, target * (int64_t)g.range(2, 200)), target); break;
            case 1: {
                name = "star";
                int64_t r = std::max<int64_t>(30, target * (int64_t)g.range(4, 200));
                p = g_star(g, 0, 0, r / 2, r, target);
            } break;
            case 2: {
                name = "spiral";
                int64_t hw = g.range(1, 3), pitch = 2 * hw + g.range(1, 4);
                int nseg = std::max(3, target / 2 - 1);
                p = g_spiral(0, 0, pitch * (nseg / 2 + 4), pitch, hw, nseg);
            } break;
            case 3: name = "comb"; p = g_comb(g, 0, 0, std::max(1, target / 4), g.range(1, 5), g.range(1, 5), g.range(1, 30), g.range(1, 60)); break;
            case 4: name = "saw"; p = g_saw(g, 0, 0, std::max(1, target / 2), 2 * g.range(1, 6), g.range(1, 20), g.range(1, 20)); break;
            case 5: name = "stairs"; p = g_stairs(g, 0, 0, std::max(1, target / 2), g.range(1, 6)); break;
            case 6: {
                name = "collinear-repeated";
                IPoly b = g.coin() ? g_rect(0, 0, 40 * target, 30 * target) : g_convex(g, 0, 0, 64 * target, 5 + (int)g.below(6));
                if (!is_simple(b)) b = g_rect(0, 0, 40 * target, 30 * target);
                p = b;
                while ((int)p.size() < target) {
                    IPoly q = add_collinear(g, p, 60, 10);
                    if (q.size() == p.size()) break;
                    p = q;
                }
                return p;  // repeated vertices: not strictly simple by construction, still one region
            }
            case 7: {
                name = "sliver";
                int64_t L = (int64_t)target * g.range(10, 1000);
                int half = std::max(2, target / 2);
                for (int i = 0; i < half; i++) p.push_back({L * i / (half - 1), (int64_t)(i % 2)});
                for (int i = half - 1; i >= 0; i--) p.push_back({L * i / (half - 1), 3 + (int64_t)(i % 3)});
                dedupe(p);
            } break;
            default: {
                name = "comb-tall";
                IPoly c = g_comb(g, 0, 0, std::max(1, target / 4), 1, 1, 3, 4000);
                p = c;
            }
        }
        if (p.size() >= 3 && (p.size() > 2500 || is_simple(p))) return p;
    }
    name = "rect";
    return g_rect(0, 0, 100, 60);
}

static void gen_case(Out& out, Rng& g, const std::string& dir) {
    static const int64_t SC[6] = {1, 2, 4, 10, 100, 1000};
    int64_t S = SC[g.below(6)];
    int which = (int)g.below(10);
    int target;
    int r = (int)g.below(100);
    if (r < 60) target = (int)g.range(6, 60);
    else if (r < 88) target = (int)g.range(60, 400);
    else if (r < 97) target = (int)g.range(400, g_thorough ? 2000 : 1200);
    else target = g_thorough ? (int)g.range(2000, 5000) : (int)g.range(1200, 2000);
    if (S == 1000) target = std::min(target, 60);  // decimal frame: big integers in the oracle
    std::string shape;
    IPoly ip = big_shape(g, target, shape);
    random_orient(g, ip);
    int sub = (S != 1000 && g.chance(15)) ? (g.coin() ? 1 : -1) : 0;
    DPoly P = to_double(ip, (double)S, sub);
    if (sub) shape += "+offgrid";
    if (which < 6) {
        uint64_t limit;
        int lr = (int)g.below(100);
        if (lr < 10) limit = g.below(5);
        else if (lr < 40) limit = 5 + g.below(6);
        else if (lr < 80) limit = 11 + g.below(40);
        else limit = 51 + g.below(150);
        if (ip.size() > 600 && limit >= 5 && limit < 8 && !g_thorough) limit = 8 + g.below(40);
        run_frac(out, g, P, limit, S, shape);
    } else if (which < 8) {
        bool x_axis = g.coin();
        int64_t lo = INT64_MAX, hi = INT64_MIN;
        for (auto& v : ip) {
            int64_t c = x_axis ? v.first : v.second;
            lo = std::min(lo, c);
            hi = std::max(hi, c);
        }
        int nc = (int)g.below(7);
        std::vector<int64_t> cuts;
        for (int i = 0; i < nc; i++) {
            int64_t c;
            switch (g.below(6)) {
                case 0: c = lo - g.range(0, 5); break;                        // on / below the box
                case 1: c = hi + g.range(0, 5); break;                        // on / above the box
                case 2: c = x_axis ? ip[g.below(ip.size())].first : ip[g.below(ip.size())].second; break;  // through a vertex
                default: c = g.range(lo, hi);
            }
            cuts.push_back(c);
        }
        if (g.chance(20) && !cuts.empty()) cuts.push_back(cuts[0]);  // repeated cut
        std::sort(cuts.begin(), cuts.end());
        std::vector<double> pos;
        int csub = (S != 1000 && g.chance(20)) ? 1 : 0;  // cut positions between grid lines
        for (auto c : cuts) pos.push_back(((double)c + 0.25 * csub) / (double)S);
        run_slice(out, g, P, pos, x_axis, S, shape);
    } else {
        std::vector<IPoly> polys{ip};
        if (g.coin()) {
            int64_t mx = 0, my = 0;  // a second, small polygon well apart from the first
            for (auto& v : ip) {
                mx = std::min(mx, v.first);
                my = std::min(my, v.second);
            }
            IPoly small = g_rect(mx - 100, my - 100, 20, 10);
            polys.push_back(small);
        }
        uint64_t limit = g.chance(15) ? g.below(5) : (g.chance(20) ? 5 + g.below(3) : 5 + g.below(196));  // the boundary values 4, 5, 6 often
        if (g.coin() && ip.size() > 12) limit = std::max<uint64_t>(5, ip.size() - 1 - g.below(ip.size() / 2));  // just above the limit
        if (g.chance(30)) run_gds_path(out, g, limit < 5 ? limit : 5 + g.below(196), g.coin(), dir);
        else run_gds(out, g, polys, limit, g.coin(), dir, shape);
    }
}

// replay / corpus: "frac" cases are rebuilt from S, K, L and O; others are regenerated from the seed
static bool parse_i128s(const char*& s, i128& v) {
    while (*s == ' ') s++;
    if (!*s) return false;
    bool neg = *s == '-';
    if (neg) s++;
    i128 r = 0;
    int n = 0;
    while ((*s >= '0' && *s <= '9') || (*s >= 'a' && *s <= 'f')) {
        r = r * 16 + (*s <= '9' ? *s - '0' : *s - 'a' + 10);
        s++;
        n++;
    }
    if (!n) return false;
    v = neg ? -r : r;
    return true;
}
static void run_case(Out& out, Rng& g, const std::string& kind, const std::string& payload) {
    if (kind != "frac" && kind != "slice") return;
    const char* s = payload.c_str();
    i128 S, L = 0, n;
    if (strncmp(s, "S ", 2) != 0) return;
    s += 2;
    if (!parse_i128s(s, S)) return;
    while (*s == ' ') s++;
    if (*s != 'K') return;
    s++;
    long K = strtol(s, (char**)&s, 10);
    while (*s == ' ') s++;
    bool x_axis = true;
    if (kind == "frac") {
        if (*s != 'L') return;
        s++;
        if (!parse_i128s(s, L)) return;
    } else {
        if (strncmp(s, "AX ", 3) != 0) return;
        x_axis = s[3] == 'x';
        s += 4;
    }
    while (*s == ' ') s++;
    if (*s != 'O') return;
    s++;
    if (!parse_i128s(s, n)) return;
    DPoly P;
    long double d = (long double)S * ldexpl(1.0L, (int)K);
    for (i128 i = 0; i < n; i++) {
        i128 x, y;
        if (!parse_i128s(s, x) || !parse_i128s(s, y)) return;
        P.push_back(Vec2{(double)((long double)x / d), (double)((long double)y / d)});
    }
    if (kind == "frac") {
        run_frac(out, g, P, (uint64_t)L, (int64_t)S, "replay");
    } else {
        while (*s == ' ') s++;
        if (*s != 'C') return;
        s++;
        i128 nc;
        if (!parse_i128s(s, nc)) return;
        std::vector<double> pos;
        for (i128 i = 0; i < nc; i++) {
            i128 c;
            if (!parse_i128s(s, c)) return;
            pos.push_back((double)((long double)c / d));
        }
        run_slice(out, g, P, pos, x_axis, (int64_t)S, "replay");
    }
}

int main(int argc, char** argv) {
    if (argc < 4) {
        fprintf(stderr, "usage: c12_fracture seed tier outdir [corpus] [replay]\n");
        return 2;
    }
    uint64_t seed = strtoull(argv[1], NULL, 10);
    g_thorough = strcmp(argv[2], "thorough") == 0;
    set_error_logger(NULL);
    Out out;
    out.open(argv[3]);
    Rng g(seed);
    if (argc > 5) {
        std::string k, p;
        if (load_replay(argv[5], k, p)) run_case(out, g, k, p);
        out.close();
        return 0;
    }
    for (auto& c : load_corpus(argc > 4 ? argv[4] : NULL)) run_case(out, g, c.first, c.second);
    long N = g_thorough ? 2000 : 160;
    for (long i = 0; i < N; i++) gen_case(out, g, argv[3]);
    // path outlines against a vertex limit at the boundary, both path kinds: one below the outline's vertex count (must be cut), equal
    // to it and one above (may stay whole)
    for (int rep = 0; rep < (g_thorough ? 20 : 2); rep++)
        for (int robust = 0; robust < 2; robust++)
            for (int mode = 1; mode <= 3; mode++) {
                g_force_mode = mode;
                run_gds_path(out, g, 100, robust != 0, argv[3]);
            }
    g_force_mode = 0;
    out.close();
    return 0;
}
